#!/bin/sh
# Offline setup: overlay venv with z3-solver/sympy/mpmath/jsonschema on top of /venv's numpy/scipy/rowan.
set -e
cd "$(dirname "$0")"
if [ ! -x .venv/bin/python ] || ! .venv/bin/python -c "import z3, sympy, mpmath, jsonschema, numpy, scipy, rowan" 2>/dev/null; then
  rm -rf .venv
  /venv/bin/python -m venv .venv
  PIP_NO_INDEX=1 .venv/bin/pip install -q --no-index --find-links /opt/veriftools/wheels z3-solver sympy mpmath jsonschema
  echo "import site; site.addsitedir('/venv/lib/python3.12/site-packages')" > .venv/lib/python3.12/site-packages/_overlay.pth
fi
.venv/bin/python -c "import z3, sympy, mpmath, jsonschema, numpy, scipy, rowan; print('setup ok')"
