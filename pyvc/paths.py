"""Path exploration by re-execution.

A *run* is a Python callable that builds a fresh symbolic pre-state, calls the real
function and returns whatever the contract wants to look at.  Whenever the executed code
needs the truth value of a symbolic condition (`if`, `and`, `sorted`, `max` ...) it lands in
`branch()`, which consults the decision prefix of the current path.  All feasible
decision sequences are explored (depth-first), so the union of the recorded path
conditions covers every input allowed by the precondition.
"""
from __future__ import annotations

import sympy as sp


class OutOfReach(Exception):
    """The executed code left the supported subset; the function is reported, never skipped."""


class PathLimit(Exception):
    pass


class _Ctx:
    def __init__(self, prefix, assumptions):
        self.prefix = list(prefix)
        self.pos = 0
        self.decisions = []       # bools actually taken at *free* decision points
        self.pc = list(assumptions)  # sympy booleans
        self.pending = []         # alternative prefixes discovered on this run
        self.notes = []
        self.loops = []           # active generic loops (see loader / symarr)
        self.effects = []         # heap effect log (writes)
        self.fresh = 0


CUR: _Ctx | None = None
_FEAS_CACHE: dict = {}


def cur() -> _Ctx:
    if CUR is None:
        raise RuntimeError("symbolic value used outside pyvc.paths.explore")
    return CUR


def active() -> bool:
    return CUR is not None


def assume(cond):
    """Add a fact to the current path condition (preconditions, assumed contracts)."""
    c = cur()
    cond = sp.sympify(cond)
    if cond is sp.true:
        return
    c.pc.append(cond)


def note(msg):
    if CUR is not None:
        CUR.notes.append(msg)


def fresh_name(stem):
    c = cur()
    c.fresh += 1
    return f"{stem}!{c.fresh}"


def _feasible(pc, cond):
    from . import z3back
    key = (tuple(pc), cond)      # sympy expressions hash structurally
    r = _FEAS_CACHE.get(key)
    if r is None:
        r = z3back.satisfiable(list(pc) + [cond], timeout_ms=3000)
        _FEAS_CACHE[key] = r
    return r  # True / False / None(unknown)


def branch(cond) -> bool:
    """Truth value of a symbolic condition on the current path (forks the exploration)."""
    c = cur()
    cond = sp.sympify(cond)
    if cond is sp.true:
        return True
    if cond is sp.false:
        return False
    ncond = sp.Not(cond)
    # a condition that shares no symbol with the path condition is independent of it: with the path condition
    # satisfiable (we are on it), pc /\ cond is satisfiable iff cond is -- a query z3 answers at once
    pc_syms = set()
    for x in c.pc:
        pc_syms |= getattr(x, "free_symbols", set())
    pc = [] if not (cond.free_symbols & pc_syms) else c.pc
    t = _feasible(pc, cond)
    f = _feasible(pc, ncond)
    if t is False and f is False:
        # the path condition itself is infeasible; just pick a side
        c.pc.append(cond)
        return True
    if f is False:
        return True
    if t is False:
        return False
    # genuinely free decision
    if c.pos < len(c.prefix):
        d = c.prefix[c.pos]
    else:
        d = True
        c.pending.append(c.decisions + [False])
    c.pos += 1
    c.decisions.append(d)
    c.pc.append(cond if d else ncond)
    return d


class PathResult:
    __slots__ = ("pc", "decisions", "kind", "value", "exc", "notes", "effects")

    def __init__(self, pc, decisions, kind, value, exc, notes, effects):
        self.pc, self.decisions, self.kind = pc, decisions, kind
        self.value, self.exc, self.notes, self.effects = value, exc, notes, effects

    def __repr__(self):
        return f"<Path {self.kind} dec={self.decisions} pc={self.pc}>"


def explore(run, assumptions=(), max_paths=400, catch=(Exception,), only=None, expand=False):
    """Run `run()` along every feasible path.  Returns list[PathResult].

    `run` may raise: exceptions listed in `catch` end the path with kind='raise'
    (OutOfReach and internal errors always propagate).  `only` restricts the exploration to the given decision
    prefixes; with `expand` every path that extends one of them is explored (the alternatives found beyond a prefix all
    extend it), otherwise exactly one path per prefix."""
    global CUR
    results = []
    work = [[]] if only is None else [list(x) for x in reversed(only)]
    while work:
        prefix = work.pop()
        if len(results) >= max_paths:
            raise PathLimit(f"more than {max_paths} paths")
        ctx = _Ctx(prefix, assumptions)
        prev = CUR
        CUR = ctx
        try:
            try:
                val = run()
                kind, exc = "return", None
            except (OutOfReach, PathLimit, RecursionError):
                raise
            except catch as e:  # noqa: BLE001 - the executed code's own exception
                val, kind, exc = None, "raise", e
        finally:
            CUR = prev
        results.append(PathResult(ctx.pc, ctx.decisions, kind, val, exc, ctx.notes, ctx.effects))
        if only is None or expand:
            work.extend(ctx.pending)
    return results
