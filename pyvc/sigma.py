"""Sigma-normal form and edge-cancellation certificates (DESIGN.md section 2.4).

Only three laws of finite sums are used:
  (S1) congruence, (S2) linearity in index-free coefficients, (S3) cyclic shift invariance
       sum_k f((k+o) mod n) = sum_k f(k),
plus, for certificates, the combinatorial lemma that in a closed oriented triangulated surface
(resp. a closed polygon) every antisymmetric edge term cancels.
"""
from __future__ import annotations

import sympy as sp
from sympy.core.function import AppliedUndef

from .symarr import Dim, _DIMS

_CANON = {}


def canon_dummy(n_sym):
    d = _CANON.get(n_sym)
    if d is None:
        d = sp.Symbol(f"j@{n_sym.name}", integer=True, nonnegative=True)
        _CANON[n_sym] = d
    return d


def _shift_normalise(term, j, n):
    """(S3): make the smallest cyclic offset of j in `term` equal to 0.
    Index forms recognised:  j  and  Mod(j + o, n)."""
    offs = set()
    cyclic_only = True
    for m in term.atoms(sp.Mod):
        if m.has(j):
            a, b = m.args
            if b != n:
                return term
            o = sp.expand(a - j)
            if not o.is_Integer:
                return term
            offs.add(int(o))
    # plain occurrences of j (outside Mod)
    plain = term.subs({m: sp.Dummy() for m in term.atoms(sp.Mod)}).has(j)
    if plain:
        offs.add(0)
    if not offs:
        return term
    omin = min(offs)
    if omin == 0:
        return term
    # substitute j -> j - omin inside cyclic index forms
    rep = {}
    for m in term.atoms(sp.Mod):
        if m.has(j):
            o = int(sp.expand(m.args[0] - j))
            rep[m] = j if o - omin == 0 else sp.Mod(j + (o - omin), n)
    if plain:
        # plain j may only occur as a direct array index  f(..., j, ...)
        stripped = term
        prep = {}
        for f in term.atoms(AppliedUndef):
            if any(a == j for a in f.args):
                prep[f] = f.func(*[sp.Mod(j - omin, n) if a == j else a.xreplace(rep) for a in f.args])
        probe = term.xreplace({f: sp.Dummy() for f in prep}).xreplace({m: sp.Dummy() for m in rep})
        if probe.has(j):
            return term          # j used as a number: no cyclic shift
        return term.xreplace({**prep, **rep})
    return term.xreplace(rep)


def _canon_radicals(e):
    """sqrt arguments in expanded, factor_terms form"""
    def fix(p):
        if p.is_Pow and p.exp.is_Rational and not p.exp.is_Integer:
            base = sp.factor_terms(sp.expand(fix_all(p.base)))
            return sp.Pow(base, p.exp)
        return p

    def fix_all(x):
        if not x.args:
            return x
        x = x.func(*[fix_all(a) for a in x.args])
        return fix(x)
    return fix_all(e)


def canon(expr):
    """canonical form: every Sum split into monomial sums with index-free coefficients pulled out,
    canonical dummy, cyclic offsets normalised"""
    expr = sp.sympify(expr)
    if not expr.has(sp.Sum):
        return expr
    rep = {}
    for s in sorted(expr.atoms(sp.Sum), key=lambda s: len(str(s))):
        body, (j0, lo, hi) = s.function, s.limits[0]
        if len(s.limits) != 1 or lo != 0:
            continue
        n = sp.expand(hi + 1)
        body = canon(body)          # inner sums first
        j = canon_dummy(n)
        body = body.xreplace({j0: j})
        body = sp.expand(_canon_radicals(body))
        total = sp.Integer(0)
        for term in sp.Add.make_args(body):
            coeff, rest = term.as_independent(j, as_Add=False)
            rest = _shift_normalise(rest, j, n)
            if rest == 1:
                total += coeff * n
            else:
                total += coeff * sp.Sum(rest, (j, 0, n - 1))
        rep[s] = total
    return expr.xreplace(rep)


def canon_one(s):
    """canonical form of one Sum: monomial sums with index-free coefficients pulled out (S1, S2), canonical
    dummy, cyclic offsets normalised (S3).  Sums inside the summand (index-free) are treated as atoms."""
    body, (j0, lo, hi) = s.function, s.limits[0]
    if len(s.limits) != 1 or lo != 0:
        return s
    n = sp.expand(hi + 1)
    j = canon_dummy(n)
    body = body.xreplace({j0: j})
    inner = {t: sp.Dummy("S") for t in body.atoms(sp.Sum)}
    back = {v: k for k, v in inner.items()}
    body = sp.expand(_canon_radicals(body.xreplace(inner)))
    total = sp.Integer(0)
    for term in sp.Add.make_args(body):
        coeff, rest = term.as_independent(j, as_Add=False)
        rest = _shift_normalise(rest, j, n)
        if rest == 1:
            total += coeff * n
        else:
            total += coeff * sp.Sum(rest, (j, 0, n - 1))
    return total.xreplace(back)


def canon_syms(expr):
    """canonical form with every (canonical, monomial) Sum replaced by a symbol, innermost sums first, so
    that no expansion ever looks inside a Sum"""
    from .oblig import sums_to_symbols
    expr = sp.sympify(expr)
    guard = 0
    while expr.has(sp.Sum):
        guard += 1
        if guard > 20:
            raise ValueError("sum nesting too deep")
        inner = [s for s in expr.atoms(sp.Sum) if not s.function.has(sp.Sum)]
        expr = expr.xreplace({s: sums_to_symbols(canon_one(s)) for s in inner})
    return expr


def is_zero(expr):
    from .oblig import normal_form
    return normal_form(canon(expr)) == 0


def row_body(expr, n_sym):
    """D(j) with  expr == sum_j D(j)  (expr must be linear in its sums over this extent, with no
    sum-free remainder); returns (D, j)"""
    e = sp.expand(canon(expr))
    j = canon_dummy(n_sym)
    sums = [s for s in e.atoms(sp.Sum) if s.limits[0][0] == j]
    marks = {s: sp.Dummy(f"S{i}") for i, s in enumerate(sums)}
    e2 = e.xreplace(marks)
    body = sp.Integer(0)
    poly_vars = list(marks.values())
    if not poly_vars:
        raise ValueError("no sum over the requested extent")
    p = sp.Poly(e2, *poly_vars)
    inv = {v: s for s, v in marks.items()}
    for mon, coeff in p.terms():
        if sum(mon) == 0:
            if sp.expand(coeff) != 0:
                raise ValueError(f"sum-free remainder {coeff}")
            continue
        if sum(mon) != 1:
            raise ValueError("expression is not linear in its sums")
        if coeff.has(j):
            raise ValueError("coefficient depends on the summation index")
        s = inv[poly_vars[mon.index(1)]]
        body += coeff * s.function
    return sp.expand(body), j


def edge_certificate(D, A, B, C):
    """closed-surface certificate:  D(a,b,c) == g(a,b)+g(b,c)+g(c,a)  with  g(u,v) := D(0,u,v)
    antisymmetric.  A, B, C are the lists of row atoms of the three triangle vertices.
    Returns (ok, residual, antisymmetry_residual)."""
    from .oblig import atoms_to_symbols
    # row atoms -> plain symbols (injective), for speed
    probe = atoms_to_symbols(sp.Add(D, *A, *B, *C, evaluate=False))
    from .oblig import _ATOM_SYMS
    A = [_ATOM_SYMS.get(a, a) for a in A]
    B = [_ATOM_SYMS.get(a, a) for a in B]
    C = [_ATOM_SYMS.get(a, a) for a in C]
    D = sp.expand(atoms_to_symbols(D))
    U = sp.symbols("u0:%d" % len(A), real=True)
    Vv = sp.symbols("w0:%d" % len(A), real=True)
    zero = {a: 0 for a in A}
    g_uv = D.xreplace({**zero, **dict(zip(B, U)), **dict(zip(C, Vv))})

    def g(P, Q):
        return g_uv.xreplace({**dict(zip(U, P)), **dict(zip(Vv, Q))})
    resid = sp.expand(D - (g(A, B) + g(B, C) + g(C, A)))
    anti = sp.expand(g_uv + g_uv.xreplace({**dict(zip(U, Vv)), **dict(zip(Vv, U))}, ) if False else
                     g(U, Vv) + g(Vv, U))
    return (resid == 0 and anti == 0), resid, anti


def polygon_edge_certificate(D, P, Q):
    """closed-polygon certificate: D(p,q) = h(q) - h(p) telescopes (h(x) := -D(x, 0) ... ) --
    the row term of edge (p,q) must be  h(q) - h(p);  we take h(x) := D(0, x)."""
    D = sp.expand(D)
    T = sp.symbols("t0:%d" % len(P), real=True)
    h_t = D.xreplace({**{p: 0 for p in P}, **dict(zip(Q, T))})

    def h(X):
        return h_t.xreplace(dict(zip(T, X)))
    resid = sp.expand(D - (h(Q) - h(P)))
    return resid == 0, resid


def cancel_sums(expr):
    """one reduced fraction, treating every canonical Sum as an indeterminate (exact rational-function algebra)"""
    from .oblig import sums_to_symbols, _SUM_SYMS
    e = canon(expr)
    e1 = sums_to_symbols(e)
    out = sp.cancel(sp.together(e1))
    back = {v: k for k, v in _SUM_SYMS.items()}
    return out.xreplace(back)
