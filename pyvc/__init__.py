"""pyvc -- verification-condition generation for the real coxeter sources.

The real source files of /repo are re-read and compiled on every run (pyvc.loader);
their functions are executed on symbolic values (pyvc.sym, pyvc.symarr, pyvc.symnp)
along every feasible path (pyvc.paths); the sidecar contracts in /verif/contracts turn
each path into named obligations which are discharged by exact polynomial normal forms
(sympy) and by z3 / cvc5 (pyvc.z3back).  See /verif/DESIGN.md.
"""
