"""Conservative may-write (frame) analysis over the real class ASTs.

For a function it computes a set of abstract locations that some execution may write:

    self.<f>          the field is (re)bound
    self.<f>[*]       the object held by the field is modified in place (array / list / dict / nested shape)
    <arg>[*]          an argument object is modified in place
    <unknown>[*]      an in-place modification of an object whose origin the analysis could not name

It is flow-insensitive and interprocedural over `self` calls: property reads call the getter, property
stores call the setter, `self.m(...)` calls the method (resolved through the class MRO parsed from the
sources).  Aliases are tracked through plain assignments, tuple unpacking, basic slicing, `np.asarray`,
attribute access of aliased objects and calls that return an alias (getters returning a field).
Calls into numpy / scipy / rowan are assumed not to write their arguments, except for `out=` and the
known in-place functions listed in INPLACE_FUNCS.
"""
from __future__ import annotations

import ast
import os

INPLACE_METHODS = {"sort", "append", "extend", "insert", "pop", "remove", "clear", "update", "fill", "resize", "put",
                   "setflags", "reverse", "setdefault", "popitem", "add", "discard"}
ALIAS_CALLS = {"asarray", "atleast_1d", "atleast_2d", "atleast_3d", "squeeze", "ravel", "reshape", "transpose", "view"}
COPY_CALLS = {"array", "copy", "deepcopy", "zeros", "ones", "empty", "zeros_like", "ones_like", "empty_like", "dot", "cross",
              "concatenate", "stack", "hstack", "vstack", "roll", "sum", "mean", "sqrt", "abs", "mod", "tolist", "list", "tuple",
              "sorted", "float", "int", "len", "range", "enumerate", "zip", "tile", "unique", "where", "linalg"}


class ClassTable:
    def __init__(self, repo):
        self.classes = {}     # name -> (module path, ClassDef, bases)
        self.functions = {}   # (module, name) -> FunctionDef (module-level functions)
        root = os.path.join(repo, "coxeter")
        for dp, _, files in os.walk(root):
            for f in files:
                if f.endswith(".py"):
                    path = os.path.join(dp, f)
                    try:
                        tree = ast.parse(open(path, encoding="utf-8").read(), path)
                    except SyntaxError:
                        continue
                    mod = os.path.relpath(path, repo)[:-3].replace(os.sep, ".")
                    for node in tree.body:
                        if isinstance(node, ast.ClassDef):
                            bases = [b.id if isinstance(b, ast.Name) else getattr(b, "attr", "?") for b in node.bases]
                            self.classes[node.name] = (mod, node, bases)
                        elif isinstance(node, ast.FunctionDef):
                            self.functions[(mod, node.name)] = node

    def mro(self, cls):
        out, todo = [], [cls]
        while todo:
            c = todo.pop(0)
            if c in out or c not in self.classes:
                continue
            out.append(c)
            todo.extend(self.classes[c][2])
        return out

    def members(self, cls):
        """name -> dict(kind=method|getter|setter|cached, node, owner) resolved along the MRO"""
        out = {}
        for c in reversed(self.mro(cls)):
            for node in self.classes[c][1].body:
                if not isinstance(node, ast.FunctionDef):
                    continue
                decs = [ast.unparse(d) for d in node.decorator_list]
                if any(d.endswith(".setter") for d in decs):
                    out[(node.name, "set")] = {"node": node, "owner": c}
                elif "property" in decs or any(d.endswith("cached_property") for d in decs):
                    out[(node.name, "get")] = {"node": node, "owner": c, "cached": any(d.endswith("cached_property") for d in decs)}
                else:
                    out[(node.name, "call")] = {"node": node, "owner": c}
        return out


class Analyzer:
    def __init__(self, table, cls):
        self.t, self.cls = table, cls
        self.mem = table.members(cls)
        self.cache = {}
        self.stack = []

    def effects(self, name, kind):
        key = (name, kind)
        if key in self.cache:
            return self.cache[key]
        if key in self.stack or key not in self.mem:
            return set(), set()
        self.stack.append(key)
        fa = _FuncAnalysis(self, self.mem[key]["node"])
        fa.run()
        writes, returns = fa.writes, fa.returns
        if self.mem[key].get("cached"):
            writes = set(writes) | {f"self.{name}(memo)"}
        self.stack.pop()
        self.cache[key] = (writes, returns)
        return writes, returns


class _FuncAnalysis(ast.NodeVisitor):
    def __init__(self, an, node):
        self.an, self.node = an, node
        self.writes = set()
        self.returns = set()     # abstract origins the return value may alias
        self.alias = {}          # local name -> set of origins ('self', 'self.f', 'arg:x', 'fresh')
        args = [a.arg for a in node.args.args + node.args.kwonlyargs]
        for a in args:
            self.alias[a] = {"self"} if a == "self" else {f"arg:{a}"}

    def run(self):
        # one forward pass: strong updates for straight-line code at the top level of the function,
        # weak updates (union) inside branches and loops, whose bodies are visited twice
        self.depth = 0
        for st in self.node.body:
            self.visit(st)

    # ---------------------------------------------------------------- origins of an expression
    def origins(self, e):
        if isinstance(e, ast.Name):
            return set(self.alias.get(e.id, {"fresh"}))
        if isinstance(e, ast.Attribute):
            base = self.origins(e.value)
            out = set()
            for b in base:
                if b == "self":
                    if (e.attr, "get") in self.an.mem:
                        w, r = self.an.effects(e.attr, "get")
                        self.writes |= w
                        out |= (r or {"fresh"})
                    elif (e.attr, "call") in self.an.mem:
                        out.add("fresh")
                    else:
                        out.add(f"self.{e.attr}")
                elif b == "fresh":
                    out.add("fresh")
                else:
                    if e.attr in ("T", "real", "imag", "flat", "base"):
                        out.add(b)
                    else:
                        out.add(f"{b}.{e.attr}")
            return out or {"fresh"}
        if isinstance(e, ast.Subscript):
            base = self.origins(e.value)
            idx = self.origins(e.slice) if isinstance(e.slice, ast.expr) else {"fresh"}
            # basic slicing aliases; indexing with an array (an object reachable from self / an argument array) copies
            if isinstance(e.slice, (ast.Name, ast.Attribute, ast.Subscript, ast.List)) and \
                    any(o.startswith(("self.", "arg:")) for o in idx):
                return {"fresh"}
            return base
        if isinstance(e, ast.Call):
            return self.call(e)
        if isinstance(e, (ast.Tuple, ast.List)):
            out = set()
            for x in e.elts:
                out |= self.origins(x)
            return out - {"fresh"} or {"fresh"}
        if isinstance(e, ast.IfExp):
            return self.origins(e.body) | self.origins(e.orelse)
        if isinstance(e, (ast.ListComp, ast.GeneratorExp, ast.SetComp)):
            self.depth = getattr(self, "depth", 0) + 1
            for g in e.generators:
                self.store(g.target, self.origins(g.iter))
                for c in g.ifs:
                    self.origins(c)
            out = self.origins(e.elt)
            self.depth -= 1
            return out
        if isinstance(e, ast.Starred):
            return self.origins(e.value)
        for child in ast.iter_child_nodes(e):
            if isinstance(child, ast.expr):
                self.origins(child)
        return {"fresh"}

    def origins_visit(self, e):
        if isinstance(e, ast.expr):
            self.origins(e)

    def call(self, c):
        f = c.func
        for a in c.args:
            self.origins(a)
        for k in c.keywords:
            o = self.origins(k.value)
            if k.arg == "out":
                self.mark_inplace(o)
        if isinstance(f, ast.Attribute):
            recv = self.origins(f.value) if not (isinstance(f.value, ast.Name) and f.value.id in ("np", "rowan", "miniball", "warnings", "io", "polytri", "poly_point_isect")) else {"lib"}
            if "self" in recv and (f.attr, "call") in self.an.mem:
                w, r = self.an.effects(f.attr, "call")
                self.writes |= w
                return r or {"fresh"}
            if f.attr in INPLACE_METHODS and recv != {"lib"}:
                self.mark_inplace(recv)
                return {"fresh"}
            if f.attr in ALIAS_CALLS:
                if recv == {"lib"}:
                    out = set()
                    for a in c.args[:1]:
                        out |= self.origins(a)
                    return out or {"fresh"}
                return recv
            if f.attr in ("copy",) or recv == {"lib"}:
                return {"fresh"}
            # method of some other object (e.g. self.polygon.centroid setter is an Attribute store, handled elsewhere)
            for b in recv:
                if b.startswith("self.") and f.attr.startswith("_rescale"):
                    self.writes.add(f"{b}[*]")
            return {"fresh"}
        if isinstance(f, ast.Name) and f.id in self.an.t.classes and f.id != self.an.cls:
            # construction of another shape: its __init__ may modify or keep the arrays passed to it
            other = Analyzer(self.an.t, f.id)
            if ("__init__", "call") in other.mem:
                w, _ = other.effects("__init__", "call")
                params = [a.arg for a in other.mem[("__init__", "call")]["node"].args.args][1:]
                actual = {}
                for p_, a_ in zip(params, c.args):
                    actual[p_] = self.origins(a_)
                for k in c.keywords:
                    if k.arg:
                        actual[k.arg] = self.origins(k.value)
                for item in w:
                    if item.startswith("arg:") and item.endswith("[*]"):
                        self.mark_inplace(actual.get(item[4:-3], set()))
            return {"fresh"}
        if isinstance(f, ast.Name) and f.id in ("zip", "enumerate", "reversed", "iter", "next", "map", "filter"):
            out = set()
            for a in c.args:
                out |= self.origins(a)
            return (out - {"fresh"}) or {"fresh"}
        if isinstance(f, ast.Name):
            if f.id in ("setattr",) and c.args:
                self.mark_inplace(self.origins(c.args[0]))
            if f.id in ("getattr",) and len(c.args) >= 2:
                o = self.origins(c.args[0])
                if "self" in o:
                    # to_json style reflection: any getter may run
                    for (nm, kd) in list(self.an.mem):
                        if kd == "get" and isinstance(c.args[1], ast.Constant) and c.args[1].value == nm:
                            w, r = self.an.effects(nm, "get")
                            self.writes |= w
                    return {"self.?"}
            if f.id in ("deepcopy", "copy"):
                return {"fresh"}
            if f.id in ("_align_points_by_normal",):
                return {"fresh"}
        return {"fresh"}

    def mark_inplace(self, origins):
        for o in origins:
            if o == "fresh" or o == "lib":
                continue
            if o == "self":
                self.writes.add("self[*]")
            else:
                self.writes.add(f"{o}[*]")

    # ---------------------------------------------------------------- statements
    def store(self, target, value_origins):
        if isinstance(target, ast.Name):
            if getattr(self, "depth", 0) == 0:
                self.alias[target.id] = set(value_origins)
            else:
                self.alias.setdefault(target.id, set()).update(value_origins)
        elif isinstance(target, (ast.Tuple, ast.List)):
            for t in target.elts:
                self.store(t, value_origins)
        elif isinstance(target, ast.Attribute):
            base = self.origins(target.value)
            for b in base:
                if b == "self":
                    if (target.attr, "set") in self.an.mem:
                        w, _ = self.an.effects(target.attr, "set")
                        for item in w:
                            if item.startswith("alias(") and "<-arg:value" in item:
                                # the setter keeps a reference to its parameter: map it to what is passed here
                                for o in value_origins:
                                    if o.startswith("arg:"):
                                        self.writes.add(item.replace("<-arg:value", f"<-{o}"))
                            elif item.endswith("[*]") and item.startswith("arg:value"):
                                for o in value_origins:
                                    if o.startswith("arg:"):
                                        self.writes.add(f"{o}[*]")
                            else:
                                self.writes.add(item)
                    else:
                        self.writes.add(f"self.{target.attr}")
                        for o in value_origins:
                            if o.startswith("arg:"):
                                self.writes.add(f"alias(self.{target.attr}<-{o})")
                elif b not in ("fresh", "lib"):
                    # attribute store on another object reachable from self / args (e.g. self._polygon.centroid = ...)
                    self.writes.add(f"{b}.{target.attr}" if not b.startswith("self.") else f"{b}[*]")
        elif isinstance(target, ast.Subscript):
            self.mark_inplace(self.origins(target.value))
            self.origins_visit(target.slice)
        elif isinstance(target, ast.Starred):
            self.store(target.value, value_origins)

    def visit_Assign(self, n):
        o = self.origins(n.value)
        for t in n.targets:
            self.store(t, o)

    def visit_AnnAssign(self, n):
        if n.value is not None:
            self.store(n.target, self.origins(n.value))

    def visit_AugAssign(self, n):
        self.origins(n.value)
        if isinstance(n.target, ast.Name):
            # x += ... modifies the object in place when x is an array alias
            self.mark_inplace(self.alias.get(n.target.id, set()) - {"fresh"})
        elif isinstance(n.target, ast.Attribute):
            base = self.origins(n.target.value)
            for b in base:
                if b == "self":
                    if (n.target.attr, "set") in self.an.mem:
                        w, _ = self.an.effects(n.target.attr, "get")
                        self.writes |= w
                        w, _ = self.an.effects(n.target.attr, "set")
                        self.writes |= w
                    else:
                        self.writes.add(f"self.{n.target.attr}")
                        self.writes.add(f"self.{n.target.attr}[*]")
                elif b not in ("fresh", "lib"):
                    self.writes.add(f"{b}[*]")
        elif isinstance(n.target, ast.Subscript):
            self.mark_inplace(self.origins(n.target.value))

    def visit_Return(self, n):
        if n.value is not None:
            self.returns |= {o for o in self.origins(n.value) if o != "fresh"}

    def visit_Expr(self, n):
        self.origins(n.value)

    def visit_For(self, n):
        o = self.origins(n.iter)
        self.depth += 1
        for _ in range(2):
            self.store(n.target, o)
            for s in n.body + n.orelse:
                self.visit(s)
        self.depth -= 1

    def visit_While(self, n):
        self.depth += 1
        for _ in range(2):
            self.origins(n.test)
            for s in n.body + n.orelse:
                self.visit(s)
        self.depth -= 1

    def visit_If(self, n):
        self.origins(n.test)
        self.depth += 1
        for s in n.body + n.orelse:
            self.visit(s)
        self.depth -= 1

    def visit_With(self, n):
        for it in n.items:
            o = self.origins(it.context_expr)
            if it.optional_vars is not None:
                self.store(it.optional_vars, o)
        for s in n.body:
            self.visit(s)

    def visit_Try(self, n):
        self.depth += 1
        for s in n.body + n.orelse:
            self.visit(s)
        for h in n.handlers:
            for s in h.body:
                self.visit(s)
        self.depth -= 1
        for s in n.finalbody:
            self.visit(s)

    def visit_Raise(self, n):
        if n.exc is not None:
            self.origins(n.exc)

    def visit_Assert(self, n):
        self.origins(n.test)

    def visit_FunctionDef(self, n):
        if n is self.node:
            return
        # nested function: analysed inline (its free variables share this scope)
        for s in n.body:
            self.visit(s)

    def visit_Yield(self, n):
        if n.value is not None:
            self.returns |= {o for o in self.origins(n.value) if o != "fresh"}


def class_frames(repo, cls):
    """(member, kind) -> (sorted may-write set, sorted returned aliases) for every public member of cls"""
    t = ClassTable(repo)
    an = Analyzer(t, cls)
    out = {}
    for (name, kind), info in sorted(an.mem.items()):
        w, r = an.effects(name, kind)
        out[(name, kind)] = (sorted(w), sorted(r), info["owner"])
    return out
