"""Concretisation: evaluate a symbolic result of the engine on concrete data.

The numpy model for arrays with symbolic extents (SymArr, Sigma sums, defined max/min/forall symbols, let-definitions, masks) is
part of the trusted base.  This module is its cross-check: a value the engine produced by executing a function on symbolic
arrays is evaluated with every symbolic extent set to a small concrete size and every element function (`V(k, j)`, `qv(k, j)` ...)
bound to a concrete numpy array, generic index by generic index, and compared with what CPython + the real numpy compute when
the *same* source text runs on those arrays.  A disagreement means that the engine does not model the code that runs; it is a
CHECKER-ERROR, never a property violation.
"""
from __future__ import annotations

import math

import numpy as np
import sympy as sp
from sympy.core.function import AppliedUndef

from . import sym as _sym
from . import symarr as _symarr


class Unsupported(Exception):
    pass


class Env:
    def __init__(self, sizes=None, arrays=None, scalars=None):
        self.sizes = {d.n: int(v) for d, v in (sizes or {}).items()}       # n_D symbol -> int
        self.arrays = dict(arrays or {})                                   # element function name -> ndarray | callable(*ints)
        self.scalars = {sp.sympify(k): v for k, v in (scalars or {}).items()}
        self.index = {}                                                    # k_D / dummy symbols -> int


def ev(e, env):
    """numeric value (python float / complex / bool / int) of the sympy expression e"""
    e = sp.sympify(e)
    if e in env.index:
        return env.index[e]
    if e in env.scalars:
        return env.scalars[e]
    if e in env.sizes:
        return env.sizes[e]
    if e.is_Number:
        if e.is_Integer:
            return int(e)
        if e in (sp.oo, -sp.oo):
            return math.inf if e > 0 else -math.inf
        return float(e)
    if e is sp.pi:
        return math.pi
    if e is sp.I:
        return 1j
    if e is sp.true:
        return True
    if e is sp.false:
        return False
    if e.is_Symbol:
        d = _symarr.DEFS.get(e)
        if d is not None:
            n = env.sizes.get(d.dim.n)
            if n is None:
                raise Unsupported(f"no size for axis {d.dim}")
            vals = []
            for i in range(n):
                env.index[d.dummy] = i
                vals.append(ev(d.body, env))
            env.index.pop(d.dummy, None)
            if d.kind == "max":
                return max(vals)
            if d.kind == "min":
                return min(vals)
            if d.kind == "forall":
                return all(bool(v) for v in vals)
            if d.kind == "exists":
                return any(bool(v) for v in vals)
        raise Unsupported(f"free symbol {e}")
    if isinstance(e, AppliedUndef):
        if e.func in _sym.LETS:
            idx, body = _sym.LETS[e.func]
            return ev(body.xreplace(dict(zip(idx, e.args))) if idx else body, env)
        a = env.arrays.get(e.func.__name__)
        if a is None:
            raise Unsupported(f"no array for {e.func.__name__}")
        args = [ev(x, env) for x in e.args]
        if callable(a):
            return a(*args)
        return a[tuple(int(x) for x in args)]
    if isinstance(e, sp.Sum):
        body = e.function
        (j, lo, hi), = e.limits
        lo, hi = int(ev(lo, env)), int(ev(hi, env))
        tot = 0
        for i in range(lo, hi + 1):
            env.index[j] = i
            tot = tot + ev(body, env)
        env.index.pop(j, None)
        return tot
    if e.is_Add:
        return sum(ev(a, env) for a in e.args)
    if e.is_Mul:
        out = 1
        for a in e.args:
            out = out * ev(a, env)
        return out
    if e.is_Pow:
        b, x = ev(e.base, env), ev(e.exp, env)
        if isinstance(b, (int, float)) and b < 0 and not float(x).is_integer():
            return float("nan")
        if b == 0 and x < 0:
            return math.inf
        return b ** x
    if isinstance(e, sp.Piecewise):
        for v, c in e.args:
            if c is sp.true or bool(ev(c, env)):
                return ev(v, env)
        return float("nan")
    if isinstance(e, sp.sign):
        v = ev(e.args[0], env)
        return int(v > 0) - int(v < 0)
    if isinstance(e, sp.Abs):
        return abs(ev(e.args[0], env))
    if isinstance(e, sp.floor):
        return math.floor(ev(e.args[0], env))
    if isinstance(e, sp.Mod):
        return ev(e.args[0], env) % ev(e.args[1], env)
    if isinstance(e, sp.Max):
        return max(ev(a, env) for a in e.args)
    if isinstance(e, sp.Min):
        return min(ev(a, env) for a in e.args)
    for f, g in ((sp.sin, np.sin), (sp.cos, np.cos), (sp.tan, np.tan), (sp.exp, np.exp), (sp.acos, np.arccos), (sp.asin, np.arcsin), (sp.atan, np.arctan)):
        if isinstance(e, f):
            return complex(g(ev(e.args[0], env))) if isinstance(ev(e.args[0], env), complex) else float(g(ev(e.args[0], env)))
    if isinstance(e, sp.sinc):
        x = ev(e.args[0], env)
        return 1.0 if x == 0 else math.sin(x) / x
    if isinstance(e, sp.atan2):
        return math.atan2(ev(e.args[0], env), ev(e.args[1], env))
    if isinstance(e, sp.conjugate):
        return np.conj(ev(e.args[0], env))
    # booleans
    if isinstance(e, sp.And):
        return all(bool(ev(a, env)) for a in e.args)
    if isinstance(e, sp.Or):
        return any(bool(ev(a, env)) for a in e.args)
    if isinstance(e, sp.Not):
        return not bool(ev(e.args[0], env))
    if isinstance(e, sp.core.relational.Relational):
        a, b = ev(e.lhs, env), ev(e.rhs, env)
        return {sp.Eq: a == b, sp.Ne: a != b, sp.Lt: a < b, sp.Le: a <= b, sp.Gt: a > b, sp.Ge: a >= b}[
            next(k for k in (sp.Eq, sp.Ne, sp.Lt, sp.Le, sp.Gt, sp.Ge) if isinstance(e, k))]
    raise Unsupported(f"no concrete evaluation for {type(e).__name__}")


def generic_values(expr, env, axes):
    """values of `expr` for every combination of generic indices of `axes` (a tuple of Dim), as an ndarray of that shape"""
    shape = tuple(env.sizes[d.n] for d in axes)
    out = np.empty(shape, dtype=object)
    for idx in (np.ndindex(shape) if shape else [()]):
        for d, i in zip(axes, idx):
            env.index[d.k] = i
        out[idx] = ev(expr, env)
    for d in axes:
        env.index.pop(d.k, None)
    return out


def cross_check(chk, name, fkey, expr, env, axes, reference, rtol=1e-9, boolean=False):
    """record the comparison of the concretised engine value with the reference computed by CPython + numpy"""
    try:
        got = generic_values(expr, env, axes)
        got = got.astype(bool) if boolean else got.astype(complex)
        ref = np.asarray(reference)
        ref = ref.astype(bool) if boolean else ref.astype(complex)
        ok = got.shape == ref.shape and (np.array_equal(got, ref) if boolean else
                                         bool(np.all(np.abs(got - ref) <= rtol * max(1.0, float(np.abs(ref).max()) if ref.size else 1.0))))
        detail = f"{got.size} values compared" if ok else f"engine {got.reshape(-1)[:4].tolist()} vs CPython {ref.reshape(-1)[:4].tolist()} (shapes {got.shape} / {ref.shape})"
    except Unsupported as e:
        chk.canaries.append({"name": f"concretisation:{name}", "function": fkey, "result": f"skipped: {e}", "ok": True})
        return None
    chk.canaries.append({"name": f"concretisation:{name}", "function": fkey, "result": "agrees" if ok else "DISAGREES", "ok": ok, "detail": detail})
    if not ok:
        chk.errors.append(f"concretisation {name}: the engine's value does not agree with CPython + numpy on the same source: {detail}")
    return ok
