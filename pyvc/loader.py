"""Mechanical extraction of the verified text from /repo.

Every run re-reads the current source files of the `coxeter` package, parses them and
compiles them into private module objects whose

* `import numpy` / `scipy` / `rowan` / `math` / `miniball` statements resolve to the models in
  pyvc.symnp / pyvc.externals (the module's own `__builtins__.__import__` is replaced; nothing
  else about import semantics changes, relative imports resolve among the re-compiled modules),
* builtins `len range enumerate zip any all sum float int isinstance` are the symbolic-aware
  versions below (they behave exactly like the builtins on ordinary values),
* `for` statements, list comprehensions with one generator and empty list displays are
  instrumented (see `_Instrument`) so that iteration over a sequence of *symbolic* length executes
  the body once for the generic index and summarises accumulators as sums.  On ordinary
  iterables the instrumented code is behaviourally identical to the original.

Nothing else is changed: the function bodies that run are compiled from the text in the
working tree.  `Loader.function_source()` returns the exact text for the evidence.
"""
from __future__ import annotations

import ast
import builtins as _bi
import hashlib
import os
import types

import numpy as _np
import sympy as sp

from . import paths
from .sym import Sym, SymBool, to_expr, wrap
from .symarr import SymArr, SymSeq, Dim, DimSym, GenericLoop, sum_over, _obj
from . import symnp, externals

REPO = os.environ.get("COXETER_REPO", "/repo")


# =============================================================================== builtins
class SymRange:
    def __init__(self, dim, start=0):
        self.dim, self.start = dim, start


class SymEnumerate:
    def __init__(self, inner):
        self.inner = inner


class SymZip:
    def __init__(self, parts):
        self.parts = parts


class PList(list):
    """list created by a `[]` display in verified code; remembers appends made in a generic loop"""
    sym = None

    def append(self, v):
        if paths.active() and paths.cur().loops:
            lp = paths.cur().loops[-1]
            if len(self) or (self.sym is not None and self.sym_dim is not lp.dim):
                raise paths.OutOfReach("append in a generic loop to a non-empty list")
            if self.sym is not None:
                raise paths.OutOfReach("two appends per generic iteration")
            self.sym = SymSeq(lp.dim, v)
            self.sym_dim = lp.dim
            return
        super().append(v)


def _symbolic_iterable(x):
    if isinstance(x, SymArr):
        return isinstance(x.axes[0], Dim)
    if isinstance(x, PList) and x.sym is not None:
        return True
    return isinstance(x, (SymSeq, SymRange, SymEnumerate, SymZip))


def _dim_elem(x):
    """(Dim, element at the generic index) of a symbolic iterable"""
    if isinstance(x, PList):
        x = x.sym
    if isinstance(x, SymArr):
        return x.axes[0], x.generic_row()
    if isinstance(x, SymSeq):
        return x.dim, x.elem
    if isinstance(x, SymRange):
        return x.dim, Sym(x.dim.k + x.start) if x.start else Sym(x.dim.k)
    if isinstance(x, SymEnumerate):
        d, e = _dim_elem(x.inner)
        return d, (Sym(d.k), e)
    if isinstance(x, SymZip):
        dim = None
        elems = []
        for p in x.parts:
            if not _symbolic_iterable(p):
                raise paths.OutOfReach("zip of symbolic and concrete sequences")
            d, e = _dim_elem(p)
            if dim is None:
                dim = d
            elif d is not dim:
                raise paths.OutOfReach("zip over different symbolic axes")
            elems.append(e)
        return dim, tuple(elems)
    raise TypeError(x)


def v_len(x):
    if hasattr(x, "__pyvc_len__"):
        return x.__pyvc_len__()
    if isinstance(x, SymArr):
        a = x.axes[0]
        return a.size if isinstance(a, Dim) else a
    if isinstance(x, PList) and x.sym is not None:
        return x.sym.dim.size
    if isinstance(x, (SymSeq,)):
        return x.dim.size
    if isinstance(x, SymRange):
        return x.dim.size
    return _bi.len(x)


def v_range(*a):
    if _bi.len(a) == 1 and isinstance(a[0], DimSym):
        return SymRange(a[0].dim)
    if any(isinstance(i, Sym) for i in a):
        raise paths.OutOfReach(f"range{a} with symbolic bound")
    return _bi.range(*a)


def v_enumerate(x, start=0):
    if _symbolic_iterable(x):
        if start != 0:
            raise paths.OutOfReach("enumerate(start!=0) over symbolic sequence")
        return SymEnumerate(x)
    return _bi.enumerate(x, start)


def v_zip(*xs, **k):
    if any(_symbolic_iterable(x) for x in xs):
        return SymZip(xs)
    return _bi.zip(*xs, **k)


def v_any(x):
    if isinstance(x, SymArr):
        return x.any()
    if _symbolic_iterable(x):
        d, e = _dim_elem(x)
        from .symarr import define, to_bool
        return wrap(define("exists", d, to_bool(e)))
    return _bi.any(x)


def v_all(x):
    if isinstance(x, SymArr):
        return x.all()
    if _symbolic_iterable(x):
        d, e = _dim_elem(x)
        from .symarr import define, to_bool
        return wrap(define("forall", d, to_bool(e)))
    return _bi.all(x)


def v_sum(x, start=0):
    if isinstance(x, SymArr):
        return x.sum(axis=0) + start
    if _symbolic_iterable(x):
        d, e = _dim_elem(x)
        return wrap(sum_over(d, to_expr(e))) + start
    return _bi.sum(x, start)


def v_float(x=0.0):
    if isinstance(x, Sym):
        return x
    return _bi.float(x)


def v_int(x=0, *a):
    if isinstance(x, Sym):
        if x.e.is_integer:
            return x
        raise paths.OutOfReach("int() of a non-integer symbolic value")
    return _bi.int(x, *a)


def v_isinstance(x, cls):
    if isinstance(x, Sym):
        classes = cls if isinstance(cls, tuple) else (cls,)
        import numbers
        for c in classes:
            if c is int or c is _np.integer:
                if x.e.is_integer:
                    return True
            elif c is float or c is _np.floating:
                if not x.e.is_integer:
                    return True
            elif c in (numbers.Number, numbers.Real, numbers.Complex, _np.number):
                return True
            elif isinstance(c, type) and isinstance(x, c):
                return True
        return False
    if isinstance(x, SymArr) and (cls is _np.ndarray):
        return True
    return _bi.isinstance(x, cls)


def v_list(x=()):
    if isinstance(x, SymArr) and isinstance(x.axes[0], Dim):
        return SymSeq(x.axes[0], x)
    if _symbolic_iterable(x):
        d, e = _dim_elem(x)
        return SymSeq(d, e)
    return _bi.list(x)


# =============================================================================== loops
class _GenericIter:
    def __init__(self, dim, elem):
        self.dim, self.elem = dim, elem
        self.loop = GenericLoop(dim)

    def __iter__(self):
        ctx = paths.cur()
        ctx.loops.append(self.loop)
        for f in self.dim.facts():
            paths.assume(f)
        try:
            yield self.elem
        finally:
            ctx.loops.pop()


def pyvc_loop(it):
    if _symbolic_iterable(it):
        d, e = _dim_elem(it)
        return _GenericIter(d, e)
    return it


def pyvc_snap(loc, names):
    out = {}
    for n in names:
        if n in loc:
            v = loc[n]
            out[n] = v.copy() if isinstance(v, (_np.ndarray, SymArr)) else v
    return out


def pyvc_close(lp, snaps, name, cur):
    """after a generic loop:  acc = acc0 + Sum_k (acc_after_generic_iteration - acc0)"""
    if not isinstance(lp, _GenericIter):
        return cur
    if name not in snaps:
        return cur      # loop-local name (first bound inside the body): not an accumulator
    acc0 = snaps[name]
    d = lp.dim

    def close_scalar(a0, a1):
        e0, e1 = to_expr(a0), to_expr(a1)
        if isinstance(e1, sp.Piecewise) and e1 != e0 and not any(sp.sympify(c).has(d.k) for _, c in e1.args):
            # masked update  x[m] += v :  a1 = Piecewise((a0 + v, m), (a0, True)); the conditions do not depend on the iteration,
            # so the increments are summed branch by branch (a0 cancels syntactically in every branch)
            pieces = []
            for v, c in e1.args:
                delta = sp.expand(v - e0)
                pieces.append((sum_over(d, delta) if delta != 0 else sp.Integer(0), c))
            return wrap(e0 + sp.Piecewise(*pieces))
        delta = sp.expand(e1 - e0)
        return wrap(e0 + sum_over(d, delta))

    if isinstance(cur, _np.ndarray):
        a0 = _obj(acc0)
        new = _np.empty(cur.shape, dtype=object)
        for idx in (_np.ndindex(cur.shape) if cur.ndim else [()]):
            new[idx] = close_scalar(a0[idx], cur[idx])
        cur[...] = new
        return cur
    if isinstance(cur, SymArr):
        if not isinstance(acc0, SymArr) or tuple(acc0.axes) != tuple(cur.axes) or acc0.inner.shape != cur.inner.shape or d in cur.axes:
            raise paths.OutOfReach("array accumulator whose shape changes in a generic loop")
        new = _np.empty(cur.inner.shape, dtype=object)
        for idx in (_np.ndindex(cur.inner.shape) if cur.inner.ndim else [()]):
            new[idx] = close_scalar(acc0.inner[idx], cur.inner[idx])
        cur.inner[...] = new
        return cur
    if isinstance(cur, (list, tuple)):
        raise paths.OutOfReach("sequence accumulator in a generic loop")
    return close_scalar(acc0, cur)


def pyvc_check(lp, before, loc, accs):
    """after a generic loop: a value that existed before the loop and now depends on the loop's generic index was updated in a
    way the summarisation schemas do not cover (e.g. overwritten in every iteration) -- the function leaves the subset"""
    if not isinstance(lp, _GenericIter):
        return
    k = lp.dim.k
    for n in before:
        if n in accs or n not in loc or n.startswith("__pyvc"):
            continue
        v = loc[n]
        if isinstance(v, SymArr):
            if lp.dim in v.axes:
                continue
            vals = v.inner.reshape(-1)
        elif isinstance(v, _np.ndarray) and v.dtype == object:
            vals = v.reshape(-1)
        elif isinstance(v, Sym):
            vals = [v]
        else:
            continue
        for x in vals:
            e = to_expr(x) if isinstance(x, (Sym, SymBool)) or hasattr(x, "free_symbols") else None
            if e is not None and k in getattr(e, "free_symbols", ()):
                raise paths.OutOfReach(f"'{n}' was defined before a loop over a symbolic sequence and depends on its generic element afterwards "
                                       "(an update that is neither an accumulation nor a store at the generic index)")


def pyvc_comp(it, f):
    """[elt for T in it if cond]  ==  concatenation of f(x) for x in it, f(x) in ([], [elt])"""
    if _symbolic_iterable(it):
        g = pyvc_loop(it)
        out = None
        for x in g:
            r = f(x)
            if len(r) != 1:
                raise paths.OutOfReach("filtered comprehension over a symbolic sequence")
            out = SymSeq(g.dim, r[0])
        return out
    out = []
    for x in it:
        out.extend(f(x))
    return out


def pyvc_list():
    return PList()


class _Instrument(ast.NodeTransformer):
    def __init__(self):
        self.n = 0

    def visit_For(self, node):
        self.generic_visit(node)
        self.n += 1
        lp = f"__pyvc_lp{self.n}"
        sn = f"__pyvc_sn{self.n}"
        accs = sorted(_aug_names(node.body))
        pre = [
            ast.Assign([ast.Name(lp, ast.Store())],
                       ast.Call(ast.Name("__pyvc_loop__", ast.Load()), [node.iter], [])),
            ast.Assign([ast.Name(sn, ast.Store())],
                       ast.Call(ast.Name("__pyvc_snap__", ast.Load()),
                                [ast.Call(ast.Name("locals", ast.Load()), [], []),
                                 ast.Tuple([ast.Constant(a) for a in accs], ast.Load())], [])),
        ]
        bf = f"__pyvc_bf{self.n}"
        pre.append(ast.Assign([ast.Name(bf, ast.Store())],
                              ast.Call(ast.Name("tuple", ast.Load()), [ast.Call(ast.Name("locals", ast.Load()), [], [])], [])))
        node.iter = ast.Name(lp, ast.Load())
        post = [
            ast.Assign([ast.Name(a, ast.Store())],
                       ast.Call(ast.Name("__pyvc_close__", ast.Load()),
                                [ast.Name(lp, ast.Load()), ast.Name(sn, ast.Load()), ast.Constant(a),
                                 ast.Name(a, ast.Load())], []))
            for a in accs
        ]
        post.append(ast.Expr(ast.Call(ast.Name("__pyvc_check__", ast.Load()),
                                      [ast.Name(lp, ast.Load()), ast.Name(bf, ast.Load()), ast.Call(ast.Name("locals", ast.Load()), [], []),
                                       ast.Tuple([ast.Constant(a) for a in accs], ast.Load())], [])))
        out = pre + [node] + post
        for o in out:
            ast.copy_location(o, node)
            ast.fix_missing_locations(o)
        return out

    def visit_ListComp(self, node):
        self.generic_visit(node)
        if len(node.generators) != 1 or node.generators[0].is_async:
            return node
        g = node.generators[0]
        inner = ast.ListComp(node.elt, [ast.comprehension(g.target, ast.List([ast.Name("__pyvc_x", ast.Load())], ast.Load()), g.ifs, 0)])
        lam = ast.Lambda(ast.arguments([], [ast.arg("__pyvc_x")], None, [], [], None, []), inner)
        call = ast.Call(ast.Name("__pyvc_comp__", ast.Load()), [g.iter, lam], [])
        return ast.copy_location(call, node)

    def visit_List(self, node):
        self.generic_visit(node)
        if isinstance(node.ctx, ast.Load) and not node.elts:
            return ast.copy_location(ast.Call(ast.Name("__pyvc_list__", ast.Load()), [], []), node)
        return node


def _aug_names(stmts):
    out = set()

    class V(ast.NodeVisitor):
        def visit_AugAssign(self, n):
            if isinstance(n.target, ast.Name):
                out.add(n.target.id)
            elif isinstance(n.target, ast.Subscript) and isinstance(n.target.value, ast.Name):
                out.add(n.target.value.id)          # x[...] += v : the array x is an accumulator
            self.generic_visit(n)

        def visit_FunctionDef(self, n):
            pass

        def visit_Lambda(self, n):
            pass

    for s in stmts:
        V().visit(s)
    return out


# =============================================================================== loader
class Loader:
    """A private, freshly compiled copy of the coxeter package for symbolic execution."""

    def __init__(self, repo=None, overrides=None):
        self.repo = repo or REPO
        self.modules = {}
        self.sources = {}
        self.trees = {}
        self.overrides = overrides or {}
        self.builtins = dict(vars(_bi))
        self.builtins.update({
            "__import__": self._import, "len": v_len, "range": v_range, "enumerate": v_enumerate,
            "zip": v_zip, "any": v_any, "all": v_all, "sum": v_sum, "float": v_float, "int": v_int,
            "isinstance": v_isinstance, "list": v_list,
            "__pyvc_loop__": pyvc_loop, "__pyvc_snap__": pyvc_snap, "__pyvc_close__": pyvc_close,
            "__pyvc_comp__": pyvc_comp, "__pyvc_list__": pyvc_list, "__pyvc_check__": pyvc_check,
        })

    # ---------------------------------------------------------------- files
    def _path(self, modname):
        rel = modname.replace(".", "/")
        p = os.path.join(self.repo, rel + ".py")
        if os.path.exists(p):
            return p, False
        p = os.path.join(self.repo, rel, "__init__.py")
        if os.path.exists(p):
            return p, True
        raise ImportError(modname)

    def load(self, modname):
        m = self.modules.get(modname)
        if m is not None:
            return m
        if "." in modname:
            self.load(modname.rsplit(".", 1)[0])
        path, is_pkg = self._path(modname)
        with open(path, encoding="utf-8") as f:
            src = f.read()
        self.sources[modname] = src
        tree = ast.parse(src, path)
        self.trees[modname] = ast.parse(src, path)
        tree = _Instrument().visit(tree)
        ast.fix_missing_locations(tree)
        code = compile(tree, path, "exec")
        m = types.ModuleType(modname)
        m.__file__ = path
        m.__package__ = modname if is_pkg else modname.rsplit(".", 1)[0]
        if is_pkg:
            m.__path__ = [os.path.dirname(path)]
        m.__dict__["__builtins__"] = self.builtins
        self.modules[modname] = m
        exec(code, m.__dict__)
        if "." in modname:
            parent, leaf = modname.rsplit(".", 1)
            setattr(self.modules[parent], leaf, m)
        for key, val in self.overrides.items():
            mod, attr = key.rsplit(":", 1) if ":" in key else key.rsplit(".", 1)
            if mod == modname:
                setattr(m, attr, val)
        return m

    def _import(self, name, globals=None, locals=None, fromlist=(), level=0):
        if level > 0:
            pkg = globals["__package__"]
            base = pkg.rsplit(".", level - 1)[0] if level > 1 else pkg
            full = f"{base}.{name}" if name else base
            mod = self.load(full)
            if fromlist:
                for f in fromlist:
                    if not hasattr(mod, f):
                        try:
                            self.load(f"{full}.{f}")
                        except ImportError:
                            pass
                return mod
            return self.load(full.split(".")[0])
        top = name.split(".")[0]
        if top == "coxeter":
            mod = self.load(name)
            if fromlist:
                for f in fromlist:
                    if not hasattr(mod, f):
                        try:
                            self.load(f"{name}.{f}")
                        except ImportError:
                            pass
                return mod
            return self.load("coxeter")
        if top in externals.MODULES:
            root = externals.MODULES[top]
            if fromlist:
                obj = root
                for part in name.split(".")[1:]:
                    obj = getattr(obj, part)
                return obj
            return root
        return _bi.__import__(name, globals, locals, fromlist, level)

    # ---------------------------------------------------------------- mechanical extraction
    def extract_tail(self, modname, qualname, inputs):
        """The body of a method from the first statement on that does not define one of `inputs`, as a function whose
        extra parameters are those names.  Mechanical, from the current source, on every run: the leading statements that
        assign the names in `inputs` (and nothing else) are dropped -- their text is returned so that the evidence states
        exactly what is not under contract -- and everything after them is compiled unchanged (same instrumentation,
        same module namespace).  Returns (function, dropped source text, source text of the kept part, sha)."""
        self.load(modname)
        tree = self.trees[modname]
        node = tree
        for p in qualname.split("."):
            node = next(n for n in node.body if isinstance(n, (ast.FunctionDef, ast.ClassDef)) and n.name == p)
        body = list(node.body)
        if body and isinstance(body[0], ast.Expr) and isinstance(getattr(body[0], "value", None), ast.Constant) \
                and isinstance(body[0].value.value, str):
            body = body[1:]
        dropped, want = [], set(inputs)
        while body and want:
            st = body[0]
            if isinstance(st, ast.Assign) and len(st.targets) == 1 and isinstance(st.targets[0], ast.Name) and st.targets[0].id in want:
                want.discard(st.targets[0].id)
                dropped.append(st)
                body = body[1:]
            else:
                break
        if want:
            raise KeyError(f"{modname}:{qualname}: leading statements do not define {sorted(want)}")
        import copy
        args = copy.deepcopy(node.args)
        args.args = list(args.args) + [ast.arg(arg=n) for n in inputs]
        fn = ast.FunctionDef(name=node.name + "__tail", args=args, body=copy.deepcopy(body), decorator_list=[], returns=None,
                             type_comment=None, type_params=[])
        mod = ast.Module(body=[fn], type_ignores=[])
        kept_text = ast.unparse(ast.fix_missing_locations(copy.deepcopy(mod)))
        mod = _Instrument().visit(mod)
        ast.fix_missing_locations(mod)
        ns = {}
        plain = copy.deepcopy(mod) if False else None
        exec(compile(mod, self._path(modname)[0], "exec"), self.modules[modname].__dict__, ns)
        dropped_text = "\n".join(ast.unparse(d) for d in dropped)
        fn_sym = ns[node.name + "__tail"]
        # the same text compiled without instrumentation in the namespace of the really imported module (CPython + numpy):
        # the reference of the concretisation cross-check (pyvc.concrete)
        try:
            import importlib
            import sys as _sys
            if self.repo not in _sys.path:
                _sys.path.insert(0, self.repo)
            real_mod = importlib.import_module(modname)
            ns2 = {}
            exec(compile(ast.parse(kept_text), self._path(modname)[0], "exec"), real_mod.__dict__, ns2)
            fn_sym.cpython = ns2[node.name + "__tail"]
        except Exception:  # noqa: BLE001
            fn_sym.cpython = None
        return fn_sym, dropped_text, kept_text, hashlib.sha256(kept_text.encode()).hexdigest()[:16]

    def extract_segment(self, modname, qualname, start, stop=None, loop_body=False):
        """A contiguous run of statements of a function as a function of its free variables (mechanical, from the current source).
        `start` / `stop` are predicates on the unparsed text of a top-level statement of the function: the segment runs from the first
        statement satisfying `start` up to (not including) the first later statement satisfying `stop` (default: one statement).
        With `loop_body` the selected statement must be a `for` loop and the segment is its body, the loop target being a parameter.
        Returns (function(**env) -> dict of locals afterwards, parameter names, source text, sha)."""
        self.load(modname)
        node = self.trees[modname]
        for p in qualname.split("."):
            node = next(n for n in node.body if isinstance(n, (ast.FunctionDef, ast.ClassDef)) and n.name == p)
        body = list(node.body)
        texts = [ast.unparse(st) for st in body]
        i0 = next((i for i, t in enumerate(texts) if start(t)), None)
        if i0 is None:
            raise KeyError(f"{modname}:{qualname}: no statement matches the start of the segment")
        if loop_body:
            if not isinstance(body[i0], ast.For):
                raise KeyError(f"{modname}:{qualname}: the selected statement is not a for loop")
            stmts = list(body[i0].body)
        else:
            i1 = next((i for i in range(i0 + 1, len(body)) if stop is not None and stop(texts[i])), i0 + 1 if stop is None else len(body))
            stmts = body[i0:i1]
        import copy
        stmts = copy.deepcopy(stmts)
        assigned, loaded = set(), []

        class V(ast.NodeVisitor):
            def visit_Name(self, n):
                if isinstance(n.ctx, ast.Load):
                    if n.id not in assigned and n.id not in loaded:
                        loaded.append(n.id)
                else:
                    assigned.add(n.id)

            def visit_Assign(self, n):
                self.visit(n.value)
                for t in n.targets:
                    self.visit(t)

            def visit_AugAssign(self, n):
                self.visit(n.value)
                if isinstance(n.target, ast.Name) and n.target.id not in assigned and n.target.id not in loaded:
                    loaded.append(n.target.id)
                self.visit(n.target)
        for st in stmts:
            V().visit(st)
        glob = self.modules[modname].__dict__
        params = [n for n in loaded if n not in glob and n not in self.builtins and not hasattr(_bi, n)]
        fname = node.name + "__segment"
        ret = ast.Return(ast.Call(ast.Name("dict", ast.Load()), [ast.Call(ast.Name("locals", ast.Load()), [], [])], []))
        fn = ast.FunctionDef(name=fname, args=ast.arguments(posonlyargs=[], args=[ast.arg(arg=a) for a in params], vararg=None, kwonlyargs=[],
                                                            kw_defaults=[], kwarg=None, defaults=[]),
                             body=stmts + [ret], decorator_list=[], returns=None, type_comment=None, type_params=[])
        fn_plain0 = copy.deepcopy(fn)
        mod = ast.Module(body=[fn], type_ignores=[])
        text = "\n".join(ast.unparse(st) for st in stmts)
        mod = _Instrument().visit(mod)
        ast.fix_missing_locations(mod)
        plain_src = ast.unparse(ast.fix_missing_locations(copy.deepcopy(ast.Module(body=[copy.deepcopy(fn)], type_ignores=[])))) if False else None
        ns = {}
        fn_plain = fn_plain0
        exec(compile(mod, self._path(modname)[0], "exec"), glob, ns)
        out_fn = ns[fname]
        try:      # the same statements, uninstrumented, in the really imported module (reference of the concretisation cross-check)
            import importlib
            import sys as _sys
            if self.repo not in _sys.path:
                _sys.path.insert(0, self.repo)
            real_mod = importlib.import_module(modname)
            m2 = ast.Module(body=[fn_plain], type_ignores=[])
            ast.fix_missing_locations(m2)
            ns2 = {}
            exec(compile(m2, self._path(modname)[0], "exec"), real_mod.__dict__, ns2)
            out_fn.cpython = ns2[fname]
        except Exception:  # noqa: BLE001
            out_fn.cpython = None
        return out_fn, params, text, hashlib.sha256(text.encode()).hexdigest()[:16]

    # ---------------------------------------------------------------- lookup
    def cls(self, dotted):
        mod, name = dotted.rsplit(".", 1)
        return getattr(self.load(mod), name)

    def function_source(self, modname, qualname):
        """exact source text of a function/method (docstring removed) + sha256 of it"""
        tree = self.trees[modname]
        node = tree
        parts = qualname.split(".")
        kind = None
        if "[" in parts[-1]:
            parts[-1], kind = parts[-1].rstrip("]").split("[")
        for p in parts:
            cands = [n for n in node.body if isinstance(n, (ast.FunctionDef, ast.ClassDef)) and n.name == p]
            if kind and p == parts[-1]:
                def is_kind(n):
                    decs = [ast.unparse(d) for d in n.decorator_list]
                    if kind == "set":
                        return any(d.endswith(".setter") for d in decs)
                    return not any(d.endswith(".setter") for d in decs)
                cands = [n for n in cands if is_kind(n)]
            if not cands:
                raise KeyError(f"{modname}:{qualname}")
            node = cands[0]
        body = list(node.body)
        if body and isinstance(body[0], ast.Expr) and isinstance(getattr(body[0], "value", None), ast.Constant) \
                and isinstance(body[0].value.value, str):
            body = body[1:] or [ast.Pass()]
        clone = ast.FunctionDef(node.name, node.args, body, node.decorator_list, node.returns, None) \
            if isinstance(node, ast.FunctionDef) else node
        ast.fix_missing_locations(clone)
        text = ast.unparse(clone)
        return text, hashlib.sha256(text.encode()).hexdigest()[:16]
