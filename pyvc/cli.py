"""./check <ID> [--tier quick|thorough] [--replay file]"""
from __future__ import annotations

import argparse
import importlib
import json
import os
import sys
import traceback

from . import oblig, paths


def main(argv=None):
    wd = os.environ.get("PYVC_WATCHDOG")
    if wd:
        import faulthandler
        faulthandler.dump_traceback_later(int(wd), exit=True)
    ap = argparse.ArgumentParser()
    ap.add_argument("pid")
    ap.add_argument("--tier", default=os.environ.get("VERIF_TIER", "quick"), choices=["quick", "thorough"])
    ap.add_argument("--replay")
    args = ap.parse_args(argv)
    seed = int(os.environ.get("VERIF_SEED", "0") or 0)
    pid = args.pid.upper()
    mod = importlib.import_module(f"contracts.{pid.lower()}")
    if args.replay:
        with open(args.replay) as f:
            rp = json.load(f)
        return mod.replay(rp) if hasattr(mod, "replay") else _generic_replay(mod, rp, pid, args.tier, seed)
    chk = oblig.Check(pid, args.tier, seed, level=getattr(mod, "LEVEL", "proof"))
    try:
        mod.run(chk)
    except Exception as e:  # noqa: BLE001
        chk.errors.append(f"checker crashed outside a section: {type(e).__name__}: {e}")
        traceback.print_exc()
    rc = chk.finish(getattr(mod, "EXPLANATION", (mod.__doc__ or "").strip()))
    return rc


def _generic_replay(mod, rp, pid, tier, seed):
    """re-run the check and report whether the recorded obligation still fails"""
    chk = oblig.Check(pid, tier, seed, level=getattr(mod, "LEVEL", "proof"))
    mod.run(chk)
    hit = [o for o in chk.obls if o.name == rp["obligation"] and o.status in ("refuted", "bounded-fail", "known-finding")]
    print(f"replay {rp['obligation']}: {'still fails' if hit else 'no longer fails'}")
    return 1 if hit else 0


if __name__ == "__main__":
    sys.exit(main())
