"""External libraries as seen by the verified modules: assumed contracts.

Each entry is a *hook*: a check installs the assumed contract it needs (and lists it in its
evidence under `assumed`).  An external that is called without an installed contract makes the
function under verification out of reach -- it is never silently ignored.
"""
from __future__ import annotations

import math as _math
import types

import sympy as sp

from . import paths, symnp
from .sym import Sym, to_expr, wrap

HOOKS: dict = {}
USED: list = []       # names of assumed contracts actually exercised (for the evidence)


def _hook(name):
    def call(*a, **k):
        h = HOOKS.get(name)
        if h is None:
            raise paths.OutOfReach(f"external {name} called without an assumed contract")
        if name not in USED:
            USED.append(name)
        return h(*a, **k)
    call.__name__ = name.replace(".", "_")
    return call


def reset():
    HOOKS.clear()
    USED.clear()
    symnp.EXTERNAL_STUBS.clear()
    for n in ("lstsq", "eigh", "solve", "unique", "lexsort", "argsort", "linspace", "random.uniform"):
        symnp.EXTERNAL_STUBS[n] = _hook(f"numpy.{n}")
    install_defaults()


# ---------------------------------------------------------------- uninterpreted special functions
ellipe_f = sp.Function("ellipe", real=True)
ellipeinc_f = sp.Function("ellipeinc", real=True)
ellipkinc_f = sp.Function("ellipkinc", real=True)


def _uf(f, name):
    def g(*a):
        if name not in USED:
            USED.append(name)
        return wrap(f(*[to_expr(x) for x in a]))
    return g


def install_defaults():
    # Legendre integrals are uninterpreted function symbols (assumed to be what scipy documents)
    HOOKS.setdefault("scipy.special.ellipe", _uf(ellipe_f, "scipy.special.ellipe"))
    HOOKS.setdefault("scipy.special.ellipeinc", _uf(ellipeinc_f, "scipy.special.ellipeinc"))
    HOOKS.setdefault("scipy.special.ellipkinc", _uf(ellipkinc_f, "scipy.special.ellipkinc"))


def _ns(**k):
    return types.SimpleNamespace(**k)


class _Math:
    pi = Sym(sp.pi)
    inf = _math.inf

    @staticmethod
    def _f(spf, pyf):
        def g(x):
            if isinstance(x, Sym):
                return wrap(spf(x.e))
            return pyf(x)
        return staticmethod(g)


for _n, _spf in (("sin", sp.sin), ("cos", sp.cos), ("tan", sp.tan), ("sqrt", sp.sqrt),
                 ("acos", sp.acos), ("asin", sp.asin), ("atan", sp.atan), ("exp", sp.exp)):
    setattr(_Math, _n, _Math._f(_spf, getattr(_math, _n)))


scipy = _ns(
    special=_ns(ellipe=_hook("scipy.special.ellipe"), ellipeinc=_hook("scipy.special.ellipeinc"),
                ellipkinc=_hook("scipy.special.ellipkinc")),
    spatial=_ns(ConvexHull=_hook("scipy.spatial.ConvexHull")),
    sparse=_ns(csgraph=_ns(connected_components=_hook("scipy.sparse.csgraph.connected_components"))),
    constants=_ns(golden_ratio=(1 + _math.sqrt(5)) / 2),
)

rowan = _ns(
    mapping=_ns(kabsch=_hook("rowan.mapping.kabsch")),
    rotate=_hook("rowan.rotate"),
    conjugate=_hook("rowan.conjugate"),
    random=_ns(rand=_hook("rowan.random.rand")),
)

miniball = _ns(get_bounding_ball=_hook("miniball.get_bounding_ball"))

MODULES = {"numpy": symnp.np, "scipy": scipy, "rowan": rowan, "miniball": miniball, "math": _Math}

reset()
