"""sympy -> z3 translation, satisfiability / validity queries, cvc5 second opinion."""
from __future__ import annotations

import subprocess
import tempfile
import time
from fractions import Fraction

import sympy as sp

from . import sym as _sym_mod
import z3
from sympy.core.function import AppliedUndef

PI_LO = sp.Rational(314159265358979, 10**14)
PI_HI = sp.Rational(314159265358980, 10**14)

_TRIG = {sp.sin: "sin", sp.cos: "cos", sp.tan: "tan", sp.acos: "acos", sp.asin: "asin",
         sp.atan: "atan", sp.atan2: "atan2", sp.exp: "exp", sp.log: "log", sp.sinc: "sinc"}


class Unsupported(Exception):
    pass


class Conv:
    """One translation context: shares introduced root variables and their axioms."""

    def __init__(self):
        self.side = []          # z3 axioms for introduced symbols
        self.cache = {}
        self.syms = {}          # sympy Symbol -> z3 const
        self.funcs = {}
        self.roots = {}
        self.apps = {}          # (fname, args) seen, for trig axioms
        self.n = 0

    # ------------------------------------------------------------------ helpers
    def _fresh(self, stem, sort="real"):
        self.n += 1
        return (z3.Real if sort == "real" else z3.Int)(f"{stem}__{self.n}")

    def sym(self, s):
        v = self.syms.get(s)
        if v is None:
            if s.is_integer:
                v = z3.Int(s.name)
            else:
                v = z3.Real(s.name)
            self.syms[s] = v
            if s.is_positive:
                self.side.append(v > 0)
            elif s.is_nonnegative:
                self.side.append(v >= 0)
            elif s.is_negative:
                self.side.append(v < 0)
        return v

    @staticmethod
    def _real(x):
        if z3.is_int(x):
            return z3.ToReal(x)
        return x

    def func(self, name, arg_sorts, rng="real"):
        key = (name, tuple(arg_sorts), rng)
        f = self.funcs.get(key)
        if f is None:
            ss = [z3.IntSort() if a == "int" else z3.RealSort() for a in arg_sorts]
            ss.append(z3.IntSort() if rng == "int" else z3.RealSort())
            f = z3.Function(name, *ss)
            self.funcs[key] = f
        return f

    # ------------------------------------------------------------------ numeric
    def num(self, e):
        r = self.cache.get(e)
        if r is None:
            r = self._num(e)
            self.cache[e] = r
        return r

    def _num(self, e):
        if e.is_Integer:
            return z3.IntVal(int(e))
        if e.is_Rational:
            return z3.RealVal(Fraction(int(e.p), int(e.q)))
        if e is sp.pi:
            v = self.syms.get("pi")
            if v is None:
                v = z3.Real("pi")
                self.syms["pi"] = v
                self.side.append(v > self.num(PI_LO))
                self.side.append(v < self.num(PI_HI))
            return v
        if e.is_Symbol:
            return self.sym(e)
        if e.is_Float:
            from .sym import rationalize
            return self.num(rationalize(float(e)))
        if e.is_Add:
            args = [self.num(a) for a in e.args]
            if any(z3.is_real(a) for a in args):
                args = [self._real(a) for a in args]
            out = args[0]
            for a in args[1:]:
                out = out + a
            return out
        if e.is_Mul:
            args = [self.num(a) for a in e.args]
            if any(z3.is_real(a) for a in args):
                args = [self._real(a) for a in args]
            out = args[0]
            for a in args[1:]:
                out = out * a
            return out
        if e.is_Pow:
            return self._pow(e.base, e.exp)
        if isinstance(e, sp.Abs):
            x = self.num(e.args[0])
            return z3.If(x >= 0, x, -x)
        if isinstance(e, sp.sign):
            x = self.num(e.args[0])
            return z3.If(x > 0, z3.IntVal(1), z3.If(x < 0, z3.IntVal(-1), z3.IntVal(0)))
        if isinstance(e, (sp.Max, sp.Min)):
            args = [self._real(self.num(a)) for a in e.args]
            out = args[0]
            for a in args[1:]:
                out = z3.If(a > out, a, out) if isinstance(e, sp.Max) else z3.If(a < out, a, out)
            return out
        if isinstance(e, sp.Piecewise):
            pieces = list(e.args)
            out = None
            for val, cond in reversed(pieces):
                v = self.num(val)
                if out is None:
                    out = v
                else:
                    c = self.boolean(cond)
                    if z3.is_real(out) != z3.is_real(v):
                        out, v = self._real(out), self._real(v)
                    out = z3.If(c, v, out)
            return out
        if isinstance(e, sp.floor):
            x = self.num(e.args[0])
            return x if z3.is_int(x) else z3.ToInt(x)
        if isinstance(e, sp.Mod):
            a, b = self.num(e.args[0]), self.num(e.args[1])
            if z3.is_int(a) and z3.is_int(b):
                return a % b
            a, b = self._real(a), self._real(b)
            q = self._fresh("modq", "int")
            r = self._fresh("modr")
            self.side += [a == z3.ToReal(q) * b + r, z3.If(b > 0, z3.And(r >= 0, r < b), z3.And(r <= 0, r > b))]
            return r
        if isinstance(e, AppliedUndef) and e.func in _sym_mod.LETS:
            idx, body = _sym_mod.LETS[e.func]
            return self.num(body.xreplace(dict(zip(idx, e.args))) if idx else body)
        if isinstance(e, AppliedUndef):
            name = e.func.__name__
            args = [self.num(a) for a in e.args]
            sorts = ["int" if z3.is_int(a) else "real" for a in args]
            rng = "int" if e.is_integer else "real"
            return self.func(name, sorts, rng)(*args)
        for cls, name in _TRIG.items():
            if isinstance(e, cls):
                args = [self._real(self.num(a)) for a in e.args]
                f = self.func(name, ["real"] * len(args))
                self.apps.setdefault(name, []).append(tuple(args))
                return f(*args)
        if isinstance(e, sp.Sum):
            # opaque: one real constant per distinct sum (callers normalise sums first)
            key = sp.srepr(e)
            v = self.roots.get(key)
            if v is None:
                v = self._fresh("Sum")
                self.roots[key] = v
            return v
        raise Unsupported(f"no z3 translation for {type(e).__name__}: {e}")

    def _pow(self, base, ex):
        if ex.is_Integer:
            n = int(ex)
            b = self.num(base)
            if n == 0:
                return z3.IntVal(1)
            out = b
            for _ in range(abs(n) - 1):
                out = out * b
            if n < 0:
                out = 1 / self._real(out)
            return out
        if ex.is_Rational:
            p, q = int(ex.p), int(ex.q)
            key = (base, q)
            r = self.roots.get(key)
            if r is None:
                b = self._real(self.num(base))
                r = self._fresh("root")
                rq = r
                for _ in range(q - 1):
                    rq = rq * r
                if q % 2 == 0:
                    # total encoding: for a negative radicand nothing is known about r (numpy: NaN);
                    # definedness is a separate obligation (paths.demand), never an assumption
                    self.side.append(z3.Implies(b >= 0, rq == b))
                    self.side.append(r >= 0)
                else:
                    self.side.append(rq == b)
                    self.side.append(z3.Implies(b >= 0, r >= 0))
                    self.side.append(z3.Implies(b <= 0, r <= 0))
                self.roots[key] = r
            out = r
            for _ in range(abs(p) - 1):
                out = out * r
            if p < 0:
                out = 1 / out
            return out
        raise Unsupported(f"symbolic exponent {ex}")

    # ------------------------------------------------------------------ boolean
    def boolean(self, e):
        if e is sp.true or e is True:
            return z3.BoolVal(True)
        if e is sp.false or e is False:
            return z3.BoolVal(False)
        if isinstance(e, sp.And):
            return z3.And(*[self.boolean(a) for a in e.args])
        if isinstance(e, sp.Or):
            return z3.Or(*[self.boolean(a) for a in e.args])
        if isinstance(e, sp.Not):
            return z3.Not(self.boolean(e.args[0]))
        if isinstance(e, sp.Implies):
            return z3.Implies(self.boolean(e.args[0]), self.boolean(e.args[1]))
        if isinstance(e, sp.Equivalent):
            a = [self.boolean(x) for x in e.args]
            return z3.And(*[a[0] == x for x in a[1:]])
        if isinstance(e, sp.Xor):
            a = [self.boolean(x) for x in e.args]
            out = a[0]
            for x in a[1:]:
                out = z3.Xor(out, x)
            return out
        if isinstance(e, sp.ITE):
            c, a, b = (self.boolean(x) for x in e.args)
            return z3.If(c, a, b)
        if isinstance(e, sp.core.relational.Relational):
            a, b = self.num(e.lhs), self.num(e.rhs)
            if z3.is_real(a) != z3.is_real(b):
                a, b = self._real(a), self._real(b)
            if isinstance(e, sp.Eq):
                return a == b
            if isinstance(e, sp.Ne):
                return a != b
            if isinstance(e, sp.Lt):
                return a < b
            if isinstance(e, sp.Le):
                return a <= b
            if isinstance(e, sp.Gt):
                return a > b
            if isinstance(e, sp.Ge):
                return a >= b
        if isinstance(e, sp.Symbol):
            v = self.syms.get(e)
            if v is None:
                v = z3.Bool(e.name)
                self.syms[e] = v
            return v
        if isinstance(e, AppliedUndef):  # boolean-valued uninterpreted predicate
            name = e.func.__name__
            args = [self.num(a) for a in e.args]
            key = ("pred", name, len(args))
            f = self.funcs.get(key)
            if f is None:
                ss = [z3.IntSort() if z3.is_int(a) else z3.RealSort() for a in args] + [z3.BoolSort()]
                f = z3.Function(name, *ss)
                self.funcs[key] = f
            return f(*args)
        raise Unsupported(f"no z3 translation for boolean {type(e).__name__}: {e}")

    def trig_axioms(self):
        ax = []
        sin = self.funcs.get(("sin", ("real",), "real"))
        cos = self.funcs.get(("cos", ("real",), "real"))
        seen = set()
        for name in ("sin", "cos"):
            for (a,) in self.apps.get(name, []):
                k = a.sexpr()
                if k in seen:
                    continue
                seen.add(k)
                s = self.func("sin", ["real"])(a)
                c = self.func("cos", ["real"])(a)
                ax.append(s * s + c * c == 1)
        return ax


class Result:
    def __init__(self, status, model=None, time_s=0.0, backend="z3", detail=""):
        self.status = status      # 'unsat' | 'sat' | 'unknown'
        self.model = model or {}
        self.time_s = time_s
        self.backend = backend
        self.detail = detail


def _model_dict(conv, m):
    out = {}
    for s, v in conv.syms.items():
        try:
            val = m.eval(v, model_completion=True)
            name = s if isinstance(s, str) else s.name
            if z3.is_int_value(val):
                out[name] = int(val.as_long())
            elif z3.is_rational_value(val):
                out[name] = Fraction(val.numerator_as_long(), val.denominator_as_long())
            elif z3.is_algebraic_value(val):
                ap = val.approx(20)
                out[name] = Fraction(ap.numerator_as_long(), ap.denominator_as_long())
            elif z3.is_true(val) or z3.is_false(val):
                out[name] = bool(z3.is_true(val))
            else:
                out[name] = str(val)
        except Exception:  # noqa: BLE001
            pass
    return out


def check(constraints, timeout_ms=20000, use_cvc5=True, extra_z3=()):
    """Satisfiability of a list of sympy booleans."""
    conv = Conv()
    t0 = time.time()
    try:
        zs = [conv.boolean(sp.sympify(c)) for c in constraints]
    except Unsupported as e:
        return Result("unknown", detail=f"unsupported: {e}")
    s = z3.Solver()
    s.set("timeout", int(timeout_ms))
    for z in zs:
        s.add(z)
    for z in conv.side:
        s.add(z)
    for z in conv.trig_axioms():
        s.add(z)
    for z in extra_z3:
        s.add(z)
    r = s.check()
    dt = time.time() - t0
    if r == z3.unsat:
        return Result("unsat", time_s=dt)
    if r == z3.sat:
        return Result("sat", _model_dict(conv, s.model()), dt)
    # second opinion
    if use_cvc5:
        r2 = _cvc5(s.to_smt2(), timeout_ms)
        if r2 in ("unsat",):
            return Result("unsat", time_s=time.time() - t0, backend="cvc5")
    return Result("unknown", time_s=time.time() - t0, detail=s.reason_unknown())


def _cvc5(smt2, timeout_ms):
    try:
        with tempfile.NamedTemporaryFile("w", suffix=".smt2", delete=True) as f:
            f.write("(set-logic ALL)\n" + smt2)
            f.flush()
            p = subprocess.run(["/usr/bin/cvc5", "--nl-cov", f"--tlimit={int(timeout_ms)}", f.name],
                               capture_output=True, text=True, timeout=timeout_ms / 1000 + 5)
        out = p.stdout.strip().splitlines()
        return out[0].strip() if out else "unknown"
    except Exception:  # noqa: BLE001
        return "unknown"


def satisfiable(constraints, timeout_ms=3000):
    r = check(constraints, timeout_ms=timeout_ms, use_cvc5=False)
    if r.status == "sat":
        return True
    if r.status == "unsat":
        return False
    return None


def prove(assumptions, goal, timeout_ms=20000):
    """Validity of  /\\ assumptions -> goal.  Result.status: 'unsat' = proved,
    'sat' = refuted (model attached), 'unknown'."""
    return check(list(assumptions) + [sp.Not(sp.sympify(goal))], timeout_ms=timeout_ms)
