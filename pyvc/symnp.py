"""The numpy model: what `np` means inside a verified module.

For arrays of concrete shape the model *is* numpy (object arrays of Sym elements run through
numpy's own broadcasting / indexing / einsum / view semantics).  Only functions that numpy
does not provide for object dtype (linalg, isclose, sign, trig ...) and everything touching a
symbolic axis (SymArr) are defined here.  The differential cross-check (pyvc.crosscheck) runs
the same functions with concrete rationals against the real numpy.
"""
from __future__ import annotations

import math

import numpy as _np
import sympy as sp

from . import paths
from .sym import Sym, SymBool, to_expr, wrap, is_scalar_like, rationalize
from .symarr import (SymArr, Dim, DimSym, SymSeq, _obj, _map, to_bool, _fold, gather,
                     define, sum_over, record_write)

EXTERNAL_STUBS = {}     # name -> callable (assumed contracts for lstsq, eigh, unique ...), set per check


def _is_sym_arr(x):
    return isinstance(x, SymArr)


def _lift(x):
    if isinstance(x, SymArr):
        return x
    if isinstance(x, SymSeq):
        if x.arr is not None:
            return x.arr
        e = x.elem
        if isinstance(e, SymArr):
            return SymArr((x.dim,) + e.axes, e.inner, x.guard)
        arr = _obj(e)
        return SymArr((x.dim,) + arr.shape, arr, x.guard)
    return _obj(x)


def _ew(f, *xs):
    """apply scalar function element-wise to (Sym | ndarray | SymArr | nested list)"""
    if all(is_scalar_like(x) for x in xs):
        return f(*xs)
    xs = [_lift(x) for x in xs]
    return SymArr.elementwise(f, *xs)


def _sfun(spf):
    def g(x):
        if isinstance(x, (int, float)) and not isinstance(x, bool):
            return wrap(spf(to_expr(x)))
        return wrap(spf(to_expr(x)))
    return g


_CSQRT_MEMO: dict = {}


def _csqrt(e):
    """sqrt with the radicand in canonical (expanded, common factors pulled out) form (memoised: re-executed paths
    ask for the same radicands again and again)"""
    if e.is_number:
        return sp.sqrt(e)
    key = (e, id(IDEAL["G"]))
    r = _CSQRT_MEMO.get(key)
    if r is None:
        r = _CSQRT_MEMO[key] = _csqrt_compute(e)
    return r


def _csqrt_compute(e):
    if IDEAL["G"] is not None:
        e = reduce_mod_ideal(e)
        if e.is_number:
            return sp.sqrt(e)
    if any(a.is_Pow and a.exp.is_negative for a in sp.preorder_traversal(e)):
        e = sp.cancel(sp.together(e))          # rational radicand: one reduced fraction
        if e.is_number:
            return sp.sqrt(e)
        num, den = sp.fraction(e)
        return sp.sqrt(sp.factor_terms(sp.expand(num)) / sp.factor_terms(sp.expand(den)))
    return sp.sqrt(sp.factor_terms(sp.expand(e)))


def _sign(e):
    # sympy's evaluation of sign()/Abs() queries assumptions recursively, which is very slow on large terms
    if e.is_Atom or e.is_number or len(str(e)) < 200:
        return sp.sign(e)
    return sp.sign(e, evaluate=False)


IDEAL = {"G": None, "syms": ()}     # Groebner basis of polynomial relations among state symbols (set by contracts)


def _reduce_poly(e):
    G, syms = IDEAL["G"], IDEAL["syms"]
    groups = {}
    for term in sp.Add.make_args(sp.expand(e)):
        indep, dep = term.as_independent(*syms, as_Add=False)
        groups[indep] = groups.get(indep, 0) + dep
    out = sp.Integer(0)
    for indep, dep in groups.items():
        if not dep.is_polynomial(*syms):
            out += indep * dep
            continue
        r = G.reduce(dep)[1]
        if r != 0:
            out += r * indep
    return out


def reduce_mod_ideal(e):
    """normal form modulo the state's polynomial relations (e.g. those defining SO(3)): one fraction,
    numerator and denominator expanded, grouped by the part free of the ideal's symbols, every coefficient
    polynomial reduced modulo the Groebner basis, common factors cancelled"""
    G, syms = IDEAL["G"], IDEAL["syms"]
    if G is None or not (e.free_symbols & set(syms)):
        return e
    from .oblig import sums_to_symbols, _SUM_SYMS
    e1 = sums_to_symbols(e)
    num, den = sp.fraction(sp.together(e1))
    num, den = _reduce_poly(num), _reduce_poly(den)
    if den == 0:
        return e
    if den.is_number:
        out = num / den
    else:
        out = sp.cancel(num / den)
    back = {v: k for k, v in _SUM_SYMS.items()}
    return out.xreplace(back) if out.free_symbols & set(back) else out


def _simp(v):
    """algebraic normalisation of a contraction result modulo the state's polynomial relations"""
    if not isinstance(v, Sym) or IDEAL["G"] is None:
        return v
    return wrap(reduce_mod_ideal(v.e))


def _seq_has_symseq(x):
    return isinstance(x, SymSeq) or (isinstance(x, (list, tuple)) and any(_seq_has_symseq(i) for i in x))


class _Linalg:
    def norm(self, x, axis=None, **_k):
        x = _lift(x)
        sq = x * x
        if isinstance(sq, SymArr):
            s = sq.sum(axis=axis)
        else:
            s = sq.sum(axis=axis)
        return np.sqrt(s)

    def det(self, x):
        x = _lift(x)
        if isinstance(x, SymArr):
            n = x.axes[-1]
            if x.axes[-2] != n or n not in (2, 3):
                raise paths.OutOfReach("det of non 2x2/3x3")
            rows = x.inner
            out_axes = x.axes[:-2]
            cshape = rows.shape[:-2]
            out = _np.empty(cshape, dtype=object)
            for idx in (_np.ndindex(cshape) if cshape else [()]):
                out[idx] = _det(rows[idx])
            return SymArr(out_axes, out, x.guard)
        if x.ndim == 2:
            return _det(x)
        out = _np.empty(x.shape[:-2], dtype=object)
        for idx in _np.ndindex(out.shape):
            out[idx] = _det(x[idx])
        return out

    def inv(self, x):
        m = sp.Matrix(_map(to_expr, _obj(x)).tolist())
        return _map(wrap, _np.array(m.inv().tolist(), dtype=object))

    def lstsq(self, a, b, rcond=None):
        return EXTERNAL_STUBS["lstsq"](a, b, rcond)

    def eigh(self, a):
        return EXTERNAL_STUBS["eigh"](a)

    def solve(self, a, b):
        return EXTERNAL_STUBS["solve"](a, b)

    LinAlgError = _np.linalg.LinAlgError


class _Random:
    """numpy.random: every draw is an external with an assumed contract (a fresh unconstrained value in the stated range)"""

    def uniform(self, low=0.0, high=1.0, size=None):
        return EXTERNAL_STUBS["random.uniform"](low, high, size)


def _det(m):
    m = _obj(m)
    if m.shape == (2, 2):
        return m[0, 0] * m[1, 1] - m[0, 1] * m[1, 0]
    if m.shape == (3, 3):
        return (m[0, 0] * (m[1, 1] * m[2, 2] - m[1, 2] * m[2, 1])
                - m[0, 1] * (m[1, 0] * m[2, 2] - m[1, 2] * m[2, 0])
                + m[0, 2] * (m[1, 0] * m[2, 1] - m[1, 1] * m[2, 0]))
    raise paths.OutOfReach("det of non 2x2/3x3")


def _axes_from_shape(shape):
    if not isinstance(shape, (tuple, list)):
        shape = (shape,)
    axes = []
    for s in shape:
        if isinstance(s, DimSym):
            axes.append(s.dim)
        elif isinstance(s, Dim):
            axes.append(s)
        elif isinstance(s, Sym):
            raise paths.OutOfReach(f"array extent {s} is symbolic but not a known axis")
        else:
            axes.append(int(s))
    return tuple(axes)


def _full(shape, value):
    axes = _axes_from_shape(shape)
    cshape = tuple(a for a in axes if not isinstance(a, Dim))
    inner = _np.empty(cshape, dtype=object)
    inner[...] = value
    if any(isinstance(a, Dim) for a in axes):
        return SymArr(axes, inner)
    return inner


class _Undefined:
    """content of np.empty: reading it is a defect of the verified code"""

    def __repr__(self):
        return "<uninitialised>"


class _NP:
    # constants -----------------------------------------------------------------
    pi = Sym(sp.pi)
    inf = math.inf
    nan = math.nan
    newaxis = None
    float64 = float
    complex128 = complex
    ndarray = (_np.ndarray, SymArr)
    linalg = _Linalg()
    random = _Random()
    integer = _np.integer
    floating = _np.floating
    number = _np.number
    bool_ = _np.bool_

    def __getattr__(self, name):
        raise paths.OutOfReach(f"numpy.{name} is not modelled")

    # constructors --------------------------------------------------------------
    def array(self, x, dtype=None, **_k):
        if isinstance(x, list) and getattr(x, "sym", None) is not None:
            x = x.sym                 # a list filled by one append per iteration of a generic loop
        if isinstance(x, SymArr):
            return x.copy()
        if isinstance(x, SymSeq):
            return _lift(x).copy()
        if isinstance(x, (list, tuple)) and any(isinstance(i, (SymArr, SymSeq)) for i in x):
            return self.stack([_lift(i) for i in x])
        a = _obj(x)
        return a.copy() if a is x else a

    def asarray(self, x, dtype=None, **_k):
        if isinstance(x, list) and getattr(x, "sym", None) is not None:
            x = x.sym
        if isinstance(x, (SymArr,)):
            return x
        if isinstance(x, _np.ndarray) and x.dtype == object:
            return x
        return self.array(x)

    def zeros(self, shape, dtype=None):
        if dtype in (bool, _np.bool_):
            return _full(shape, False)
        return _full(shape, 0)

    def ones(self, shape, dtype=None):
        return _full(shape, 1)

    def empty(self, shape, dtype=None):
        return _full(shape, 0)   # numpy leaves garbage; every use in coxeter overwrites before reading

    def full_like(self, x, v):
        return _full(_lift(x).shape, v)

    def zeros_like(self, x, **_k):
        return _full(_lift(x).shape, 0)

    def ones_like(self, x, **_k):
        return _full(_lift(x).shape, 1)

    def empty_like(self, x, **_k):
        return _full(_lift(x).shape, 0)

    def eye(self, n):
        return _obj(_np.eye(n, dtype=int))

    def diag(self, v):
        v = _obj(v)
        if v.ndim == 1:
            out = _full((len(v), len(v)), 0)
            for i in range(len(v)):
                out[i, i] = v[i]
            return out
        return _obj([v[i, i] for i in range(min(v.shape))])

    def atleast_2d(self, x):
        x = _lift(x)
        if isinstance(x, SymArr):
            if x.ndim >= 2:
                return x
            return SymArr((1,) + x.axes, x.inner.reshape((1,) + x.inner.shape), x.guard)
        if x.ndim >= 2:
            return x
        return x.reshape((1,) * (2 - x.ndim) + x.shape)

    def copy(self, x):
        return _lift(x).copy()

    # element-wise ----------------------------------------------------------------
    def sqrt(self, x):
        return _ew(_sfun(_csqrt), x)

    def cbrt(self, x):
        return _ew(_sfun(sp.cbrt), x)

    def square(self, x, dtype=None, **_k):
        return _ew(lambda v: v * v, x)

    def radians(self, x):
        return _ew(lambda v: v * Sym(sp.pi) / 180, x)

    deg2rad = radians

    def degrees(self, x):
        return _ew(lambda v: v * 180 / Sym(sp.pi), x)

    rad2deg = degrees

    def abs(self, x):
        return _ew(lambda v: abs(v) if not isinstance(v, bool) else int(v), x)

    absolute = abs

    def sign(self, x):
        return _ew(_sfun(_sign), x)

    def sin(self, x):
        return _ew(_sfun(sp.sin), x)

    def cos(self, x):
        return _ew(_sfun(sp.cos), x)

    def tan(self, x):
        return _ew(_sfun(sp.tan), x)

    def arccos(self, x):
        return _ew(_sfun(sp.acos), x)

    def arcsin(self, x):
        return _ew(_sfun(sp.asin), x)

    def arctan2(self, y, x):
        return _ew(lambda a, b: wrap(sp.atan2(to_expr(a), to_expr(b))), y, x)

    def exp(self, x):
        return _ew(_sfun(sp.exp), x)

    def sinc(self, x):
        # numpy's normalised sinc: sin(pi x)/(pi x)
        return _ew(lambda v: wrap(sp.sinc(sp.pi * to_expr(v))), x)

    def mod(self, a, b, out=None):
        r = _ew(lambda u, v: wrap(sp.Mod(to_expr(u), to_expr(v))), a, b)
        if out is not None:
            record_write(out)
            if isinstance(out, SymArr):
                out.inner[...] = r.inner
            else:
                out[...] = r
            return out
        return r

    def multiply(self, a, b):
        return _ew(lambda u, v: u * v, a, b)

    def isclose(self, a, b, rtol=1e-5, atol=1e-8, **_k):
        rt, at = to_expr(rtol), to_expr(atol)

        def f(u, v):
            u, v = to_expr(u), to_expr(v)
            return wrap(sp.Le(sp.Abs(u - v), at + rt * sp.Abs(v)))
        return _ew(f, a, b)

    def allclose(self, a, b, rtol=1e-5, atol=1e-8, **_k):
        return self.all(self.isclose(a, b, rtol=rtol, atol=atol))

    def logical_and(self, a, b):
        return _ew(lambda u, v: wrap(sp.And(to_bool(u), to_bool(v))), a, b)

    def logical_or(self, a, b):
        return _ew(lambda u, v: wrap(sp.Or(to_bool(u), to_bool(v))), a, b)

    def logical_not(self, a):
        return _ew(lambda u: wrap(sp.Not(to_bool(u))), a)

    def where(self, c, a=None, b=None):
        if a is None:
            raise paths.OutOfReach("np.where with one argument")
        def ite(cc, u, v):
            u, v, cc = to_expr(u), to_expr(v), to_bool(cc)
            if cc is sp.true:
                return wrap(u)
            if cc is sp.false:
                return wrap(v)
            from .sym import select
            return wrap(select([(u, cc), (v, True)]))
        return _ew(ite, c, a, b)

    def isscalar(self, x):
        return is_scalar_like(x)

    # reductions ------------------------------------------------------------------
    def sum(self, x, axis=None, **_k):
        x = _lift(x)
        if isinstance(x, SymArr):
            return x.sum(axis=axis)
        return x.sum(axis=axis)

    def mean(self, x, axis=None):
        x = _lift(x)
        if isinstance(x, SymArr):
            return x.mean(axis=axis)
        n = x.size if axis is None else x.shape[axis]
        return x.sum(axis=axis) / n

    def max(self, x, axis=None):
        x = _lift(x)
        if isinstance(x, SymArr):
            return x.max(axis=axis)
        from .symarr import _con_max
        return _con_max(x, axis)

    amax = max

    def min(self, x=None, axis=None, a=None):
        x = _lift(x if x is not None else a)
        if isinstance(x, SymArr):
            return x.min(axis=axis)
        from .symarr import _con_min
        return _con_min(x, axis)

    amin = min

    def moveaxis(self, x, source, destination):
        x = _lift(x)
        if not isinstance(x, SymArr):
            return _np.moveaxis(x, source, destination)
        nd = x.ndim
        src, dst = source % nd, destination % nd
        order = [i for i in range(nd) if i != src]
        order.insert(dst, src)
        return x.transpose(*order)

    def clip(self, x, lo, hi, out=None):
        if out is not None:
            raise paths.OutOfReach("np.clip with out=")

        def f(v, a, b):
            e = to_expr(v)
            if a is not None:
                e = sp.Max(e, to_expr(a))
            if b is not None:
                e = sp.Min(e, to_expr(b))
            return wrap(e)
        return _ew(lambda v: f(v, lo, hi), x)

    def ptp(self, x, axis=None):
        return self.max(x, axis=axis) - self.min(x, axis=axis)

    def all(self, x, axis=None):
        x = _lift(x)
        if isinstance(x, SymArr):
            return x.all(axis=axis)
        from .symarr import _con_all
        r = _con_all(x, axis)
        return r

    def any(self, x, axis=None):
        x = _lift(x)
        if isinstance(x, SymArr):
            return x.any(axis=axis)
        from .symarr import _con_any
        return _con_any(x, axis)

    def argmax(self, x, axis=None):
        x = _obj(x)
        if x.ndim != 1 or axis not in (None, 0, -1):
            raise paths.OutOfReach("argmax of non 1-d array")
        best = 0
        for i in range(1, len(x)):
            if x[i] > x[best]:      # numpy returns the first maximal index
                best = i
        return best

    def argmin(self, x, axis=None):
        x = _obj(x)
        if x.ndim != 1 or axis not in (None, 0, -1):
            raise paths.OutOfReach("argmin of non 1-d array")
        best = 0
        for i in range(1, len(x)):
            if x[i] < x[best]:
                best = i
        return best

    # products ------------------------------------------------------------------------
    def dot(self, a, b):
        r = self._dot(a, b)
        if isinstance(r, SymArr):
            return SymArr(r.axes, _map(_simp, r.inner), r.guard)
        return r

    def _dot(self, a, b):
        a, b = _lift(a), _lift(b)
        if not isinstance(a, SymArr) and not isinstance(b, SymArr):
            return _scalarize(_np.dot(a, b))
        a, b = SymArr.lift(a), SymArr.lift(b)
        if b.ndim == 1:
            return (a * b).sum(axis=-1)
        if a.ndim == 1:
            return (a[:, None] * b).sum(axis=0) if b.ndim == 2 else _oor("dot")
        if b.ndim == 2:
            # (..., n) . (n, m): contract last of a with first of b
            if isinstance(a.axes[-1], Dim) or isinstance(b.axes[0], Dim):
                if a.axes[-1] is not b.axes[0]:
                    raise paths.OutOfReach("dot over mismatching symbolic axes")
            # a[..., n, None] * b[n, m]  -> sum over axis -2
            prod = a[..., None] * b
            return prod.sum(axis=-2)
        raise paths.OutOfReach("dot of arrays with ndim > 2")

    def inner(self, a, b):
        a, b = SymArr.lift(_lift(a)), SymArr.lift(_lift(b))
        if not a.dims and not b.dims:
            return _scalarize(_np.inner(a.inner, b.inner))
        if b.ndim == 1:
            return (a * b).sum(axis=-1)
        if a.ndim == 1:
            return (b * a).sum(axis=-1)
        # inner(a[..., n], b[..., n]) -> shape a.shape[:-1] + b.shape[:-1]
        ia = (Ellipsis,) + (None,) * (b.ndim - 1) + (slice(None),)
        prod = a[ia] * b
        return prod.sum(axis=-1)

    def matmul(self, a, b):
        return self.dot(a, b)

    def cross(self, a, b, axis=-1, **_k):
        a, b = _lift(a), _lift(b)
        if not isinstance(a, SymArr) and not isinstance(b, SymArr):
            return _np.cross(a, b, axis=axis)
        a, b = SymArr.lift(a), SymArr.lift(b)
        if axis not in (-1, a.ndim - 1):
            raise paths.OutOfReach("cross along a non-final axis")
        a0, a1, a2 = a[..., 0], a[..., 1], a[..., 2]
        b0, b1, b2 = b[..., 0], b[..., 1], b[..., 2]
        return self.stack([a1 * b2 - a2 * b1, a2 * b0 - a0 * b2, a0 * b1 - a1 * b0], axis=-1)

    def einsum(self, subs, *ops, **_k):
        subs = subs.replace(" ", "")
        ins, out = subs.split("->") if "->" in subs else (subs, None)
        ins = ins.split(",")
        ops = [SymArr.lift(_lift(o)) for o in ops]
        if out is None:
            letters = "".join(ins)
            out = "".join(sorted(c for c in set(letters) if letters.count(c) == 1))
        # letters bound to symbolic axes
        sym_letters = {}
        for spec, op in zip(ins, ops):
            if len(spec) != op.ndim:
                raise ValueError("einsum subscript does not match operand")
            for c, a in zip(spec, op.axes):
                if isinstance(a, Dim):
                    if sym_letters.setdefault(c, a) is not a:
                        raise paths.OutOfReach("einsum letter bound to two symbolic axes")
        for spec, op in zip(ins, ops):
            for c, a in zip(spec, op.axes):
                if c in sym_letters and not isinstance(a, Dim):
                    raise paths.OutOfReach("einsum letter bound to symbolic and concrete axes")
        inner_specs = ["".join(c for c in spec if c not in sym_letters) for spec in ins]
        inner_out = "".join(c for c in out if c not in sym_letters)
        res = _np.einsum(",".join(inner_specs) + "->" + inner_out, *[o.inner for o in ops])
        res = _obj(res)
        # contracted symbolic letters -> Sum
        for c, d in sym_letters.items():
            if c not in out:
                res = _map(lambda v, d=d: wrap(sum_over(d, to_expr(v))), res)
        out_axes = []
        it = iter(res.shape)
        for c in out:
            out_axes.append(sym_letters[c] if c in sym_letters else next(it))
        if any(isinstance(a, Dim) for a in out_axes):
            return SymArr(out_axes, res)
        return res[()] if res.ndim == 0 else res

    # shape manipulation ----------------------------------------------------------------
    def roll(self, x, shift, axis=None):
        x = _lift(x)
        if isinstance(x, SymArr):
            if axis is None:
                raise paths.OutOfReach("roll of flattened symbolic array")
            axis = x._norm_axis(axis)
            a = x.axes[axis]
            if isinstance(a, Dim):
                # result[k] = x[(k - shift) mod n]
                from .symarr import subs_arr
                new = sp.Mod(a.k - shift, a.n)
                return SymArr(x.axes, subs_arr(x.inner, a.k, new), x.guard)
            return SymArr(x.axes, _np.roll(x.inner, shift, axis=x._caxis(axis)), x.guard)
        return _np.roll(x, shift, axis=axis)

    def stack(self, xs, axis=0):
        xs = [_lift(x) for x in xs]
        if not any(isinstance(x, SymArr) for x in xs):
            return _np.stack(xs, axis=axis)
        xs = [SymArr.lift(x) for x in xs]
        axes = xs[0].axes
        if any(x.axes != axes for x in xs):
            axes, padded = SymArr._broadcast_axes([x.axes for x in xs])
            xs = [SymArr.elementwise(lambda a, b: a, x, SymArr(axes, _np.zeros(tuple(a for a in axes if not isinstance(a, Dim)), dtype=object))) for x in xs]
        nd = len(axes) + 1
        if axis < 0:
            axis += nd
        new_axes = axes[:axis] + (len(xs),) + axes[axis:]
        cax = sum(1 for a in axes[:axis] if not isinstance(a, Dim))
        inner = _np.stack([x.inner for x in xs], axis=cax)
        g = xs[0].guard
        return SymArr(new_axes, inner, g)

    def hstack(self, xs):
        xs = [_lift(x) for x in xs]
        if not any(isinstance(x, SymArr) for x in xs):
            return _np.hstack(xs)
        return self.concatenate(xs, axis=1 if SymArr.lift(xs[0]).ndim > 1 else 0)

    def vstack(self, xs):
        xs = [self.atleast_2d(x) for x in xs]
        return self.concatenate(xs, axis=0)

    def concatenate(self, xs, axis=0):
        if any(isinstance(x, ConcatArr) for x in xs):
            raise paths.OutOfReach("nested concatenation along a symbolic axis")
        xs = [_lift(x) for x in xs]
        if not any(isinstance(x, SymArr) for x in xs):
            return _np.concatenate(xs, axis=axis)
        xs = [SymArr.lift(x) for x in xs]
        nd = xs[0].ndim
        if axis < 0:
            axis += nd
        if any(isinstance(x.axes[axis], Dim) for x in xs):
            if axis == 0:
                return ConcatArr(xs)
            raise paths.OutOfReach("concatenate along a symbolic non-leading axis")
        base_axes = None
        for x in xs:
            ax = x.axes[:axis] + x.axes[axis + 1:]
            if base_axes is None:
                base_axes = ax
            elif ax != base_axes:
                raise paths.OutOfReach("concatenate of arrays with different symbolic axes")
        cax = xs[0]._caxis(axis)
        inner = _np.concatenate([x.inner for x in xs], axis=cax)
        new_axes = xs[0].axes[:axis] + (inner.shape[cax],) + xs[0].axes[axis + 1:]
        return SymArr(new_axes, inner, xs[0].guard)

    def append(self, a, v):
        return self.concatenate([_obj(a).reshape(-1), _obj(v).reshape(-1)])

    def squeeze(self, x, axis=None):
        x = _lift(x)
        if isinstance(x, SymArr):
            return x.squeeze(axis)
        r = _np.squeeze(x, axis=axis)
        return r[()] if r.ndim == 0 else r

    def tile(self, x, reps):
        x = _lift(x)
        if isinstance(reps, tuple) and isinstance(x, SymArr) and reps[1:] == (1,) * x.ndim:
            r0 = reps[0]
            if isinstance(r0, DimSym):
                return SymArr((r0.dim,) + x.axes, x.inner, x.guard)
        if isinstance(x, SymArr) or any(isinstance(r, Sym) for r in (reps if isinstance(reps, tuple) else (reps,))):
            if isinstance(reps, tuple) and isinstance(reps[0], DimSym) and all(r == 1 for r in reps[1:]):
                x = SymArr.lift(x)
                return SymArr((reps[0].dim,) + x.axes, x.inner, x.guard)
            raise paths.OutOfReach("tile with symbolic repetitions")
        return _np.tile(x, reps)

    def unique(self, *a, **k):
        return EXTERNAL_STUBS["unique"](*a, **k)

    def lexsort(self, *a, **k):
        return EXTERNAL_STUBS["lexsort"](*a, **k)

    def argsort(self, *a, **k):
        return EXTERNAL_STUBS["argsort"](*a, **k)

    def linspace(self, *a, **k):
        return EXTERNAL_STUBS["linspace"](*a, **k)


class ConcatArr:
    """rows of several arrays stacked along a leading axis of which at least one part has symbolic extent.
    Only what coxeter does with such a value is modelled: dropping the trailing single-row parts again
    (x[:-1]) and handing it to an external routine (lstsq), whose assumed contract sees the parts."""

    def __init__(self, parts):
        self.parts = [SymArr.lift(p) for p in parts]

    @property
    def shape(self):
        n = 0
        for p in self.parts:
            a = p.axes[0]
            n = n + (a.size if isinstance(a, Dim) else a)
        return (n,) + tuple(self.parts[0].shape[1:])

    def __getitem__(self, idx):
        if isinstance(idx, slice) and idx.start is None and idx.step is None and isinstance(idx.stop, int) and idx.stop < 0:
            drop = -idx.stop
            parts = list(self.parts)
            while drop and parts and not isinstance(parts[-1].axes[0], Dim) and parts[-1].axes[0] <= drop:
                drop -= parts[-1].axes[0]
                parts.pop()
            if drop == 0 and len(parts) == 1:
                return parts[0]
            if drop == 0:
                return ConcatArr(parts)
        raise paths.OutOfReach(f"index {idx!r} into rows concatenated along a symbolic axis")


def _oor(what):
    raise paths.OutOfReach(what)


def _scalarize(r):
    if isinstance(r, _np.ndarray) and r.ndim == 0:
        return r[()]
    return r


np = _NP()
