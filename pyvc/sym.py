"""Symbolic scalars.

`Sym` wraps a sympy expression over the reals (complex where `1j` is used) and behaves like
a Python/numpy float under operator overloading, so that the *real* coxeter code can be
executed on it.  Everything is exact: no rounding is modelled (DESIGN.md section 3.1).

Floats met during execution (literals such as 1e-6, or quotients such as 4/3 that CPython
has already evaluated) are mapped to the rational with the smallest denominator <= 10**6
that rounds to the same double, else to the exact binary value.
"""
from __future__ import annotations

import math
import numbers
from fractions import Fraction

import numpy as np
import sympy as sp

from . import paths

_I = sp.I


def rationalize(f: float):
    if f != f:
        return sp.nan
    if f in (math.inf, -math.inf):
        return sp.oo if f > 0 else -sp.oo
    if f == int(f) and abs(f) < 2**53:
        return sp.Integer(int(f))
    fr = Fraction(f)
    for lim in (100, 10**4, 10**6, 10**9):
        cand = fr.limit_denominator(lim)
        if float(cand) == f:
            return sp.Rational(cand.numerator, cand.denominator)
    return sp.Rational(fr.numerator, fr.denominator)


# ---------------------------------------------------------------------------------------------- let-definitions
# sympy folds a Piecewise whose *condition* contains another Piecewise (ExprCondPair does it on construction), which is
# exponential for chains such as  where(a != 0, a, where(b != 0, b, c)) != other.  Sides of relations that contain a
# selection are therefore named: let_n(generic indices...) := expression.  The name is an applied function of the generic
# index symbols the expression depends on, so sums, shifts and substitutions of indices act on it correctly; the back
# ends expand the definition (z3back) and normal forms treat it as an atom.
LETS: dict = {}          # function class -> (index symbols, defining expression)
INDEX_SYMBOLS: set = set()   # generic index symbols k_D (registered by symarr.Dim)
_LET_MEMO: dict = {}


def let(expr):
    expr = sp.sympify(expr)
    r = _LET_MEMO.get(expr)
    if r is None:
        idx = tuple(sorted((x for x in expr.free_symbols if x in INDEX_SYMBOLS), key=str))
        f = sp.Function(f"let{len(LETS) + 1}", real=True, integer=bool(expr.is_integer) or None)
        LETS[f] = (idx, expr)
        r = _LET_MEMO[expr] = f(*idx) if idx else f(sp.Integer(0))
    return r


def expand_lets(e):
    """replace every let_n(...) by its definition (recursively); the result may be slow to build -- for back ends only"""
    from sympy.core.function import AppliedUndef
    e = sp.sympify(e)
    apps = [a for a in e.atoms(AppliedUndef) if a.func in LETS]
    if not apps:
        return e
    rep = {}
    for a in apps:
        idx, body = LETS[a.func]
        rep[a] = expand_lets(body.xreplace(dict(zip(idx, a.args))) if idx else body)
    return e.xreplace(rep)


def subst_lets(e, rep, post=None):
    """e with the substitution `rep` applied through the let-definitions (new names for the substituted definitions), without
    ever building the nested selection; `post` is applied to every substituted piece (e.g. to expand polynomial arguments)"""
    from sympy.core.function import AppliedUndef
    e = sp.sympify(e)
    apps = [a for a in e.atoms(AppliedUndef) if a.func in LETS]
    inner = {}
    for a in apps:
        idx, body = LETS[a.func]
        b = body.xreplace(dict(zip(idx, a.args))) if idx else body
        inner[a] = let(subst_lets(b, rep, post))
    out = e.xreplace(inner).xreplace(rep)
    return post(out) if post else out


def deep_atoms(e, seen=None):
    """free symbols and applied undefined functions of e, looking through let-definitions"""
    from sympy.core.function import AppliedUndef
    e = sp.sympify(e)
    out = set(e.free_symbols)
    for a in e.atoms(AppliedUndef):
        if a.func in LETS:
            idx, body = LETS[a.func]
            out |= deep_atoms(body.xreplace(dict(zip(idx, a.args))) if idx else body)
            out -= set()  # arguments are substituted already
        else:
            out.add(a)
    return out


def name_selections(cond):
    """a condition whose relations have sides containing a Piecewise: those sides are replaced by let-names"""
    if not getattr(cond, "has", None) or not cond.has(sp.Piecewise):
        return cond
    rep = {}
    for rel in cond.atoms(sp.core.relational.Relational):
        if rel.has(sp.Piecewise):
            lhs = let(rel.lhs) if rel.lhs.has(sp.Piecewise) else rel.lhs
            rhs = let(rel.rhs) if rel.rhs.has(sp.Piecewise) else rel.rhs
            rep[rel] = rel.func(lhs, rhs)
    return cond.xreplace(rep)


def select(pairs):
    """Piecewise((value, condition), ...) with selections inside the conditions named first"""
    return sp.Piecewise(*[(v, c if c is True or c is sp.true else name_selections(c)) for v, c in pairs])


def to_expr(x):
    """Python / numpy / Sym value -> sympy expression."""
    if isinstance(x, Sym):
        return x.e
    if isinstance(x, SymBool):
        return select([(sp.Integer(1), x.e), (sp.Integer(0), True)])
    if isinstance(x, (bool, np.bool_)):
        return sp.Integer(int(x))
    if isinstance(x, (int, np.integer)):
        return sp.Integer(int(x))
    if isinstance(x, (float, np.floating)):
        return rationalize(float(x))
    if isinstance(x, (complex, np.complexfloating)):
        return rationalize(x.real) + _I * rationalize(x.imag)
    if isinstance(x, sp.Basic):
        return x
    if isinstance(x, np.ndarray) and x.shape == ():
        return to_expr(x.item())
    raise TypeError(f"cannot make a symbolic scalar from {type(x).__name__}")


def is_scalar_like(x):
    return isinstance(x, (Sym, SymBool, numbers.Number, np.number, np.bool_, sp.Basic))


def wrap(e):
    """sympy expression -> Python number if it is a literal rational/integer, else Sym."""
    if isinstance(e, (Sym, SymBool)):
        return e
    e = sp.sympify(e)
    if e.is_Integer:
        return int(e)
    if isinstance(e, sp.Rational) and not e.is_Integer:
        return Sym(e)
    if e is sp.true:
        return True
    if e is sp.false:
        return False
    if isinstance(e, (sp.logic.boolalg.BooleanFunction, sp.logic.boolalg.BooleanAtom,
                      sp.core.relational.Relational)) or type(e).__name__ == "_BoolSym":
        return SymBool(e)
    return Sym(e)


def _rel(op, a, b):
    a, b = to_expr(a), to_expr(b)
    if a is sp.nan or b is sp.nan:
        return op is sp.Ne
    try:
        r = op(a, b)
    except TypeError:
        # sympy refuses to order non-real expressions; compare as opaque
        r = op(a, b, evaluate=False)
    if r is sp.true:
        return True
    if r is sp.false:
        return False
    return SymBool(r)


class Sym:
    __slots__ = ("e",)

    def __init__(self, e):
        self.e = sp.sympify(e)

    # -- representation ---------------------------------------------------------
    def __repr__(self):
        return f"Sym({self.e})"

    def __str__(self):
        return f"⟦{self.e}⟧"

    def __format__(self, spec):
        return f"⟦{self.e}⟧"

    def __hash__(self):
        return hash(self.e)

    # -- arithmetic -------------------------------------------------------------
    def _bin(self, other, f):
        if isinstance(other, (np.ndarray,)) or type(other).__name__ == "SymArr":
            return NotImplemented
        try:
            o = to_expr(other)
        except TypeError:
            return NotImplemented
        return wrap(f(self.e, o))

    def __add__(self, o):
        return self._bin(o, lambda a, b: a + b)

    def __radd__(self, o):
        return self._bin(o, lambda a, b: b + a)

    def __sub__(self, o):
        return self._bin(o, lambda a, b: a - b)

    def __rsub__(self, o):
        return self._bin(o, lambda a, b: b - a)

    def __mul__(self, o):
        return self._bin(o, lambda a, b: a * b)

    def __rmul__(self, o):
        return self._bin(o, lambda a, b: b * a)

    def __truediv__(self, o):
        return self._bin(o, _div)

    def __rtruediv__(self, o):
        return self._bin(o, lambda a, b: _div(b, a))

    def __pow__(self, o):
        return self._bin(o, _pow)

    def __rpow__(self, o):
        return self._bin(o, lambda a, b: _pow(b, a))

    def __floordiv__(self, o):
        return self._bin(o, lambda a, b: sp.floor(a / b))

    def __rfloordiv__(self, o):
        return self._bin(o, lambda a, b: sp.floor(b / a))

    def __mod__(self, o):
        return self._bin(o, lambda a, b: sp.Mod(a, b))

    def __neg__(self):
        return wrap(-self.e)

    def __pos__(self):
        return self

    def __abs__(self):
        e = self.e
        if e.is_Atom or e.is_number or len(str(e)) < 200:
            return wrap(sp.Abs(e))
        return wrap(sp.Abs(e, evaluate=False))

    # -- comparisons --------------------------------------------------------------
    def __lt__(self, o):
        return _rel(sp.Lt, self, o)

    def __le__(self, o):
        return _rel(sp.Le, self, o)

    def __gt__(self, o):
        return _rel(sp.Gt, self, o)

    def __ge__(self, o):
        return _rel(sp.Ge, self, o)

    def __eq__(self, o):
        if not is_scalar_like(o):
            return NotImplemented
        return _rel(sp.Eq, self, o)

    def __ne__(self, o):
        if not is_scalar_like(o):
            return NotImplemented
        return _rel(sp.Ne, self, o)

    def __bool__(self):
        return paths.branch(sp.Ne(self.e, 0))

    # -- conversions ----------------------------------------------------------------
    def __float__(self):
        if self.e.is_number and self.e.is_real:
            return float(self.e)
        raise paths.OutOfReach(f"float() of symbolic value {self.e}")

    def __int__(self):
        if self.e.is_Integer:
            return int(self.e)
        raise paths.OutOfReach(f"int() of symbolic value {self.e}")

    __index__ = __int__

    def __complex__(self):
        if self.e.is_number:
            return complex(self.e)
        raise paths.OutOfReach(f"complex() of symbolic value {self.e}")

    # -- numpy object-dtype ufunc hooks -------------------------------------------
    def sqrt(self):
        if self.e.is_number:
            return wrap(sp.sqrt(self.e))
        return wrap(sp.sqrt(sp.factor_terms(sp.expand(self.e))))

    def cbrt(self):
        return wrap(sp.cbrt(self.e))

    def sin(self):
        return wrap(sp.sin(self.e))

    def cos(self):
        return wrap(sp.cos(self.e))

    def tan(self):
        return wrap(sp.tan(self.e))

    def arccos(self):
        return wrap(sp.acos(self.e))

    def arcsin(self):
        return wrap(sp.asin(self.e))

    def exp(self):
        return wrap(sp.exp(self.e))

    def conjugate(self):
        return wrap(sp.conjugate(self.e))

    conj = conjugate

    def copy(self):
        return self

    @property
    def real(self):
        return wrap(sp.re(self.e))

    @property
    def imag(self):
        return wrap(sp.im(self.e))

    def item(self):
        return self

    def tolist(self):
        return self

    def is_integer(self):
        return bool(self.e.is_integer)


def _div(a, b):
    if b == 0:
        raise ZeroDivisionError("division by zero")
    return a / b


def _pow(a, b):
    # exponents that CPython already evaluated to floats (1/3, 0.5, 1.5 ...)
    return a ** b


class SymBool:
    __slots__ = ("e",)

    def __init__(self, e):
        self.e = e

    def __repr__(self):
        return f"SymBool({self.e})"

    def __hash__(self):
        return hash(self.e)

    def __bool__(self):
        return paths.branch(self.e)

    def __invert__(self):
        return wrap(sp.Not(self.e))

    def _b(self, o):
        if isinstance(o, SymBool):
            return o.e
        if isinstance(o, (bool, np.bool_)):
            return sp.true if o else sp.false
        return None

    def __and__(self, o):
        b = self._b(o)
        return NotImplemented if b is None else wrap(sp.And(self.e, b))

    __rand__ = __and__

    def __or__(self, o):
        b = self._b(o)
        return NotImplemented if b is None else wrap(sp.Or(self.e, b))

    __ror__ = __or__

    def __xor__(self, o):
        b = self._b(o)
        return NotImplemented if b is None else wrap(sp.Xor(self.e, b))

    def __eq__(self, o):
        b = self._b(o)
        if b is None:
            return NotImplemented
        return wrap(sp.Equivalent(self.e, b))

    def __ne__(self, o):
        b = self._b(o)
        if b is None:
            return NotImplemented
        return wrap(sp.Not(sp.Equivalent(self.e, b)))

    # arithmetic on masks: bool is 0/1
    def _num(self):
        return Sym(to_expr(self))

    def __mul__(self, o):
        return self._num() * o

    __rmul__ = __mul__

    def __add__(self, o):
        return self._num() + o

    __radd__ = __add__

    def __sub__(self, o):
        return self._num() - o

    def __rsub__(self, o):
        return o - self._num()

    def copy(self):
        return self

    def item(self):
        return self


def real(name, **assumptions):
    assumptions.setdefault("real", True)
    return Sym(sp.Symbol(name, **assumptions))


def integer(name, **assumptions):
    return Sym(sp.Symbol(name, integer=True, **assumptions))


def expr_of(x):
    return to_expr(x)


def bool_expr(x):
    """Sym/SymBool/Python bool -> sympy Boolean."""
    if isinstance(x, SymBool):
        return x.e
    if isinstance(x, (bool, np.bool_)):
        return sp.true if x else sp.false
    if isinstance(x, sp.Basic):
        return x
    raise TypeError(f"not a boolean: {x!r}")
