"""Arrays with symbolic (unbounded) dimensions: the "generic row" representation.

A `SymArr` has `axes`, a tuple whose entries are either a `Dim` (symbolic extent n_D >= 1,
generic index k_D) or a Python int (concrete extent), and `inner`, a numpy object array
over the concrete axes only.  Entry `inner[c...]` is the sympy expression of the element at
the *generic* position k_D along each symbolic axis, i.e. an element function.  N never
receives a value; reductions over a symbolic axis produce sympy `Sum`s (or registered
max/min/forall definitions) bound over a fresh dummy index.
"""
from __future__ import annotations

import itertools

import numpy as np
import sympy as sp

from . import paths
from .sym import Sym, SymBool, to_expr, wrap, is_scalar_like

_DIMS = {}


class Dim:
    """A symbolic extent.  `n` is the length (positive integer), `k` the generic index."""

    def __init__(self, name, minimum=1, parent=None, start=0):
        self.name = name
        self.n = sp.Symbol(f"n_{name}", integer=True, positive=True)
        self.k = sp.Symbol(f"k_{name}", integer=True, nonnegative=True)
        self.minimum = minimum
        self.parent, self.start = parent, start   # slice of another Dim
        _DIMS[self.k] = self
        from . import sym as _sym
        _sym.INDEX_SYMBOLS.add(self.k)

    def __repr__(self):
        return f"Dim({self.name})"

    def facts(self):
        """Range facts about the generic index and the extent."""
        return [sp.Ge(self.k, 0), sp.Lt(self.k, self.n), sp.Ge(self.n, self.minimum)]

    @property
    def size(self):
        return DimSym(self)


class DimSym(Sym):
    """len()/shape entry of a symbolic axis: a Sym that remembers its Dim."""
    __slots__ = ("dim",)

    def __init__(self, dim):
        super().__init__(dim.n)
        self.dim = dim

    def __hash__(self):
        return hash(self.e)


class Definition:
    """A defined symbol: max / min / forall / exists over a symbolic axis."""

    def __init__(self, kind, dim, dummy, body):
        self.kind, self.dim, self.dummy, self.body = kind, dim, dummy, body

    def at(self, idx):
        return self.body.subs(self.dummy, idx)


DEFS: dict = {}   # sympy Symbol -> Definition   (names are unique per process)
_counter = itertools.count(1)


_DEF_MEMO: dict = {}


def define(kind, dim, body):
    """the same definition (kind, axis, body) always gets the same symbol: re-executed paths then share their path conditions"""
    body = sp.sympify(body)
    mkey = (kind, dim.name, body)
    if mkey in _DEF_MEMO:
        return _DEF_MEMO[mkey]
    s = _define(kind, dim, body)
    _DEF_MEMO[mkey] = s
    return s


def _define(kind, dim, body):
    dummy = sp.Dummy(f"j_{dim.name}", integer=True, nonnegative=True)
    body = body.subs(dim.k, dummy)
    n = next(_counter)
    if kind in ("forall", "exists"):
        s = sp.Symbol(f"{kind}_{dim.name}_{n}")
        from sympy.logic.boolalg import Boolean
        s = _BoolSym(f"{kind}_{dim.name}_{n}")
    else:
        s = sp.Symbol(f"{kind}_{dim.name}_{n}", real=True)
    DEFS[s] = Definition(kind, dim, dummy, body)
    return s


class _BoolSym(sp.Symbol):
    """Boolean-valued defined symbol (sympy Symbols are accepted in And/Or/Not)."""


def sum_over(dim, body):
    body = sp.sympify(body)
    if not body.has(dim.k):
        return dim.n * body
    dummy = sp.Dummy(f"j_{dim.name}", integer=True, nonnegative=True)
    s = sp.Sum(fast_subs(body, dim.k, dummy), (dummy, 0, dim.n - 1))
    # canonical from the start (S1-S3): index-free coefficients out of the sum, one sum per monomial,
    # coefficients reduced modulo the state's polynomial relations
    from . import sigma
    from .symnp import reduce_mod_ideal
    return reduce_mod_ideal(sigma.canon_one(s))


def _obj(x):
    """Anything array-like of scalars -> numpy object array."""
    if isinstance(x, np.ndarray):
        if x.dtype == object:
            return x
        return x.astype(object)
    if is_scalar_like(x):
        a = np.empty((), dtype=object)
        a[()] = x
        return a
    a = np.empty(_shape_of(x), dtype=object)
    _fill(a, x)
    return a


def _shape_of(x):
    if isinstance(x, np.ndarray):
        return x.shape
    if isinstance(x, (list, tuple)):
        if len(x) == 0:
            return (0,)
        s0 = _shape_of(x[0])
        return (len(x),) + s0
    return ()


def _fill(a, x):
    if a.ndim == 0:
        a[()] = x
        return
    for i, xi in enumerate(x):
        if a.ndim == 1:
            if isinstance(xi, np.ndarray) and xi.shape == ():
                xi = xi.item()
            a[i] = xi
        else:
            _fill(a[i], xi)


def _sx(v):
    """element -> sympy"""
    return to_expr(v)


def _wrap_elem(e):
    return wrap(e)


def _map(f, arr):
    out = np.empty(arr.shape, dtype=object)
    it = np.nditer(arr, flags=["multi_index", "refs_ok"], op_flags=["readonly"]) if arr.size else None
    if arr.ndim == 0:
        out[()] = f(arr[()])
        return out
    for idx in np.ndindex(arr.shape):
        out[idx] = f(arr[idx])
    return out


def fast_subs(e, old, new):
    """substitution of an index symbol: xreplace (no traversal of assumptions), then re-evaluation of Mod nodes"""
    if not e.has(old):
        return e
    e = e.xreplace({old: new})
    if e.has(sp.Mod):
        e = e.replace(lambda x: isinstance(x, sp.Mod), lambda x: sp.Mod(*x.args))
    return e


def subs_arr(arr, old, new):
    return _map(lambda v: _wrap_elem(fast_subs(_sx(v), old, new)) if isinstance(v, (Sym, SymBool)) else v, arr)


class SymArr:
    __array_ufunc__ = None     # make ndarray defer to our reflected operators
    __array_priority__ = 2000

    def __init__(self, axes, inner, guard=None):
        self.axes = tuple(axes)
        self.inner = inner if isinstance(inner, np.ndarray) else _obj(inner)
        cshape = tuple(a for a in self.axes if not isinstance(a, Dim))
        if self.inner.shape != cshape:
            raise AssertionError(f"SymArr inner shape {self.inner.shape} != concrete axes {cshape}")
        self.guard = guard      # sympy boolean in the generic indices: rows that exist (boolean-mask compress)

    # ----------------------------------------------------------------- basics
    @property
    def dims(self):
        return tuple(a for a in self.axes if isinstance(a, Dim))

    @property
    def shape(self):
        return tuple(a.size if isinstance(a, Dim) else a for a in self.axes)

    @property
    def ndim(self):
        return len(self.axes)

    @property
    def dtype(self):
        return np.dtype(object)

    @property
    def size(self):
        out = 1
        for s in self.shape:
            out = out * s
        return out

    def __repr__(self):
        return f"SymArr(axes={self.axes}, inner={self.inner!r}, guard={self.guard})"

    def copy(self):
        return SymArr(self.axes, self.inner.copy(), self.guard)

    def astype(self, *_a, **_k):
        return self.copy()

    @property
    def flags(self):
        return self.inner.flags

    def tolist(self):
        return SymSeq(self.axes[0], self) if isinstance(self.axes[0], Dim) else [self[i] for i in range(self.axes[0])]

    @property
    def T(self):
        return self.transpose()

    def transpose(self, *order):
        if not order:
            order = tuple(reversed(range(self.ndim)))
        elif len(order) == 1 and isinstance(order[0], (tuple, list)):
            order = tuple(order[0])
        new_axes = tuple(self.axes[i] for i in order)
        cpos = [i for i, a in enumerate(self.axes) if not isinstance(a, Dim)]
        corder = [cpos.index(i) for i in order if i in cpos]
        return SymArr(new_axes, self.inner.transpose(corder) if corder else self.inner, self.guard)

    def _caxis(self, axis):
        """index of axis among the concrete axes"""
        return sum(1 for a in self.axes[:axis] if not isinstance(a, Dim))

    def _norm_axis(self, axis):
        if axis < 0:
            axis += self.ndim
        if not 0 <= axis < self.ndim:
            raise IndexError("axis out of range")
        return axis

    # ----------------------------------------------------------------- element-wise
    @staticmethod
    def _broadcast_axes(ax_list):
        nd = max(len(a) for a in ax_list)
        padded = [(None,) * (nd - len(a)) + tuple(a) for a in ax_list]
        out = []
        for pos in range(nd):
            col = [p[pos] for p in padded]
            dims = [c for c in col if isinstance(c, Dim)]
            if dims:
                if any(d is not dims[0] for d in dims):
                    raise paths.OutOfReach(f"broadcast of different symbolic axes {dims}")
                if any(isinstance(c, int) and c != 1 for c in col):
                    raise paths.OutOfReach("broadcast of symbolic axis against concrete extent")
                out.append(dims[0])
            else:
                ints = [c for c in col if c is not None]
                m = max(ints)
                if any(c not in (1, m) for c in ints):
                    raise ValueError(f"operands could not be broadcast together {ax_list}")
                out.append(m)
        return tuple(out), padded

    @staticmethod
    def _aligned_inner(op_axes_padded, op_inner, res_axes):
        """inner array of an operand, reshaped so that it broadcasts over the result's concrete axes."""
        shape = []
        src = [a for a in op_axes_padded if a is not None]
        # concrete extents of the operand in order
        it = iter(op_inner.shape)
        for a_op, a_res in zip(op_axes_padded, res_axes):
            if a_op is None:
                if not isinstance(a_res, Dim):
                    shape.append(1)
                continue
            if isinstance(a_op, Dim):
                continue
            ext = next(it)
            if isinstance(a_res, Dim):
                if ext != 1:
                    raise paths.OutOfReach("concrete axis aligned with symbolic axis")
                continue    # drop the size-1 axis
            shape.append(ext)
        return op_inner.reshape(tuple(shape))

    @classmethod
    def lift(cls, x):
        if isinstance(x, SymArr):
            return x
        arr = _obj(x)
        return SymArr(arr.shape, arr)

    @classmethod
    def elementwise(cls, f, *ops):
        ops = [cls.lift(o) for o in ops]
        res_axes, padded = cls._broadcast_axes([o.axes for o in ops])
        inners = [cls._aligned_inner(p, o.inner, res_axes) for p, o in zip(padded, ops)]
        cshape = tuple(a for a in res_axes if not isinstance(a, Dim))
        bc = np.broadcast_arrays(*inners) if len(inners) > 1 else inners
        # broadcast to full concrete shape
        bc = [np.broadcast_to(b, cshape) for b in bc]
        out = np.empty(cshape, dtype=object)
        if out.ndim == 0:
            out[()] = f(*[b[()] for b in bc])
        else:
            for idx in np.ndindex(cshape):
                out[idx] = f(*[b[idx] for b in bc])
        guard = None
        for o in ops:
            if o.guard is not None:
                if guard is not None and guard != o.guard:
                    raise paths.OutOfReach("element-wise operation on differently masked arrays")
                guard = o.guard
        if not any(isinstance(a, Dim) for a in res_axes):
            return out
        return SymArr(res_axes, out, guard)

    def _bin(self, o, f):
        if not (isinstance(o, (SymArr, np.ndarray, list, tuple)) or is_scalar_like(o)):
            return NotImplemented
        return SymArr.elementwise(f, self, o)

    def __add__(self, o):
        return self._bin(o, lambda a, b: a + b)

    def __radd__(self, o):
        return self._bin(o, lambda a, b: b + a)

    def __sub__(self, o):
        return self._bin(o, lambda a, b: a - b)

    def __rsub__(self, o):
        return self._bin(o, lambda a, b: b - a)

    def __mul__(self, o):
        return self._bin(o, lambda a, b: a * b)

    def __rmul__(self, o):
        return self._bin(o, lambda a, b: b * a)

    def __truediv__(self, o):
        return self._bin(o, lambda a, b: a / b)

    def __rtruediv__(self, o):
        return self._bin(o, lambda a, b: b / a)

    def __floordiv__(self, o):
        return self._bin(o, lambda a, b: a // b)

    def __pow__(self, o):
        return self._bin(o, lambda a, b: a ** b)

    def __neg__(self):
        return SymArr.elementwise(lambda a: -a, self)

    def __abs__(self):
        return SymArr.elementwise(abs, self)

    def __invert__(self):
        return SymArr.elementwise(lambda a: ~a if isinstance(a, SymBool) else (not a), self)

    def __and__(self, o):
        return self._bin(o, lambda a, b: a & b)

    __rand__ = __and__

    def __or__(self, o):
        return self._bin(o, lambda a, b: a | b)

    __ror__ = __or__

    def __lt__(self, o):
        return self._bin(o, lambda a, b: a < b)

    def __le__(self, o):
        return self._bin(o, lambda a, b: a <= b)

    def __gt__(self, o):
        return self._bin(o, lambda a, b: a > b)

    def __ge__(self, o):
        return self._bin(o, lambda a, b: a >= b)

    def __eq__(self, o):
        return self._bin(o, lambda a, b: a == b)

    def __ne__(self, o):
        return self._bin(o, lambda a, b: a != b)

    __hash__ = None

    # in-place: write through to `inner` so that views/aliases observe the change
    def _ibin(self, o, f):
        r = SymArr.elementwise(f, self, o)
        if not isinstance(r, SymArr) or r.axes != self.axes:
            raise ValueError("in-place operation changes the shape")
        record_write(self)
        self.inner[...] = r.inner
        return self

    def __iadd__(self, o):
        return self._ibin(o, lambda a, b: a + b)

    def __isub__(self, o):
        return self._ibin(o, lambda a, b: a - b)

    def __imul__(self, o):
        return self._ibin(o, lambda a, b: a * b)

    def __itruediv__(self, o):
        return self._ibin(o, lambda a, b: a / b)

    def __ior__(self, o):
        return self._ibin(o, lambda a, b: a | b)

    def __iand__(self, o):
        return self._ibin(o, lambda a, b: a & b)

    # ----------------------------------------------------------------- indexing
    def _expand_index(self, idx):
        if not isinstance(idx, tuple):
            idx = (idx,)
        n_specified = sum(1 for i in idx if i is not None and i is not Ellipsis)
        out = []
        for i in idx:
            if i is Ellipsis:
                out.extend([slice(None)] * (self.ndim - n_specified))
            else:
                out.append(i)
        n_used = sum(1 for i in out if i is not None)
        out.extend([slice(None)] * (self.ndim - n_used))
        return out

    def __getitem__(self, idx):
        # boolean mask over a leading symbolic axis
        if isinstance(idx, SymArr) and idx.ndim == 1 and isinstance(idx.axes[0], Dim) and _is_bool_arr(idx):
            return self._compress(idx)
        if isinstance(idx, SymArr) and idx.ndim > 1 and idx.inner.ndim == 0 and tuple(idx.axes) == tuple(self.axes[:idx.ndim]) \
                and _is_bool_arr(idx):
            return self._compress(idx)      # element-wise mask over several symbolic axes
        if isinstance(idx, SymArr) and _is_bool_arr(idx) and tuple(idx.axes) == tuple(self.axes) \
                and idx.inner.shape == self.inner.shape:
            return MaskedFull(self.axes, self.inner.copy(), idx.inner.copy())   # a[mask], mask of a's full shape
        if isinstance(idx, tuple) and idx and isinstance(idx[0], SymArr) and _is_bool_arr(idx[0]) and \
                all(isinstance(i, slice) and i == slice(None) for i in idx[1:]):
            return self._compress(idx[0])
        if isinstance(idx, tuple) and len(idx) > 1 and isinstance(idx[0], SymArr) and _is_bool_arr(idx[0]) and idx[0].ndim == 1 and \
                not all(isinstance(i, slice) and i == slice(None) for i in idx[1:]) and \
                all(isinstance(i, (int, np.integer, slice)) for i in idx[1:]):
            # a[mask, j]: select the columns first, then the rows
            sub = self[(slice(None),) + tuple(idx[1:])]
            if isinstance(sub, SymArr):
                return sub._compress(idx[0])
        if isinstance(idx, tuple) and idx and idx[0] is None and any(isinstance(i, SymArr) for i in idx[1:]):
            # a[np.newaxis, mask, ...]: index without the new leading axes, then add them
            k = 0
            while k < len(idx) and idx[k] is None:
                k += 1
            inner_res = self[tuple(idx[k:]) if len(idx) - k > 1 else idx[k]]
            return inner_res[(None,) * k + (Ellipsis,)]
        if isinstance(idx, list) and getattr(idx, "sym", None) is not None:
            idx = idx.sym            # list filled by one append per iteration of a generic loop
        if isinstance(idx, SymSeq):
            e = idx.elem
            if isinstance(e, SymArr):
                idx = SymArr((idx.dim,) + e.axes, e.inner, idx.guard)
            else:
                arr = _obj(e)
                idx = SymArr((idx.dim,) + arr.shape, arr, idx.guard)
        if isinstance(idx, SymArr):
            return gather(self, idx)
        items = self._expand_index(idx)
        # a[..., lo:hi, ...] with concrete non-negative bounds on a symbolic axis: the first rows, materialised
        ax = 0
        for pos, it in enumerate(items):
            if it is None:
                continue
            a = self.axes[ax]
            if isinstance(a, Dim) and isinstance(it, slice) and it != slice(None) and it.step in (None, 1) \
                    and isinstance(it.stop, int) and it.stop > 0 and (it.start or 0) >= 0:
                from .symnp import np as snp
                pre = [slice(None)] * ax
                rows = [self[tuple(pre + [i])] for i in range(it.start or 0, it.stop)]
                stacked = snp.stack(rows, axis=ax) if any(isinstance(r, SymArr) for r in rows) else np.stack([_obj(r) for r in rows], axis=ax)
                rest = list(items)
                rest[pos] = slice(None)
                rest = [r for r in rest]
                return stacked[tuple(rest)] if any(r is None or r != slice(None) for r in rest) else stacked
            ax += 1
        new_axes = []
        cidx = []          # index applied to inner (concrete axes)
        subst = []         # substitutions for symbolic axes
        ax = 0
        for it in items:
            if it is None:
                new_axes.append(1)
                cidx.append(None)
                continue
            a = self.axes[ax]
            ax += 1
            if isinstance(a, Dim):
                if isinstance(it, slice):
                    if it == slice(None):
                        new_axes.append(a)
                    else:
                        d, start = _slice_dim(a, it)
                        new_axes.append(d)
                        subst.append((a.k, d.k + start))
                elif isinstance(it, (int, np.integer)):
                    c = int(it)
                    subst.append((a.k, sp.Integer(c) if c >= 0 else a.n + c))
                elif isinstance(it, Sym):
                    subst.append((a.k, it.e))
                elif isinstance(it, SymArr):
                    # x[:, idxarr] style gathers are not needed so far
                    raise paths.OutOfReach("fancy index on a non-leading symbolic axis")
                else:
                    raise paths.OutOfReach(f"index {it!r} on symbolic axis")
            else:
                if isinstance(it, Sym):
                    raise paths.OutOfReach("symbolic index into a concrete axis")
                if isinstance(it, (int, np.integer)):
                    cidx.append(int(it))
                elif isinstance(it, slice):
                    cidx.append(it)
                    new_axes.append(len(range(*it.indices(a))))
                elif isinstance(it, (list, np.ndarray)):
                    arr = np.asarray(it)
                    cidx.append(arr)
                    if arr.dtype == bool:
                        new_axes.append(int(arr.sum()))
                    else:
                        new_axes.append(arr.shape[0])
                else:
                    raise paths.OutOfReach(f"index {it!r} on concrete axis")
        # keep views where numpy gives views
        inner = _index_view(self.inner, tuple(cidx)) if cidx else self.inner
        if subst:
            inner = inner.copy() if inner.base is not None or inner is self.inner else inner
            for old, new in subst:
                inner = subs_arr(inner, old, new)
        if not any(isinstance(a, Dim) for a in new_axes):
            if inner.ndim == 0:
                return inner[()]
            return inner
        return SymArr(new_axes, inner, self.guard)

    def _compress(self, mask):
        if tuple(self.axes[:mask.ndim]) != tuple(mask.axes):
            raise paths.OutOfReach("boolean mask over a different axis")
        g = to_bool(mask.inner[()])
        if self.guard is not None:
            g = sp.And(self.guard, g)
        return SymArr(self.axes, self.inner.copy(), g)

    def __setitem__(self, idx, value):
        record_write(self)
        if isinstance(idx, SymArr) and _is_bool_arr(idx):
            return self._scatter(idx, value)
        if isinstance(idx, tuple) and idx and isinstance(idx[0], SymArr) and _is_bool_arr(idx[0]):
            if all(isinstance(i, slice) and i == slice(None) for i in idx[1:]):
                return self._scatter(idx[0], value)
            raise paths.OutOfReach("mixed mask index store")
        items = self._expand_index(idx)
        # generic-index store (map loop):  x[k, ...] = v   with k the generic index of the active loop
        ax = 0
        cidx = []
        tgt_axes = []
        generic = None
        for it in items:
            if it is None:
                raise paths.OutOfReach("newaxis in store")
            a = self.axes[ax]
            ax += 1
            if isinstance(a, Dim):
                if isinstance(it, slice) and it == slice(None):
                    tgt_axes.append(a)
                elif isinstance(it, Sym) and it.e == a.k:
                    generic = a
                elif isinstance(it, (int, np.integer)):
                    raise paths.OutOfReach("store at a concrete position of a symbolic axis")
                else:
                    raise paths.OutOfReach(f"store index {it!r} on symbolic axis")
            else:
                cidx.append(it if not isinstance(it, (np.integer,)) else int(it))
                if isinstance(it, slice):
                    tgt_axes.append(len(range(*it.indices(a))))
                elif isinstance(it, (list, np.ndarray)):
                    tgt_axes.append(len(it))
        if generic is not None:
            lp = current_loop_for(generic)
            if lp is None:
                raise paths.OutOfReach("store at generic index outside a loop over that axis")
            lp.stores.append(self)
        target = _index_view(self.inner, tuple(cidx)) if cidx else self.inner
        if isinstance(value, SymArr):
            v = SymArr.elementwise(lambda a: a, value)   # normalise
            res_axes, padded = SymArr._broadcast_axes([tuple(tgt_axes), v.axes])
            if res_axes != tuple(tgt_axes):
                raise ValueError("could not broadcast input array into target")
            vin = SymArr._aligned_inner(padded[1], v.inner, res_axes)
            target[...] = np.broadcast_to(vin, target.shape)
        else:
            varr = _obj(value)
            target[...] = np.broadcast_to(varr, target.shape)

    def _scatter(self, mask, value):
        if tuple(mask.axes) == tuple(self.axes) and mask.inner.shape == self.inner.shape and mask.inner.ndim > 0:
            # full-shape mask: element by element
            if isinstance(value, MaskedFull):
                if value.mask.shape != mask.inner.shape or any(to_bool(a) != to_bool(b) for a, b in
                                                               zip(value.mask.reshape(-1), mask.inner.reshape(-1))):
                    raise paths.OutOfReach("scatter of values compressed with a different mask")
                vin = value.inner
            elif isinstance(value, (SymArr, np.ndarray)):
                raise paths.OutOfReach("full-shape mask store of an array value")
            else:
                vin = np.broadcast_to(_obj(value), self.inner.shape)
            out = np.empty(self.inner.shape, dtype=object)
            for idx in np.ndindex(self.inner.shape):
                out[idx] = wrap(sp.Piecewise((_sx(vin[idx]), to_bool(mask.inner[idx])), (_sx(self.inner[idx]), True)))
            self.inner[...] = out
            return
        if tuple(self.axes[:mask.ndim]) != tuple(mask.axes) or mask.inner.ndim != 0:
            raise paths.OutOfReach("boolean mask store over a different axis")
        m = to_bool(mask.inner[()])
        if isinstance(value, SymArr):
            if value.guard is None or sp.simplify_logic(sp.Equivalent(value.guard, m)) is not sp.true:
                if value.guard != m:
                    raise paths.OutOfReach("scatter of values compressed with a different mask")
            vin = np.broadcast_to(value.inner, self.inner.shape)
        else:
            vin = np.broadcast_to(_obj(value), self.inner.shape)
        out = np.empty(self.inner.shape, dtype=object)
        for idx in np.ndindex(self.inner.shape) if self.inner.ndim else [()]:
            old = self.inner[idx]
            if old is None:
                old = sp.Symbol("undefined")
            out[idx] = wrap(sp.Piecewise((_sx(vin[idx]), m), (_sx(old), True)))
        self.inner[...] = out

    # ----------------------------------------------------------------- reductions
    def _reduce(self, axis, sym_red, con_red):
        if axis is None:
            x = self
            while isinstance(x, SymArr):
                x = x._reduce(x.ndim - 1, sym_red, con_red)
            if isinstance(x, np.ndarray):
                return con_red(x, None)
            return x
        if isinstance(axis, tuple):
            x = self
            for a in sorted((self._norm_axis(a) for a in axis), reverse=True):
                x = x._reduce(a, sym_red, con_red)
            return x
        axis = self._norm_axis(axis)
        a = self.axes[axis]
        new_axes = self.axes[:axis] + self.axes[axis + 1:]
        if isinstance(a, Dim):
            g = self.guard
            if g is not None and not sp.sympify(g).has(a.k):
                # the guard (rows kept by a boolean mask) is about another axis: it stays on the result
                inner = _map(lambda v: wrap(sym_red(a, _sx(v), None)), self.inner)
                new_guard = g
            else:
                inner = _map(lambda v: wrap(sym_red(a, _sx(v), g)), self.inner)
                new_guard = None
        else:
            inner = con_red(self.inner, self._caxis(axis))
            if not isinstance(inner, np.ndarray):
                inner = _obj(inner)
            new_guard = self.guard
        if not any(isinstance(x, Dim) for x in new_axes):
            return inner[()] if inner.ndim == 0 else inner
        return SymArr(new_axes, inner, new_guard)

    def sum(self, axis=None, **_k):
        def sred(d, e, g):
            if g is not None:
                e = sp.Piecewise((e, g), (0, True))
            return sum_over(d, e)
        return self._reduce(axis, sred, lambda arr, ax: arr.sum(axis=ax))

    def max(self, axis=None, **_k):
        return self._reduce(axis, lambda d, e, g: define("max", d, e), _con_max)

    def min(self, axis=None, **_k):
        return self._reduce(axis, lambda d, e, g: define("min", d, e), _con_min)

    def all(self, axis=None, **_k):
        def sred(d, e, g):
            e = to_bool(e)
            if g is not None:
                e = sp.Implies(g, e)
            return define("forall", d, e)
        return self._reduce(axis, sred, _con_all)

    def any(self, axis=None, **_k):
        def sred(d, e, g):
            e = to_bool(e)
            if g is not None:
                e = sp.And(g, e)
            return define("exists", d, e)
        return self._reduce(axis, sred, _con_any)

    def mean(self, axis=None, **_k):
        if axis is None:
            if self.ndim != 1:
                raise paths.OutOfReach("mean over all axes of a multi-dimensional symbolic array")
            axis = 0
        axis_n = self._norm_axis(axis)
        a = self.axes[axis_n]
        s = self.sum(axis=axis_n)
        return s / (Sym(a.n) if isinstance(a, Dim) else a)

    def dot(self, other):
        from . import symnp
        return symnp.np.dot(self, other)

    def squeeze(self, axis=None):
        new_axes = []
        keep = []
        for i, a in enumerate(self.axes):
            if isinstance(a, Dim):
                # a symbolic extent equal to 1 is a case the caller must split on
                new_axes.append(a)
            elif a == 1 and (axis is None or self._norm_axis(axis) == i):
                continue
            else:
                new_axes.append(a)
        cshape = tuple(a for a in new_axes if not isinstance(a, Dim))
        paths.note("squeeze: symbolic extents assumed > 1")
        return SymArr(new_axes, self.inner.reshape(cshape), self.guard)

    def reshape(self, *shape):
        raise paths.OutOfReach("reshape of an array with symbolic extent")

    def __iter__(self):
        if not isinstance(self.axes[0], Dim):
            return iter([self[i] for i in range(int(self.axes[0]))])      # a concrete leading axis: numpy's own iteration
        raise paths.OutOfReach("iteration over a symbolic axis outside an instrumented for-loop")

    def __len__(self):
        if not isinstance(self.axes[0], Dim):
            return int(self.axes[0])
        raise paths.OutOfReach("len() of a symbolic axis (builtin len is shimmed in verified modules)")

    def generic_row(self):
        """element at the generic index of the leading axis (used by instrumented loops)"""
        a = self.axes[0]
        rest = self.axes[1:]
        if any(isinstance(x, Dim) for x in rest):
            return SymArr(rest, self.inner, self.guard)
        return self.inner[()] if self.inner.ndim == 0 else self.inner


def to_bool(v):
    if isinstance(v, SymBool):
        return v.e
    if isinstance(v, (bool, np.bool_)):
        return sp.true if v else sp.false
    if isinstance(v, sp.Piecewise) and len(v.args) == 2 and v.args[0][0] == 1 and v.args[1][0] == 0 and v.args[1][1] is sp.true:
        return v.args[0][1]          # numeric image of a boolean (mask arithmetic) back to the boolean
    if isinstance(v, sp.Basic):
        if isinstance(v, (sp.logic.boolalg.BooleanFunction, sp.logic.boolalg.BooleanAtom,
                          sp.core.relational.Relational, _BoolSym)):
            return v
        return sp.Ne(v, 0)
    if isinstance(v, Sym):
        return sp.Ne(v.e, 0)
    if isinstance(v, (int, float)):
        return sp.true if v else sp.false
    raise TypeError(f"not boolean: {v!r}")


def _is_bool_arr(a):
    if isinstance(a, SymArr):
        flat = a.inner.reshape(-1)
        return len(flat) > 0 and all(isinstance(v, (SymBool, bool, np.bool_)) for v in flat)
    return False


def _con_max(arr, ax):
    return _fold(arr, ax, lambda a, b: wrap(sp.Max(_sx(a), _sx(b))))


def _con_min(arr, ax):
    return _fold(arr, ax, lambda a, b: wrap(sp.Min(_sx(a), _sx(b))))


def _con_all(arr, ax):
    return _fold(arr, ax, lambda a, b: wrap(sp.And(to_bool(a), to_bool(b))), unit=True)


def _con_any(arr, ax):
    return _fold(arr, ax, lambda a, b: wrap(sp.Or(to_bool(a), to_bool(b))), unit=False)


def _fold(arr, ax, f, unit=None):
    if ax is None:
        flat = arr.reshape(-1)
        if len(flat) == 0:
            return unit
        out = flat[0]
        for v in flat[1:]:
            out = f(out, v)
        return out
    moved = np.moveaxis(arr, ax, 0)
    out = np.empty(moved.shape[1:], dtype=object)
    for idx in (np.ndindex(out.shape) if out.ndim else [()]):
        vals = [moved[(i,) + idx] for i in range(moved.shape[0])]
        if not vals:
            out[idx] = unit
            continue
        acc = vals[0]
        for v in vals[1:]:
            acc = f(acc, v)
        out[idx] = acc
    return out


def _index_view(arr, cidx):
    """arr[cidx] but integer indices keep numpy views (as 0-d views) so that stores alias."""
    if any(isinstance(i, np.ndarray) or isinstance(i, list) for i in cidx):
        return arr[tuple(cidx)]
    sl = []
    squeeze = []
    pos = 0
    for i in cidx:
        if i is None:
            sl.append(None)
            pos += 1
            continue
        if isinstance(i, int):
            n = arr.shape[len([s for s in sl if s is not None])]
            j = i if i >= 0 else n + i
            if not 0 <= j < n:
                raise IndexError("index out of bounds")
            sl.append(slice(j, j + 1))
            squeeze.append(pos)
        else:
            sl.append(i)
        pos += 1
    v = arr[tuple(sl)]
    if squeeze:
        new_shape = tuple(s for p, s in enumerate(v.shape) if p not in squeeze)
        v2 = v.reshape(new_shape)
        return v2
    return v


def _slice_dim(d, sl):
    start = sl.start or 0
    stop = sl.stop
    if sl.step not in (None, 1):
        raise paths.OutOfReach("strided slice of a symbolic axis")
    if start < 0 or (stop is not None and stop > 0):
        raise paths.OutOfReach(f"slice {sl} of a symbolic axis")
    drop = start + (-(stop) if stop else 0)
    key = (d, start, drop)
    sub = _SLICE_CACHE.get(key)
    if sub is None:
        sub = Dim(f"{d.name}_s{start}_{drop}", minimum=max(0, d.minimum - drop), parent=d, start=start)
        sub.n_expr = d.n - drop
        _SLICE_CACHE[key] = sub
    return sub, start


_SLICE_CACHE: dict = {}


def gather(base, idx):
    """base[idx] with idx an integer SymArr: axes of idx replace the leading axis of base."""
    if not isinstance(base, SymArr) or not isinstance(base.axes[0], Dim):
        raise paths.OutOfReach("gather from a concrete array with symbolic indices")
    d = base.axes[0]
    rest_axes = base.axes[1:]
    if any(isinstance(a, Dim) for a in rest_axes):
        raise paths.OutOfReach("gather from an array with two symbolic axes")
    out = np.empty(idx.inner.shape + base.inner.shape, dtype=object)
    for i in (np.ndindex(idx.inner.shape) if idx.inner.ndim else [()]):
        ie = _sx(idx.inner[i])
        for j in (np.ndindex(base.inner.shape) if base.inner.ndim else [()]):
            out[i + j] = wrap(fast_subs(_sx(base.inner[j]), d.k, ie))
    return SymArr(idx.axes + rest_axes, out, idx.guard)


class MaskedFull:
    """a[mask] for a boolean mask of a's full shape: only usable as the value of a store through the same mask"""

    def __init__(self, axes, inner, mask):
        self.axes, self.inner, self.mask = axes, inner, mask


# ------------------------------------------------------------------------ sequences
class SymSeq:
    """A Python-level sequence of symbolic length (list of faces, list of rows ...).

    `elem` is the element at the generic index; it may be any Python value built from
    symbolic pieces (a SymArr row, a tuple, a shape object ...)."""

    def __init__(self, dim, elem_or_arr, guard=None):
        self.dim = dim
        if isinstance(elem_or_arr, SymArr) and elem_or_arr.axes and elem_or_arr.axes[0] is dim:
            self.arr = elem_or_arr
            self.elem = elem_or_arr.generic_row()
        else:
            self.arr = None
            self.elem = elem_or_arr
        self.guard = guard

    def __repr__(self):
        return f"SymSeq({self.dim}, {self.elem!r})"

    def __getitem__(self, i):
        if isinstance(i, Sym) and i.e == self.dim.k:
            return self.elem
        raise paths.OutOfReach(f"index {i!r} into a sequence of symbolic length")

    def __iter__(self):
        raise paths.OutOfReach("iteration over a symbolic sequence outside an instrumented for-loop")


class GenericLoop:
    def __init__(self, dim):
        self.dim = dim
        self.stores = []
        self.appends = []


def current_loop_for(dim):
    if not paths.active():
        return None
    for lp in reversed(paths.cur().loops):
        if lp.dim is dim:
            return lp
    return None


# ------------------------------------------------------------------------ effects
def record_write(arr):
    if paths.active():
        paths.cur().effects.append(("write", id(arr.inner if isinstance(arr, SymArr) else arr)))


def make(name, axes, integer=False, **assume):
    """A fresh symbolic array: element function  name(k_D..., c...)."""
    f = sp.Function(name, integer=True, **assume) if integer else sp.Function(name, real=True, **assume)
    cshape = tuple(a for a in axes if not isinstance(a, Dim))
    sym_idx = [a.k for a in axes if isinstance(a, Dim)]
    inner = np.empty(cshape, dtype=object)
    for idx in (np.ndindex(cshape) if cshape else [()]):
        it = iter(idx)
        args = []
        for a in axes:
            if isinstance(a, Dim):
                args.append(a.k)
            else:
                args.append(sp.Integer(next(it)))
        inner[idx] = Sym(f(*args))
    if not sym_idx:
        return inner
    return SymArr(axes, inner)
