"""Obligations, verdicts, evidence, VIOLATION / KNOWN-FINDING protocol."""
from __future__ import annotations

import hashlib
import json
import os
import sys
import time
import traceback
from fractions import Fraction

import sympy as sp

from . import paths, z3back, externals
from .loader import Loader, REPO

VERIF = os.path.dirname(os.path.dirname(os.path.abspath(__file__)))

EXC_OF_CODE = (ValueError, RuntimeError, KeyError, AssertionError, ZeroDivisionError,
               NotImplementedError, ImportError, AttributeError)


def _jsonable(x):
    if isinstance(x, Fraction):
        return str(x) if x.denominator != 1 else int(x)
    if isinstance(x, dict):
        return {str(k): _jsonable(v) for k, v in x.items()}
    if isinstance(x, (list, tuple)):
        return [_jsonable(v) for v in x]
    if isinstance(x, (int, float, str, bool)) or x is None:
        return x
    return str(x)


class Obligation:
    def __init__(self, name, function, kind="deductive"):
        self.name, self.function, self.kind = name, function, kind
        self.status = None       # proved | refuted | unknown | known-finding | bounded-pass | bounded-fail
        self.backend = ""
        self.time_s = 0.0
        self.detail = ""
        self.model = None
        self.goal = ""
        self.pc = ""
        self.replay = None


class TaskBudget(BaseException):
    """wall-clock budget of one forked task exhausted (raised from a SIGALRM handler)"""


class Check:
    def __init__(self, pid, tier="quick", seed=0, level="proof"):
        self.pid, self.tier, self.seed, self.level = pid, tier, seed, level
        self.t0 = time.time()
        self.obls: list[Obligation] = []
        self.functions = {}          # qualname -> dict(sha, paths, module)
        self.inlined = set()
        self.assumed = []
        self.trusted = []
        self.bounded = []            # dicts describing bounded stand-ins
        self.violations = []         # (obligation, replay path, reproduced)
        self.known_hits = []
        self.errors = []
        self.notes = []
        self.canaries = []
        self.out_of_reach = []
        self._loader = None
        self.known = _load_known(pid)
        self.samples = []
        externals.reset()

    # ------------------------------------------------------------------ source access
    def loader(self, overrides=None, fresh=False):
        if self._loader is None or fresh or overrides:
            ld = Loader(overrides=overrides)
            if overrides:
                return ld
            self._loader = ld
        return self._loader

    def function(self, module, qualname, ld=None):
        ld = ld or self.loader()
        ld.load(module)
        text, sha = ld.function_source(module, qualname)
        key = f"{module}::{qualname}"
        self.functions.setdefault(key, {"sha": sha, "paths": 0, "lines": text.count("\n") + 1})
        return key

    # ------------------------------------------------------------------ exploring
    def explore(self, fkey, run, assumptions=(), max_paths=400, only=None, expand=False):
        """all paths of `run`; repo functions executed are recorded as inlined callees"""
        seen = set()
        repo_prefix = os.path.join(REPO, "coxeter")

        def prof(frame, event, arg):
            if event == "call":
                co = frame.f_code
                if co.co_filename.startswith(repo_prefix):
                    seen.add(f"{os.path.relpath(co.co_filename, REPO)}::{co.co_qualname}")
        old = sys.getprofile()
        sys.setprofile(prof)
        try:
            res = paths.explore(run, assumptions=assumptions, max_paths=max_paths, catch=EXC_OF_CODE, only=only, expand=expand)
        finally:
            sys.setprofile(old)
        self.inlined |= seen
        if fkey in self.functions:
            self.functions[fkey]["paths"] += len(res)
        return res

    # ------------------------------------------------------------------ proving
    def _new(self, name, fkey, kind="deductive"):
        name = "_".join(str(name).split())         # one token: it is printed after obligation= on VIOLATION lines
        o = Obligation(name, fkey, kind)
        self.obls.append(o)
        return o

    @property
    def bounded_tier(self):
        """tier of the bounded stand-ins: when a deductive obligation could not be decided on this tree (the verified code
        left the engine's subset, or a solver gave up) the stand-ins run their thorough corpus even in the quick tier"""
        if self.tier == "thorough" or self.out_of_reach or any(o.status == "unknown" for o in self.obls):
            if self.tier != "thorough" and not getattr(self, "_escalation_noted", False):
                self._escalation_noted = True
                self.notes.append("bounded stand-ins escalated to the thorough corpus because a deductive obligation was undecided")
            return "thorough"
        return "quick"

    def prove(self, name, fkey, pc, goal, timeout_ms=None, replay=None, abstracted=False):
        """pc: list of sympy booleans; goal: sympy boolean.
        abstracted: the hypotheses are an over-approximation of the path condition (terms replaced by unconstrained
        symbols): a proof stands, a counter-model only if its replay reproduces on the real code (otherwise undecided)."""
        o = self._new(name, fkey)
        o.goal = _short(goal)
        o.pc = _short(sp.And(*pc)) if pc else "True"
        o.replay = replay
        t0 = time.time()
        goal = _prep(sp.sympify(goal))
        pc = [_prep(c) for c in pc]
        if goal is sp.true:
            o.status, o.backend = "proved", "syntactic"
        elif goal is sp.false and not pc:
            o.status, o.backend = "refuted", "syntactic"
            o.model = {}
        else:
            tmo = timeout_ms or (20000 if self.tier == "quick" else 120000)
            from .symnp import IDEAL
            if IDEAL["G"] is not None and (goal.free_symbols & set(IDEAL["syms"])):
                pc = list(pc) + [sp.Eq(g, 0) for g in IDEAL["G"].exprs]
            r = z3back.prove(pc, goal, timeout_ms=tmo)
            o.backend = r.backend
            o.detail = r.detail
            if r.status == "unsat":
                o.status = "proved"
            elif r.status == "sat":
                o.status, o.model = "refuted", r.model
            else:
                # undecided: look for a counterexample by evaluating the goal at models of the hypotheses alone
                m = _refute_by_models(pc, goal)
                if m is not None:
                    o.status, o.model, o.backend = "refuted", m, "z3-model-of-hypotheses+evaluation"
                else:
                    o.status = "unknown"
        if abstracted and o.status == "refuted":
            ok = False
            if replay is not None:
                try:
                    ok = bool(replay(o.model or {})[0])
                except Exception:  # noqa: BLE001
                    ok = False
            if not ok:
                o.status, o.detail = "unknown", "counter-model of an over-approximated path condition did not replay"
        o.time_s = time.time() - t0
        self._after(o)
        return o

    def prove_eq(self, name, fkey, pc, lhs, rhs, timeout_ms=None, replay=None):
        """lhs == rhs: exact normal form (sympy) first, SMT otherwise"""
        lhs, rhs = sp.sympify(lhs), sp.sympify(rhs)
        t0 = time.time()
        diff = normal_form(lhs - rhs)
        if diff == 0:
            o = self._new(name, fkey)
            o.goal = f"{_short(lhs)} == {_short(rhs)}"
            o.pc = _short(sp.And(*pc)) if pc else "True"
            o.status, o.backend, o.time_s = "proved", "sympy-normal-form", time.time() - t0
            self._after(o)
            return o
        return self.prove(name, fkey, pc, sp.Eq(diff, 0), timeout_ms=timeout_ms, replay=replay)

    def prove_equiv(self, name, fkey, pc, a, b, timeout_ms=None, replay=None):
        """a <=> b: relations of the same kind whose difference-of-sides have the same normal form are
        identical conditions (checked conjunct by conjunct); otherwise SMT"""
        t0 = time.time()
        a, b = sp.sympify(a), sp.sympify(b)

        def same(x, y):
            if x == y:
                return True
            if isinstance(x, sp.core.relational.Relational) and type(x) is type(y):
                return normal_form((x.lhs - x.rhs) - (y.lhs - y.rhs)) == 0
            if isinstance(x, (sp.And, sp.Or)) and type(x) is type(y) and len(x.args) == len(y.args):
                ya = list(y.args)
                for xa in x.args:
                    for k, cand in enumerate(ya):
                        if same(xa, cand):
                            ya.pop(k)
                            break
                    else:
                        return False
                return True
            return False
        hit = same(a, b)
        if not hit and a in (sp.true, sp.false):
            # the code decided the condition on this path: the path condition must contain it (or its negation)
            want = b if a is sp.true else sp.Not(b)
            hit = any(same(c, want) for c in pc)
        if hit:
            o = self._new(name, fkey)
            o.goal = f"{_short(a)} <=> {_short(b)}"
            o.pc = _short(sp.And(*pc)) if pc else "True"
            o.status, o.backend, o.time_s = "proved", "sympy-normal-form", time.time() - t0
            self._after(o)
            return o
        return self.prove(name, fkey, pc, sp.Equivalent(a, b), timeout_ms=timeout_ms, replay=replay)

    def record(self, name, fkey, status, backend, detail="", model=None, replay=None, goal="", kind="deductive", abstracted=False):
        """abstracted: a 'refuted' verdict comes from a structural comparison that can fail for code that is nevertheless
        right; it stands only if the replay reproduces on the real code (otherwise undecided)"""
        if abstracted and status == "refuted":
            ok = False
            if replay is not None:
                try:
                    ok = bool(replay(model or {})[0])
                except Exception:  # noqa: BLE001
                    ok = False
            if not ok:
                status, detail = "unknown", (str(detail) + " [structural mismatch did not replay on the real code]")[:300]
        o = self._new(name, fkey, kind)
        o.status, o.backend, o.detail, o.model, o.replay, o.goal = status, backend, detail, model, replay, goal
        self._after(o)
        return o

    def path_raised(self, fkey, p):
        """A path of a function under contract ended in an exception.  ValueError / RuntimeError / NotImplementedError are the
        code's own refusals and are judged by the contract; a Python programming error (AttributeError, TypeError, KeyError ...)
        on the symbolic pre-state means that the contract's hand-built state no longer fits the code (a new field, a new
        helper): nothing is known about that path -- it is recorded as undecided, never skipped."""
        if isinstance(p.exc, (AttributeError, TypeError, NameError, KeyError, IndexError, UnboundLocalError, AssertionError)):
            from contracts.common import path_tag
            qual = fkey.split("::")[-1]
            self.record(f"{qual}:path_is_within_the_contract[{path_tag(p)}]", fkey, "unknown", "engine",
                        detail=f"path ended in {type(p.exc).__name__}: {p.exc}"[:240], model={})
            return True
        return False

    def canary(self, name, fkey, pc, goal):
        """a deliberately false clause: the run is broken if it is 'proved'"""
        r = z3back.prove(pc, goal, timeout_ms=10000)
        ok = r.status != "unsat"
        self.canaries.append({"name": name, "function": fkey, "result": r.status, "ok": ok})
        if not ok:
            self.errors.append(f"canary {name} was proved: the verifier is unsound or vacuous")
        return ok

    def canary_eq(self, name, fkey, lhs, rhs):
        ok = normal_form(sp.sympify(lhs) - sp.sympify(rhs)) != 0
        self.canaries.append({"name": name, "function": fkey, "result": "differs" if ok else "equal", "ok": ok})
        if not ok:
            self.errors.append(f"canary {name} was proved: the verifier is unsound or vacuous")
        return ok

    def reachable(self, name, fkey, pc):
        """vacuity guard: the path condition / precondition must be satisfiable"""
        r = z3back.check(pc, timeout_ms=10000)
        ok = r.status != "unsat"
        self.canaries.append({"name": f"reach:{name}", "function": fkey, "result": r.status, "ok": ok})
        if not ok:
            self.errors.append(f"precondition of {name} is unsatisfiable (vacuous contract)")
        return ok

    def _after(self, o):
        if os.environ.get("PYVC_VERBOSE"):
            print(f"  [{o.status:9s}] {o.time_s:7.2f}s {o.backend:22s} {o.name}", flush=True)
        if o.status == "refuted" or o.status == "bounded-fail":
            k = self.known.get(o.name)
            if k is not None and k.get("status", "open") == "open":
                o.status = "known-finding"
                self.known_hits.append((o, k))
                return
            self._violation(o)

    def _violation(self, o):
        reproduced, info = None, {}
        if o.replay is not None:
            try:
                reproduced, info = o.replay(o.model or {})
            except Exception as e:  # noqa: BLE001
                reproduced, info = None, {"replay_error": "".join(traceback.format_exception_only(type(e), e)).strip()}
        os.makedirs(os.path.join(VERIF, "replays"), exist_ok=True)
        h = hashlib.sha256((o.name + json.dumps(_jsonable(o.model), sort_keys=True)).encode()).hexdigest()[:10]
        safe = "".join(c if c.isalnum() or c in "._-" else "_" for c in o.name)[:80]
        path = os.path.join(VERIF, "replays", f"{self.pid}-{safe}-{h}.json")
        with open(path, "w") as f:
            json.dump({"property": self.pid, "obligation": o.name, "function": o.function,
                       "path_condition": o.pc, "goal": o.goal, "backend": o.backend,
                       "solver_detail": o.detail, "model": _jsonable(o.model),
                       "reproduced_on_real_code": reproduced, "replay": _jsonable(info),
                       "repo": REPO}, f, indent=1)
        self.violations.append((o, path, reproduced))

    def section(self, name, fkey, fn):
        """run one deductive section; if the verified code leaves the supported subset (or the symbolic execution
        itself fails) the section is recorded as undecided and the check continues with its bounded stand-in"""
        try:
            fn()
            return True
        except paths.OutOfReach as e:
            msg = f"{name}: verified code left the supported subset: {e}"
        except paths.PathLimit as e:
            msg = f"{name}: {e}"
        except TaskBudget as e:
            msg = f"{name}: {e}"
        except Exception as e:  # noqa: BLE001
            msg = f"{name}: symbolic execution failed: {type(e).__name__}: {e}"
        self.out_of_reach.append(msg)
        o = self._new(f"{name}:section_decided", fkey)
        o.status, o.backend, o.detail = "unknown", "engine", msg[:300]
        self._after(o)
        return False

    # ------------------------------------------------------------------ parallel sections
    def run_parallel(self, tasks, max_workers=None):
        """tasks: list of (label, callable(chk)).  Each runs in a forked child on a copy of this Check and
        its obligations / evidence pieces are merged back in task order (16 cores are available)."""
        import pickle
        import select
        max_workers = max_workers or int(os.environ.get("PYVC_JOBS", "0") or 0) or min(14, os.cpu_count() or 1)
        if max_workers <= 1 or len(tasks) <= 1 or os.environ.get("PYVC_SERIAL"):
            for label, fn in tasks:
                self.section(f"task[{label}]", next(iter(self.functions), "-"), lambda fn=fn: fn(self))
            return
        results = {}
        pending = list(enumerate(tasks))
        running = {}       # pid -> (index, read fd, buffer)

        def launch(idx, label, fn):
            r, w = os.pipe()
            sys.stdout.flush()
            pid = os.fork()
            if pid == 0:
                os.close(r)
                code = 0
                # time budget of one task: changed code can make the symbolic execution blow up (e.g. rotations that
                # compose along a loop); the task then ends as an undecided section instead of hanging the check
                import signal
                budget = int(os.environ.get("PYVC_TASK_BUDGET", "0") or 0) or (420 if self.tier == "quick" and not label.startswith(("bounded", "history")) else 1500)

                def _expired(signum, frame):
                    # not an Exception: stand-ins that catch Exception around calls of the real code must not mistake it for a failure
                    raise TaskBudget(f"time budget of {budget} s for one task exhausted")
                signal.signal(signal.SIGALRM, _expired)
                signal.alarm(budget)
                try:
                    base = {k: len(getattr(self, k)) for k in ("obls", "violations", "known_hits", "errors", "canaries",
                                                               "bounded", "notes", "out_of_reach", "assumed", "trusted")}
                    self.section(f"task[{label}]", next(iter(self.functions), "-"), lambda: fn(self))
                    signal.alarm(0)
                    for ob in self.obls:
                        ob.replay = None
                    out = {k: getattr(self, k)[n:] for k, n in base.items()}
                    out["known_hits"] = [(ob, k) for ob, k in out["known_hits"]]
                    out["functions"] = self.functions
                    out["inlined"] = self.inlined
                    out["ext_used"] = list(externals.USED)
                    data = pickle.dumps(out)
                except BaseException as e:  # noqa: BLE001
                    data = pickle.dumps({"fatal": f"[{label}] {type(e).__name__}: {e}"})
                    code = 1
                with os.fdopen(w, "wb") as f:
                    f.write(data)
                os._exit(code)
            os.close(w)
            running[pid] = (idx, r, label)

        while pending or running:
            while pending and len(running) < max_workers:
                idx, (label, fn) = pending.pop(0)
                launch(idx, label, fn)
            # read from any finished child
            fds = {r: pid for pid, (_, r, _) in running.items()}
            ready, _, _ = select.select(list(fds), [], [], 1.0)
            for r in ready:
                pid = fds[r]
                idx, _, label = running.pop(pid)
                chunks = []
                with os.fdopen(r, "rb") as f:
                    chunks.append(f.read())
                os.waitpid(pid, 0)
                try:
                    results[idx] = pickle.loads(b"".join(chunks))
                except Exception as e:  # noqa: BLE001
                    results[idx] = {"fatal": f"[{label}] child returned no result ({e})"}
        for idx in sorted(results):
            res = results[idx]
            if "fatal" in res:
                self.errors.append(res["fatal"])
                continue
            for k in ("obls", "violations", "known_hits", "errors", "canaries", "bounded", "notes", "out_of_reach"):
                getattr(self, k).extend(res[k])
            for k in ("assumed", "trusted"):
                for x in res[k]:
                    if x not in getattr(self, k):
                        getattr(self, k).append(x)
            for fk, f in res["functions"].items():
                if fk in self.functions:
                    self.functions[fk]["paths"] = max(self.functions[fk]["paths"], f["paths"])
                else:
                    self.functions[fk] = f
            self.inlined |= res["inlined"]
            for x in res["ext_used"]:
                if x not in externals.USED:
                    externals.USED.append(x)

    # ------------------------------------------------------------------ finishing
    def finish(self, explanation=""):
        wall = time.time() - self.t0
        ded = [o for o in self.obls if o.kind == "deductive"]
        must = [o for o in ded if o.status != "known-finding"]
        discharged = [o for o in must if o.status == "proved"]
        unknown = [o for o in must if o.status == "unknown"]
        bnd = [o for o in self.obls if o.kind == "bounded"]
        if not ded and not bnd:
            self.errors.append("no obligations were generated")
        for fk, f in self.functions.items():
            if not any(o.function == fk and (o.kind == "deductive" or f.get("bounded_only")) for o in self.obls):
                if self.out_of_reach or any(o.status == "unknown" for o in self.obls):
                    self.notes.append(f"no obligations for {fk} (a section was out of reach)")
                else:
                    self.errors.append(f"function under contract without obligations: {fk}")
        level = self.level
        if level == "proof" and (len(discharged) != len(must) or not must):
            level = "other"
        by_backend = {}
        for o in ded:
            by_backend.setdefault(o.backend or "-", [0, 0.0])
            by_backend[o.backend or "-"][0] += 1
            by_backend[o.backend or "-"][1] += o.time_s
        ev = {
            "property_id": self.pid, "tier": self.tier, "seed": self.seed, "level": level,
            "coverage": {
                "obligations": len(must), "discharged": len(discharged),
                "undecided": [o.name for o in unknown],
                "checker_cmd": f"./check {self.pid} --tier {self.tier}",
                "trusted_base": self.trusted + [f"assumed contract: {a}" for a in self.assumed + externals.USED if a],
                "explanation": explanation,
                "functions_under_contract": self.functions,
                "inlined_callees": sorted(self.inlined),
                "out_of_reach": self.out_of_reach,
                "backends": {k: {"obligations": v[0], "solver_s": round(v[1], 3)} for k, v in by_backend.items()},
                "obligation_list": [{"name": o.name, "function": o.function, "status": o.status,
                                     "backend": o.backend, "time_s": round(o.time_s, 3)} for o in self.obls],
                "samples": self.samples or [{"obligation": o.name, "goal": o.goal, "under": o.pc,
                                             "status": o.status, "backend": o.backend} for o in ded[:6]],
                "bounded": self.bounded,
                "canaries": self.canaries,
                "known_findings": [{"obligation": o.name, "what": k.get("what", "")} for o, k in self.known_hits],
                "evaluations": sum(b.get("evaluations", 0) for b in self.bounded) or len(self.obls),
                "distinct_nontrivial": sum(b.get("distinct_nontrivial", 0) for b in self.bounded) or len(self.obls),
                "rule": "deductive obligations are per (function, path, clause); bounded cases per stand-in as described in 'bounded'",
            },
            "assumptions": self.trusted + self.notes,
            "wall_s": round(wall, 2),
            "violations": len(self.violations),
        }
        # evaluations of deliberately changed trees (tools/seed_eval.sh) must not overwrite the evidence of /repo
        evdir = os.environ.get("PYVC_EVIDENCE_DIR") or os.path.join(VERIF, "evidence")
        os.makedirs(evdir, exist_ok=True)
        with open(os.path.join(evdir, f"{self.pid}.json"), "w") as f:
            json.dump(ev, f, indent=1, default=str)
        for o, k in self.known_hits:
            print(f"KNOWN-FINDING: property={self.pid} {o.name}: {k.get('what', '')}")
        for o in unknown:
            print(f"UNDECIDED: property={self.pid} obligation={o.name} ({o.backend} {o.detail})")
        for msg in self.out_of_reach:
            print(f"OUT-OF-REACH: property={self.pid} {msg}")
        # a listed open finding that no longer fails is reported (file is never rewritten here)
        hit = {o.name for o, _ in self.known_hits}
        for name, k in self.known.items():
            if k.get("status", "open") == "open" and name not in hit:
                print(f"NOTE: known finding {name} did not reproduce on this tree")
        for o, path, reproduced in self.violations:
            tail = "" if reproduced else " no-failing-input-found"
            print(f"VIOLATION property={self.pid} replay={path} obligation={o.name}{tail}")
        print(f"{self.pid}: {len(discharged)}/{len(must)} deductive obligations discharged, "
              f"{len(self.known_hits)} known findings, {len(bnd)} bounded clauses, "
              f"{len(self.violations)} violations, {wall:.1f}s")
        if self.errors:
            for e in self.errors:
                print(f"CHECKER-ERROR: property={self.pid} {e}")
            return 3
        return 1 if self.violations else 0


def _refute_by_models(pc, goal, tries=6):
    """models of the path condition (usually easy for the solver) at which the goal evaluates to False are genuine
    counterexamples of the obligation"""
    import random
    import z3
    rnd = random.Random(0)
    syms = sorted(set().union(*[sp.sympify(c).free_symbols for c in list(pc) + [goal]]), key=str)
    if not syms or len(syms) > 60:
        return None
    extra = []
    for t in range(tries):
        r = z3back.check(list(pc) + extra, timeout_ms=4000, use_cvc5=False)
        if r.status != "sat":
            return None
        vals = {}
        for s in syms:
            v = r.model.get(s.name)
            if isinstance(v, bool) or v is None or isinstance(v, str):
                v = Fraction(rnd.randint(-40, 40), rnd.randint(1, 9))
            vals[s] = sp.Rational(Fraction(v).numerator, Fraction(v).denominator)
        try:
            g = goal.xreplace(vals)
            ok_pc = all(bool(sp.sympify(c).xreplace(vals)) for c in pc)
            if ok_pc and g in (sp.false, False):
                return {s.name: Fraction(int(vals[s].p), int(vals[s].q)) for s in syms}
            if ok_pc and isinstance(g, sp.Basic) and not g.free_symbols and bool(g) is False:
                return {s.name: Fraction(int(vals[s].p), int(vals[s].q)) for s in syms}
        except Exception:  # noqa: BLE001
            pass
        # steer the next model away: perturb one symbol
        s = syms[t % len(syms)]
        extra = [sp.Ne(s, vals[s]), sp.Gt(sp.Abs(s - vals[s]), sp.Rational(1, 3))]
    return None


def _prep(e):
    """same canonical sum / atom symbols in hypotheses and goal before they go to the SMT solver"""
    e = sp.sympify(e)
    if e.has(sp.Sum):
        from . import sigma
        e = sigma.canon_syms(e)
    return e


def _short(e, n=400):
    if isinstance(e, sp.Basic):
        cnt = 0
        for _ in sp.preorder_traversal(e):
            cnt += 1
            if cnt > 400:
                return f"<expression with more than 400 nodes, head {type(e).__name__}>"
    s = str(e)
    return s if len(s) <= n else s[:n] + "..."


def _load_known(pid):
    p = os.path.join(VERIF, "known_findings.json")
    if not os.path.exists(p):
        return {}
    with open(p) as f:
        data = json.load(f)
    out = {}
    for k in data.get("findings", []):
        if k.get("property") == pid:
            out[k["obligation"]] = k
    return out


def normal_form(e):
    """canonical form for exact zero tests: together -> numerator -> expand"""
    e = sp.sympify(e)
    if e == 0:
        return sp.Integer(0)
    if e.has(sp.Sum):
        from . import sigma
        e = sigma.canon_syms(e)
    e = atoms_to_symbols(e)
    if LATE_SUBST:
        e = _recanon_radicals(e.xreplace(LATE_SUBST))
    e = canon_function_args(e)
    # cheap route first: one common denominator, then expand the numerator only
    num, den = sp.fraction(sp.together(e))
    num = _reduce(sp.expand(num))
    if num == 0:
        return sp.Integer(0)
    num2, _ = sp.fraction(sp.together(num))
    num2 = _reduce(sp.expand(num2))
    if num2 == 0:
        return sp.Integer(0)
    return num2 / den


LATE_SUBST = {}     # symbol -> expression, substituted when a normal form is computed (charts)


def _recanon_radicals(e):
    from .symnp import _csqrt

    def rec(x):
        if not x.args:
            return x
        x = x.func(*[rec(a) for a in x.args])
        if x.is_Pow and x.exp.is_Rational and x.exp.q == 2:
            r = _csqrt(x.base)
            return r ** x.exp.p if x.exp.p != 1 else r
        return x
    return rec(e)


RELATIONS = []      # [(polynomial relation == 0, main variable)] used to reduce numerators (set by contracts)


def _reduce(num):
    from .symnp import reduce_mod_ideal
    num = reduce_mod_ideal(num)
    for rel, var in RELATIONS:
        if num.has(var):
            try:
                num = sp.expand(sp.rem(num, rel, var))
            except Exception:  # noqa: BLE001
                pass
    return num


_SUM_SYMS = {}


def sums_to_symbols(e):
    rep = {}
    for s in e.atoms(sp.Sum):
        v = _SUM_SYMS.get(s)
        if v is None:
            v = sp.Symbol(f"Sigma@{len(_SUM_SYMS)}", real=True)
            _SUM_SYMS[s] = v
        rep[s] = v
    return e.xreplace(rep) if rep else e


def canon_function_args(e):
    """arguments of uninterpreted / transcendental functions in cancelled p/q form, so that
    f(t*c/(t*a)) and f(c/a) become the same term"""
    from sympy.core.function import AppliedUndef
    fn_types = (AppliedUndef, sp.acos, sp.asin, sp.atan, sp.sin, sp.cos, sp.tan, sp.exp, sp.sinc, sp.atan2, sp.Abs, sp.sign)

    def rec(x):
        if not x.args:
            return x
        args = [rec(a) for a in x.args]
        if isinstance(x, fn_types):
            args = [sp.cancel(sp.together(a)) if not a.is_Atom else a for a in args]
        try:
            return x.func(*args)
        except Exception:  # noqa: BLE001
            return x
    return rec(e)


_ATOM_SYMS = {}


def atoms_to_symbols(e):
    """array-element atoms  V(S(k,0),1)  (uninterpreted applications with integer arguments) are replaced
    by plain symbols, outermost first: polynomial arithmetic on symbols is much faster, and the map is
    injective, so zero tests are unaffected"""
    from sympy.core.function import AppliedUndef
    rep = {}
    for a in e.atoms(AppliedUndef):
        if all(x.is_integer for x in a.args):
            s = _ATOM_SYMS.get(a)
            if s is None:
                s = sp.Symbol(f"@{len(_ATOM_SYMS)}", real=True)
                _ATOM_SYMS[a] = s
            rep[a] = s
    return e.xreplace(rep) if rep else e
