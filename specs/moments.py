"""Exact integrals of polynomials, independent of every formula in coxeter.

* over the unit ball of R^d (monomial moments via the Dirichlet/Gamma formula) and, by the affine
  change of variables x = c + diag(s) u, over discs, ellipses, balls and ellipsoids;
* over a triangle / tetrahedron with symbolic vertices, by the affine map to the reference
  simplex and the Dirichlet formula  int u^p v^q (w^r) = p! q! (r!) / (p+q(+r)+d)!.
"""
from __future__ import annotations

from functools import lru_cache
from itertools import product

import sympy as sp

X, Y, Z = sp.symbols("X Y Z", real=True)      # integration variables of the specs
U, V, W = sp.symbols("U_ V_ W_", real=True)


@lru_cache(None)
def unit_ball_moment(alpha: tuple):
    """int over the unit ball of R^d of prod x_i^alpha_i  (d = len(alpha))"""
    d = len(alpha)
    if any(a % 2 for a in alpha):
        return sp.Integer(0)
    betas = [sp.Rational(a + 1, 2) for a in alpha]
    num = 2
    for b in betas:
        num = num * sp.gamma(b)
    return sp.simplify(num / ((sum(alpha) + d) * sp.gamma(sum(betas))))


def integrate_ellipsoid(h, centre, semiaxes):
    """int of polynomial h(X,Y[,Z]) over {sum ((x_i-c_i)/s_i)^2 <= 1};  d = len(semiaxes)"""
    d = len(semiaxes)
    xs = (X, Y, Z)[:d]
    us = (U, V, W)[:d]
    sub = {x: c + s * u for x, c, s, u in zip(xs, centre, semiaxes, us)}
    poly = sp.Poly(sp.expand(sp.sympify(h).subs(sub, simultaneous=True)), *us)
    jac = sp.Integer(1)
    for s in semiaxes:
        jac = jac * s
    total = sp.Integer(0)
    for mon, coeff in poly.terms():
        total += coeff * unit_ball_moment(tuple(mon))
    return sp.expand(total * jac)


def integrate_triangle_2d(h, a, b, c):
    """signed integral of h(X,Y) over the oriented triangle (a,b,c) in the plane
    (positive when counter-clockwise)"""
    sub = {X: a[0] + (b[0] - a[0]) * U + (c[0] - a[0]) * V,
           Y: a[1] + (b[1] - a[1]) * U + (c[1] - a[1]) * V}
    jac = (b[0] - a[0]) * (c[1] - a[1]) - (b[1] - a[1]) * (c[0] - a[0])
    poly = sp.Poly(sp.expand(sp.sympify(h).subs(sub, simultaneous=True)), U, V)
    total = sp.Integer(0)
    for (p, q), coeff in poly.terms():
        total += coeff * sp.Rational(sp.factorial(p) * sp.factorial(q), sp.factorial(p + q + 2))
    return sp.expand(total * jac)


def integrate_tet(h, a, b, c, apex=(0, 0, 0)):
    """signed integral of h(X,Y,Z) over the oriented tetrahedron (apex; a, b, c);
    sign = sign det(a-apex, b-apex, c-apex)"""
    p = apex
    ea = [a[i] - p[i] for i in range(3)]
    eb = [b[i] - p[i] for i in range(3)]
    ec = [c[i] - p[i] for i in range(3)]
    sub = {v: p[i] + ea[i] * U + eb[i] * V + ec[i] * W for i, v in enumerate((X, Y, Z))}
    jac = sp.Matrix([ea, eb, ec]).det()
    poly = sp.Poly(sp.expand(sp.sympify(h).subs(sub, simultaneous=True)), U, V, W)
    total = sp.Integer(0)
    for (i, j, k), coeff in poly.terms():
        total += coeff * sp.Rational(sp.factorial(i) * sp.factorial(j) * sp.factorial(k),
                                     sp.factorial(i + j + k + 3))
    return sp.expand(total * jac)


def integrate_triangle_3d(h, a, b, c):
    """integral of h over the (flat) triangle a,b,c in 3-space with respect to area, divided by
    the norm of the (non-unit) normal N=(b-a)x(c-a):  returns I with  int h dA = |N| * I"""
    sub = {v: a[i] + (b[i] - a[i]) * U + (c[i] - a[i]) * V for i, v in enumerate((X, Y, Z))}
    poly = sp.Poly(sp.expand(sp.sympify(h).subs(sub, simultaneous=True)), U, V)
    total = sp.Integer(0)
    for (p, q), coeff in poly.terms():
        total += coeff * sp.Rational(sp.factorial(p) * sp.factorial(q), sp.factorial(p + q + 2))
    return sp.expand(total)
