#!/bin/sh
# tools/seed_run.sh <ID> [check ids...]: evaluate a stored seeded change /verif/seeded/<ID>/ in a throw-away worktree
# (created under /tmp, removed afterwards). Evidence of these runs goes to /tmp/seed_evidence/<ID>.
id=$1; shift
dir=/verif/seeded/$id
wt=/tmp/wts/$id
prop=$(echo $id | cut -c1-3)
mkdir -p /tmp/wts
git -C /repo worktree remove --force $wt 2>/dev/null
git -C /repo worktree add -q --detach $wt HEAD || exit 3
git -C $wt apply $dir/patch.diff || { git -C /repo worktree remove --force $wt; exit 3; }
echo "== $id demo with change:"; (cd /tmp && PYTHONPATH=$wt timeout 900 /venv/bin/python $dir/demo.py > /tmp/seed_demo_$id.log 2>&1; echo "exit=$?")
echo "== $id demo without change:"; (cd /tmp && PYTHONPATH=/repo timeout 900 /venv/bin/python $dir/demo.py > /tmp/seed_demo0_$id.log 2>&1; echo "exit=$?")
for c in ${@:-$prop}; do
  PYVC_EVIDENCE_DIR=/tmp/seed_evidence/$id COXETER_REPO=$wt /verif/check $c > /tmp/seed_check_${id}_$c.log 2>&1; echo "== $id check $c rc=$?"
  grep -E "^VIOLATION|^CHECKER-ERROR|^UNDECIDED" /tmp/seed_check_${id}_$c.log | cut -c1-230 | head -6
  tail -1 /tmp/seed_check_${id}_$c.log
done
git -C /repo worktree remove --force $wt
