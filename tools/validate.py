"""validate MANIFEST.json and every evidence file against the harness schemas"""
import json, sys, os, jsonschema
root = os.path.dirname(os.path.dirname(os.path.abspath(__file__)))
m = json.load(open(os.path.join(root, "MANIFEST.json")))
jsonschema.validate(m, json.load(open("/root/.vp/MANIFEST.schema.json")))
es = json.load(open("/root/.vp/EVIDENCE.schema.json"))
ok = True
props = [json.loads(l)["id"] for l in open(os.path.join(root, "properties.jsonl"))]
claimed = [c["property_id"] for c in m["checks"]]
na = [c["property_id"] for c in m.get("not_applicable", [])]
for p in props:
    if (p in claimed) == (p in na):
        print("property", p, "must be exactly one of claimed / not_applicable"); ok = False
for c in m["checks"]:
    p = os.path.join(root, c["evidence_file"].replace("/verif/", ""))
    if not os.path.exists(p):
        print("missing evidence", p); ok = False; continue
    try:
        ev = json.load(open(p)); jsonschema.validate(ev, es)
        if ev["level"] != c["level_claimed"]["category"]:
            print("level mismatch", c["property_id"], ev["level"], c["level_claimed"]["category"])
    except Exception as e:
        print("invalid evidence", p, str(e)[:300]); ok = False
print("valid" if ok else "INVALID"); sys.exit(0 if ok else 1)
