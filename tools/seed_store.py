"""tools/seed_store.py <ID> "<needs>" "<checks that catch it>" : copy a confirmed seeded change into /verif/seeded/<ID>/"""
import json, os, shutil, subprocess, sys
root = os.path.dirname(os.path.dirname(os.path.abspath(__file__)))
sid = sys.argv[1]
needs = sys.argv[2] if len(sys.argv) > 2 else "-"
caught = sys.argv[3] if len(sys.argv) > 3 else "-"
wtroot = os.environ.get("WTROOT", "/tmp/wt")
suffix = os.environ.get("SUFFIX", "")
wt = f"{wtroot}/{sid}"
dst = os.path.join(root, "seeded", sid + suffix)
os.makedirs(dst, exist_ok=True)
# regenerate the patch from the worktree so that it applies to /repo's HEAD
diff = subprocess.run(["git", "-C", wt, "diff", "--", "coxeter"], capture_output=True, text=True).stdout
open(os.path.join(dst, "patch.diff"), "w").write(diff)
shutil.copy(os.path.join(wt, "SEED", "demo.py"), os.path.join(dst, "demo.py"))
if os.path.exists(os.path.join(wt, "SEED", "notes.md")):
    shutil.copy(os.path.join(wt, "SEED", "notes.md"), os.path.join(dst, "notes.md"))
def last(path):
    try:
        return open(path).read().strip().splitlines()[-1][:300]
    except Exception:
        return ""
summary = ""
try:
    for line in open(f"{wtroot}/suites_summary.log"):
        if line.startswith(sid + " "):
            summary = line.strip()
except Exception:
    pass
det = {}
for f in sorted(os.listdir("/tmp")):
    if f.startswith(f"seed_check_{sid}_") and f.endswith(".log"):
        c = f[len(f"seed_check_{sid}_"):-4]
        lines = open(os.path.join("/tmp", f)).read().splitlines()
        obl = sorted({l.split("obligation=")[1].split()[0] for l in lines if l.startswith("VIOLATION") and "obligation=" in l})
        det[c] = {"exit": 1 if obl else 0, "violated_obligations": obl[:12], "summary": lines[-1] if lines else ""}
if needs == "-":
    # the section of the author's notes that says what the violation needs
    import re
    notes = open(os.path.join(dst, "notes.md")).read()
    for sec in re.split(r"\n(?=#+ )", notes):
        h = sec.splitlines()[0].lower()
        if "need" in h or "manifest" in h:
            needs = " ".join(" ".join(sec.splitlines()[1:]).split())[:1200]
            break
if caught == "-":
    caught = "; ".join(f"{c}: {', '.join(d['violated_obligations'][:4])}" for c, d in det.items() if d["exit"]) or "NOT CAUGHT"
meta = {
    "property": sid, "round": 2 if suffix else 1,
    "files_touched": sorted({l[6:] for l in diff.splitlines() if l.startswith("+++ b/")}),
    "breaks": open(os.path.join(dst, "notes.md")).read()[:1500] if os.path.exists(os.path.join(dst, "notes.md")) else "",
    "needs_to_manifest": needs,
    "confirmed": {
        "demo_with_change": last(f"/tmp/seed_demo_{sid}.log"),
        "demo_without_change": last(f"/tmp/seed_demo0_{sid}.log"),
        "existing_suite_with_change": summary or "see notes.md (full suite run by the author of the change)",
        "commands": [f"git -C /repo apply /verif/seeded/{sid}{suffix}/patch.diff", f"PYTHONPATH=/repo /venv/bin/python /verif/seeded/{sid}{suffix}/demo.py",
                     "cd /repo && /venv/bin/python -m pytest -q -p no:cacheprovider", f"./check <ID>", "git -C /repo checkout -- ."],
    },
    "caught_by": caught,
    "check_results_with_change": det,
}
json.dump(meta, open(os.path.join(dst, "meta.json"), "w"), indent=1)
print("stored", dst, "patch lines", len(diff.splitlines()))
