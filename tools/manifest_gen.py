"""regenerate MANIFEST.json from tools/claims.json (one entry per claimed property)"""
import json, os
root = os.path.dirname(os.path.dirname(os.path.abspath(__file__)))
props = [json.loads(l) for l in open(os.path.join(root, "properties.jsonl"))]
claims = json.load(open(os.path.join(root, "tools", "claims.json")))
checks, na = [], []
for p in props:
    c = claims.get(p["id"])
    if c is None or c.get("not_applicable"):
        na.append({"property_id": p["id"], "reason": (c or {}).get("not_applicable", "check not built yet (framework under construction; DESIGN.md section 7)")})
        continue
    checks.append({
        "property_id": p["id"],
        "quick_cmd": f"./check {p['id']} --tier quick",
        "thorough_cmd": f"./check {p['id']} --tier thorough",
        "evidence_file": f"/verif/evidence/{p['id']}.json",
        "replay_cmd_template": f"./check {p['id']} --replay {{path}}",
        "engine": "pyvc",
        "level_claimed": {"category": c["category"], "text": c["text"], "design_ref": c.get("design_ref", "DESIGN.md section 5")},
        "level_note": c["note"],
        "technique": c["technique"],
    })
m = {
 "version": 1, "setup_cmd": "./setup.sh",
 "hooks": {"guard": "COXETER_VERIF", "enable": "no source hooks: contracts are sidecar files under /verif/contracts and the verifier re-reads and re-compiles /repo/coxeter/**/*.py on every run (COXETER_VERIF=1 is exported by ./check but nothing in /repo reads it)",
           "baseline_off_cmd": "cd /repo && /venv/bin/python -m pytest -ra -q -p no:cacheprovider --timeout=900 --continue-on-collection-errors",
           "source_commits": [], "add_only": True},
 "engines": [{"name": "pyvc", "path": "/verif/pyvc", "serves_properties": [c["property_id"] for c in checks],
              "kind_free_text": "contract-based deductive verification: VC generation by symbolic execution of the real, freshly compiled coxeter sources over symbolic scalars and arrays with symbolic extents (generic row), sidecar contracts, discharge by exact polynomial normal forms (sympy) and z3 (cvc5 second opinion); bounded stand-ins with exact oracles where labelled"}],
 "checks": checks,
 "notes": "see DESIGN.md (section 0: verdict table; 5: per-property contracts; 8: defects found and fixed; 9: corrected false alarms; 10: 80 seeded changes, all caught by the property's own check); open known findings and fixed defects are listed in known_findings.json; ./check <ID> --tier quick|thorough, exit 0 held / 1 violation / 3 checker error, undecided obligations are printed as UNDECIDED and never as violations",
 "not_applicable": na,
}
json.dump(m, open(os.path.join(root, "MANIFEST.json"), "w"), indent=1)
print(len(checks), "claimed,", len(na), "not claimed")
