#!/bin/sh
# run every claimed check's quick command, 4 at a time; print the summary lines
cd "$(dirname "$0")/.."
ids=$(python3 -c "import json;print(' '.join(c['property_id'] for c in json.load(open('MANIFEST.json'))['checks']))")
echo $ids | tr ' ' '\n' | xargs -P ${JOBS:-3} -I{} sh -c './check {} --tier ${TIER:-quick} > /tmp/verif_run_{}.log 2>&1; echo "{} rc=$? $(tail -1 /tmp/verif_run_{}.log)"'
