"""tools/seed_table.py: markdown table of /verif/seeded/*/meta.json for DESIGN.md section 10"""
import json, os, glob
root = os.path.dirname(os.path.dirname(os.path.abspath(__file__)))
for d in sorted(glob.glob(os.path.join(root, "seeded", "*"))):
    m = json.load(open(os.path.join(d, "meta.json")))
    sid = os.path.basename(d)
    what = " ".join(m["breaks"].split())
    # first sentence(s) of the author's description of the change
    i = what.find("## Change")
    what = what[i + 9:] if i >= 0 else what
    what = what.strip().lstrip("#").strip()[:260]
    print(f"* **{sid}** ({', '.join(m['files_touched'])}) - {what} ...")
    print(f"  *Caught by:* {m['caught_by'][:420]}")
