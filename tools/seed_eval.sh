#!/bin/sh
# tools/seed_eval.sh <ID> [check ids...]: demo on patched worktree vs clean /repo, then run the checks against the worktree
id=$1; shift
wt=${WTROOT:-/tmp/wt}/$id
echo "== $id: demo with change:"; (cd $wt && PYTHONPATH=$wt timeout 600 /venv/bin/python SEED/demo.py > /tmp/seed_demo_$id.log 2>&1; echo "exit=$?"; tail -2 /tmp/seed_demo_$id.log | cut -c1-200)
echo "== $id: demo without change:"; (cd /tmp && PYTHONPATH=/repo timeout 600 /venv/bin/python $wt/SEED/demo.py > /tmp/seed_demo0_$id.log 2>&1; echo "exit=$?"; tail -1 /tmp/seed_demo0_$id.log | cut -c1-200)
for c in ${@:-$id}; do
  echo "== $id: check $c against the change:"
  PYVC_EVIDENCE_DIR=/tmp/seed_evidence/$id COXETER_REPO=$wt /verif/check $c > /tmp/seed_check_${id}_$c.log 2>&1; echo "rc=$?"
  grep -E "VIOLATION|CHECKER-ERROR|UNDECIDED" /tmp/seed_check_${id}_$c.log | cut -c1-260 | head -6
  tail -1 /tmp/seed_check_${id}_$c.log
done
