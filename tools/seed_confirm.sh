#!/bin/sh
# tools/seed_confirm.sh <ID> [check ids...]: the protocol of the brief on /repo itself:
#   git -C /repo apply seeded/<ID>/patch.diff ; demo ; checks ; git -C /repo checkout -- .
# Evidence of these runs goes to /tmp/seed_evidence/<ID> so that /verif/evidence keeps describing the unchanged tree.
id=$1; shift
dir=/verif/seeded/$id
[ -z "$(git -C /repo status --porcelain)" ] || { echo "/repo is not clean"; exit 3; }
git -C /repo apply $dir/patch.diff || exit 3
trap 'git -C /repo checkout -- .' EXIT INT TERM
echo "== $id demo with change"; (cd /tmp && PYTHONPATH=/repo timeout 600 /venv/bin/python $dir/demo.py > /tmp/seed_demo_$id.log 2>&1; echo "exit=$?")
for c in ${@:-$id}; do
  PYVC_EVIDENCE_DIR=/tmp/seed_evidence/$id /verif/check $c > /tmp/seed_check_${id}_$c.log 2>&1; echo "check $c rc=$?"
  grep -E "VIOLATION|CHECKER-ERROR" /tmp/seed_check_${id}_$c.log | cut -c1-200 | head -4
done
git -C /repo checkout -- .
trap - EXIT INT TERM
echo "== $id demo without change"; (cd /tmp && PYTHONPATH=/repo timeout 600 /venv/bin/python $dir/demo.py > /tmp/seed_demo0_$id.log 2>&1; echo "exit=$?")
