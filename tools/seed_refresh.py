"""tools/seed_refresh.py <ID>: rewrite the check results of /verif/seeded/<ID>/meta.json from the logs of tools/seed_run.sh"""
import json, os, sys
root = os.path.dirname(os.path.dirname(os.path.abspath(__file__)))
sid = sys.argv[1]
dst = os.path.join(root, "seeded", sid)
meta = json.load(open(os.path.join(dst, "meta.json")))
def last(path):
    try:
        return open(path).read().strip().splitlines()[-1][:300]
    except Exception:
        return ""
det = {}
for f in sorted(os.listdir("/tmp")):
    if f.startswith(f"seed_check_{sid}_") and f.endswith(".log"):
        c = f[len(f"seed_check_{sid}_"):-4]
        lines = open(os.path.join("/tmp", f)).read().splitlines()
        obl = sorted({l.split("obligation=")[1].split()[0] for l in lines if l.startswith("VIOLATION") and "obligation=" in l})
        det[c] = {"exit": 1 if obl else 0, "violated_obligations": obl[:12], "summary": lines[-1] if lines else ""}
meta["check_results_with_change"] = det
meta["caught_by"] = "; ".join(f"{c}: {', '.join(d['violated_obligations'][:4])}" for c, d in det.items() if d["exit"]) or "NOT CAUGHT"
meta["confirmed"]["demo_with_change"] = last(f"/tmp/seed_demo_{sid}.log")
meta["confirmed"]["demo_without_change"] = last(f"/tmp/seed_demo0_{sid}.log")
meta["evaluated_on_repo_commit"] = os.popen("git -C /repo log -1 --format=%h").read().strip()
json.dump(meta, open(os.path.join(dst, "meta.json"), "w"), indent=1)
print(sid, meta["caught_by"][:160])
