"""Symbolic abstract state of Polygon / ConvexPolygon satisfying Inv_Polygon by construction.

A polygon in any plane of 3-space is  V_k = x_k e1 + y_k e2 + d n  with (e1, e2, n) the rows of a proper
rotation R (so n is a unit normal, e1 x e2 = n, the vertices are exactly planar) and (x_k, y_k) arbitrary
in-plane coordinates for an arbitrary number P >= 3 of vertices.  SO(3) is covered without algebraic side
relations by four rational charts  R = R0 * Cayley(a, b, c),  R0 in {I, diag(1,-1,-1), diag(-1,1,-1),
diag(-1,-1,1)}  (every rotation lies in at least one of them).  rowan.mapping.kabsch is an assumed
contract: it returns a proper rotation R' with R' n = z, i.e. R' = Rz(phi) R with unknown in-plane angle
(cos phi, sin phi) = (kc, ks), kc^2 + ks^2 = 1, and R' = identity when n = z.
"""
from __future__ import annotations

import numpy as np
import sympy as sp

from pyvc import paths, externals
from pyvc.sym import Sym, to_expr, wrap
from pyvc.symarr import Dim, SymArr, sum_over
from specs.moments import integrate_triangle_2d, X, Y

P = Dim("P", minimum=3)
px = sp.Function("px", real=True)
py = sp.Function("py", real=True)
xk, yk = px(P.k), py(P.k)
ca, cb, cc = sp.symbols("qa qb qc", real=True)
dd = sp.Symbol("d", real=True)
kc, ks = sp.symbols("kc ks", real=True)
KABSCH_REL = ks**2 + kc**2 - 1

CHARTS = {
    "I": sp.eye(3), "Rx": sp.diag(1, -1, -1), "Ry": sp.diag(-1, 1, -1), "Rz": sp.diag(-1, -1, 1),
}


def cayley():
    k = 1 + ca**2 + cb**2 + cc**2
    return sp.Matrix([[1 + ca**2 - cb**2 - cc**2, 2 * (ca * cb - cc), 2 * (ca * cc + cb)],
                      [2 * (ca * cb + cc), 1 - ca**2 + cb**2 - cc**2, 2 * (cb * cc - ca)],
                      [2 * (ca * cc - cb), 2 * (cb * cc + ca), 1 - ca**2 - cb**2 + cc**2]]) / k


RS = sp.Matrix(3, 3, lambda i, j: sp.Symbol(f"r{i}{j}", real=True))
_GB = None


def so3_ideal():
    """Groebner basis of the relations defining SO(3): R R^T = R^T R = 1 and R = cof(R) (det R = +1)"""
    global _GB
    if _GB is None:
        rels = []
        M = RS * RS.T - sp.eye(3)
        M2 = RS.T * RS - sp.eye(3)
        for i in range(3):
            for j in range(i, 3):
                rels += [M[i, j], M2[i, j]]
        cof = RS.cofactor_matrix()
        for i in range(3):
            for j in range(3):
                rels.append(RS[i, j] - cof[i, j])
        _GB = sp.groebner(rels, *list(RS), order="grevlex")
    return _GB, tuple(RS)


def frame(chart):
    """rotation R (rows e1, e2, n).  'xy': the identity (polygon in a plane z = d with normal +z);
    'so3': nine symbols r_ij subject to the SO(3) relations, every proper rotation at once -- all normal
    forms are computed modulo the Groebner basis of those relations"""
    if chart == "xy":
        return sp.eye(3)
    return RS


def late(chart):
    return {}


def polygon(shapes, chart, cls="Polygon", orient=1):
    """symbolic Polygon; orient=-1 stores the normal -n (vertices then run clockwise about the stored normal
    when they run counter-clockwise about n)"""
    klass = getattr(shapes, cls)
    o = object.__new__(klass)
    R = frame(chart)
    inner = np.empty((3,), dtype=object)
    for j in range(3):
        inner[j] = wrap(xk * R[0, j] + yk * R[1, j] + dd * R[2, j])
    o._vertices = SymArr((P, 3), inner)
    o._normal = np.array([wrap(orient * R[2, j]) for j in range(3)], dtype=object)
    return o, R


def install_kabsch(R, chart, orient=1):
    """assumed contract of rowan.mapping.kabsch([n,-n],[[0,0,1],[0,0,-1]])"""
    def kabsch(src, dst, **_k):
        n = [to_expr(v) for v in src[0]]
        if n == [0, 0, 1]:
            # identity clause of the assumed contract (the normal already is +z)
            return np.array([[1, 0, 0], [0, 1, 0], [0, 0, 1]], dtype=object), None
        want = [orient * R[2, j] for j in range(3)]
        if any(sp.expand(a - b) != 0 for a, b in zip(n, want)):
            raise paths.OutOfReach("kabsch called with a vector other than the polygon's normal")
        if chart == "xy" and orient == 1:
            Rp = sp.eye(3)      # identity clause: the normal already is +z
        else:
            # R' maps orient*n to +z: R' = Rz(phi) * Flip * R,  Flip = diag(1,-1,-1) when orient = -1
            # without loss of generality the in-plane frame (e1, e2) of the state *is* the frame kabsch
            # returns: vertices have arbitrary coordinates (x_k, y_k) in it, so the unknown angle is absorbed
            Rp = R
        out = np.empty((3, 3), dtype=object)
        for i in range(3):
            for j in range(3):
                out[i, j] = wrap(Rp[i, j])
        return out, None
    externals.HOOKS["rowan.mapping.kabsch"] = kabsch


# ------------------------------------------------------------------------------ spec (in-plane coordinates)
def nxt(e):
    """value at the next vertex (cyclic)"""
    return e.subs(P.k, sp.Mod(P.k + 1, P.n))


def fan(h):
    """sum over edges of the exact integral of h(X,Y) over the oriented fan triangle (0, p_k, p_{k+1});
    for a simple polygon this is  orientation * integral over the region"""
    row = integrate_triangle_2d(h, (0, 0), (xk, yk), (nxt(xk), nxt(yk)))
    return sum_over(P, row)


def A2():
    return 2 * fan(1)
