"""Setter / mutator contracts of the six vertex-based classes (shared by C03 and C08).

Modular scheme (callee contracts instead of callee bodies):

* every size setter p is executed with   getter p -> fresh symbol g0 > 0   (callee contract: a valid shape has a
  positive measure; exactness of the getters is C01/C02/C04/C11/C13) and  _rescale -> spy  that records its
  argument.  Obligations:  the setter returns only for v > 0 (rejects_nonpositive, rejects_nan), calls _rescale
  exactly once with s > 0 (rescale_argument_positive) and  s**d * g0 == v  (scale_equation, d = homogeneity
  degree of the measure), writes nothing else (frame), raises only ValueError and leaves the state unchanged.
* _rescale of each class is verified against "abstract state scaled by s, class invariant preserved" (C03).
* read-back then follows from: scale_equation + _rescale contract + homogeneity of the exact measure.
"""
from __future__ import annotations

import numpy as np
import sympy as sp

from pyvc import paths
from pyvc.sym import Sym, to_expr, wrap
from pyvc.symarr import SymArr, SymSeq, Dim, make
from .common import path_tag

V_SYM = sp.Symbol("v", real=True)
G0 = sp.Symbol("g0", positive=True)

DEGREE = {"area": 2, "perimeter": 1, "volume": 3, "surface_area": 2, "radius": 1, "mean_curvature": 1,
          "circumference": 1}
CENTRE = ("centroid", "center")

POLY_CLASSES = {
    "Polygon": "coxeter.shapes.polygon", "ConvexPolygon": "coxeter.shapes.convex_polygon",
    "ConvexSpheropolygon": "coxeter.shapes.convex_spheropolygon", "Polyhedron": "coxeter.shapes.polyhedron",
    "ConvexPolyhedron": "coxeter.shapes.convex_polyhedron",
    "ConvexSpheropolyhedron": "coxeter.shapes.convex_spheropolyhedron",
}


def degree(name):
    return 1 if name.endswith("_radius") else DEGREE[name]


def setters_of(cls):
    out = []
    for name in dir(cls):
        for k in cls.__mro__:
            if name in k.__dict__:
                attr = k.__dict__[name]
                if isinstance(attr, property) and attr.fset is not None:
                    out.append((name, k))
                break
    return sorted(out)


# ------------------------------------------------------------------------------------------ minimal symbolic states
NV = Dim("Nm", minimum=3)


def bare_state(shapes, cls_name):
    """an instance with symbolic fields, sufficient for the 2-4 line setter bodies (all getters they read and
    _rescale are replaced by their contracts)"""
    cls = getattr(shapes, cls_name)
    o = object.__new__(cls)
    if cls_name in ("Polygon", "ConvexPolygon"):
        o._vertices = make("Vm", (NV, 3))
        o._normal = np.array([Sym(sp.Symbol(f"nm{j}", real=True)) for j in range(3)], dtype=object)
    elif cls_name == "ConvexSpheropolygon":
        o._polygon = bare_state(shapes, "ConvexPolygon")
        o._radius = Sym(sp.Symbol("rr", nonnegative=True))
    elif cls_name in ("Polyhedron", "ConvexPolyhedron"):
        o._vertices = make("Vm", (NV, 3))
        o._faces_are_convex = True
        if cls_name == "ConvexPolyhedron":
            # cached measures read directly by the setters (Inv: equal to the positive measures)
            o._volume = Sym(G0)
            o._area = Sym(G0)
    elif cls_name == "ConvexSpheropolyhedron":
        o._polyhedron = bare_state(shapes, "ConvexPolyhedron")
        o._radius = Sym(sp.Symbol("rr", nonnegative=True))
    return o


def snapshot(o):
    """field name -> (object id, content as tuple of sympy expressions) for one level of nesting"""
    out = {}
    for k, val in vars(o).items():
        if k.startswith("__"):
            continue
        out[k] = (id(val), _content(val))
    return out


def _content(val):
    if isinstance(val, SymArr):
        return ("SymArr", val.axes, tuple(to_expr(x) if not isinstance(x, bool) else x for x in val.inner.reshape(-1)))
    if isinstance(val, np.ndarray):
        return ("ndarray", val.shape, tuple(to_expr(x) for x in val.reshape(-1)))
    if isinstance(val, (Sym, int, float)):
        return ("scalar", to_expr(val))
    if hasattr(val, "__dict__") and type(val).__module__.startswith("coxeter"):
        return ("object", tuple(sorted((k, _content(v)) for k, v in vars(val).items())))
    return ("other", repr(type(val)))


def same_state(a, b):
    if a.keys() != b.keys():
        return False
    for k in a:
        if a[k][1] != b[k][1]:
            ca, cb = a[k][1], b[k][1]
            if ca[0] != cb[0] or len(ca) != len(cb):
                return False
            if ca[0] in ("SymArr", "ndarray"):
                if ca[1] != cb[1] or any(sp.expand(x - y) != 0 for x, y in zip(ca[2], cb[2])):
                    return False
            elif ca[0] == "scalar":
                if sp.expand(ca[1] - cb[1]) != 0:
                    return False
            else:
                return False
    return True


def with_contracts(cls, name, calls, getter_value, centre_value=None):
    """subclass of `cls` in which the getter `name` returns its contract value, _rescale is a spy, and
    centroid/center getters return `centre_value`"""
    ns = {}
    for k in cls.__mro__:
        if name in k.__dict__:
            prop = k.__dict__[name]
            break
    if name not in CENTRE:
        ns[name] = property(lambda self: wrap(getter_value), prop.fset)

    def spy(self, scale):
        calls.append(scale)
    ns["_rescale"] = spy
    if centre_value is not None:
        for cname in CENTRE:
            for k in cls.__mro__:
                if cname in k.__dict__:
                    cp = k.__dict__[cname]
                    ns[cname] = property(lambda self: np.array([wrap(x) for x in centre_value], dtype=object), cp.fset)
                    break
    return type(cls.__name__ + "_c", (cls,), ns)


_APPL = {}


def applicable(cls_name, name):
    """does the real class implement the measure at all?  (inherited generic *_radius setters of classes that
    do not define the corresponding ball only forward a NotImplementedError)"""
    key = (cls_name, name)
    if key not in _APPL:
        from .polytope_state import stock_real
        ok = True
        try:
            getattr(stock_real(cls_name), name)
        except NotImplementedError:
            ok = False
        except Exception:  # noqa: BLE001 - e.g. RuntimeError: this stock shape has no circumsphere
            ok = True
        _APPL[key] = ok
    return _APPL[key]


def size_setters(chk, shapes, cls_name, replay_factory=None):
    cls = getattr(shapes, cls_name)
    for name, owner in setters_of(cls):
        if name in CENTRE or name == "radius":
            continue
        if not applicable(cls_name, name):
            chk.notes.append(f"{cls_name}.{name}: the class does not implement this ball (getter raises "
                             "NotImplementedError), so the inherited setter has no meaning for it")
            continue
        fkey = chk.function(owner.__module__, f"{owner.__name__}.{name}[set]")
        tag = f"{cls_name}.{name}[set]"
        calls = []
        sub = with_contracts(cls, name, calls, G0)

        def run(target=None):
            calls.clear()
            o = bare_state(shapes, cls_name)
            o.__class__ = sub
            before = snapshot(o)
            try:
                setattr(o, name, Sym(V_SYM) if target is None else target)
            except Exception as e:  # noqa: BLE001
                return "raise", e, before, snapshot(o), list(calls)
            return "ok", None, before, snapshot(o), list(calls)
        rp = (lambda kind: replay_factory(cls_name, name, kind)) if replay_factory else (lambda kind: None)
        n_ok = 0
        for p in chk.explore(fkey, run, assumptions=[sp.Gt(G0, 0)]):
            t = path_tag(p)
            kind, exc, before, after, scales = p.value
            if kind == "raise":
                chk.record(f"{tag}:raises_ValueError[{t}]", fkey, "proved" if isinstance(exc, ValueError) else "refuted",
                           "type-check", detail=f"{type(exc).__name__}: {exc}", model={})
                chk.record(f"{tag}:state_unchanged_on_raise[{t}]", fkey,
                           "proved" if same_state(before, after) and not scales else "refuted", "heap-compare", model={})
                continue
            n_ok += 1
            chk.prove(f"{tag}:rejects_nonpositive[{t}]", fkey, p.pc, sp.Gt(V_SYM, 0), replay=rp("nonpositive"))
            chk.record(f"{tag}:calls_rescale_once[{t}]", fkey, "proved" if len(scales) == 1 else "refuted", "call-count",
                       detail=f"{len(scales)} calls", model={})
            chk.record(f"{tag}:writes_nothing_else[{t}]", fkey, "proved" if same_state(before, after) else "refuted",
                       "heap-compare", model={})
            if len(scales) == 1:
                s = to_expr(scales[0])
                chk.prove(f"{tag}:rescale_argument_positive[{t}]", fkey, p.pc, sp.Gt(s, 0), replay=rp("nonpositive"))
                chk.prove_eq(f"{tag}:scale_equation[{t}]", fkey, p.pc, s**degree(name) * G0, V_SYM, replay=rp("readback"))
        if not n_ok:
            chk.record(f"{tag}:has_an_accepting_path", fkey, "unknown", "path-enumeration", detail="no path of the setter returns under the contract's pre-state", model={})
        # NaN target
        for p in chk.explore(fkey, lambda: run(float("nan")), assumptions=[sp.Gt(G0, 0)]):
            kind, exc, before, after, scales = p.value
            ok = kind == "raise" and isinstance(exc, ValueError) and same_state(before, after) and not scales
            chk.record(f"{tag}:rejects_nan[{path_tag(p)}]", fkey, "proved" if ok else "refuted", "concrete-nan",
                       detail=f"{kind} {type(exc).__name__ if exc else ''} rescale_calls={len(scales)}", model={},
                       replay=rp("nan"))
