"""Bounded stand-in for C06: Polygon / ConvexPolygon.is_inside against exact rational point-in-polygon."""
from __future__ import annotations

import numpy as np

from bounded import oracle, corpus
from .common import real_coxeter
from . import bounded_c04 as B4


def run_bounded(chk):
    cox = real_coxeter()
    fkey = "coxeter.shapes.polygon::Polygon.is_inside"
    chk.functions.setdefault(fkey, {"sha": "-", "paths": 0, "lines": 0, "bounded_only": True})
    polys = dict(corpus.polygons_2d())
    for i in range(3 if chk.bounded_tier == "quick" else 30):
        polys[f"star{i}"] = corpus.star_polygon(5 + (5 * i) % 20, 31 * chk.seed + i)
    fails = []
    n_eval = n_cases = 0
    for name, pts in polys.items():
        xs = sorted({float(p[0]) for p in pts})
        ys = sorted({float(p[1]) for p in pts})
        lo = np.array([min(xs), min(ys)])
        hi = np.array([max(xs), max(ys)])
        ext = hi - lo
        # grid points, plus points sharing an x or y coordinate with a vertex (degenerate for the half-plane rule)
        gx = sorted(set(list(np.linspace(lo[0] - 0.3 * ext[0], hi[0] + 0.3 * ext[0], 9)) + xs))
        gy = sorted(set(list(np.linspace(lo[1] - 0.3 * ext[1], hi[1] + 0.3 * ext[1], 9)) + ys))
        Q2, want = [], []
        for x in gx:
            for y in gy:
                m = oracle.point_in_polygon((x, y), pts)
                if m == 0 or _near_edge((x, y), pts, 1e-6 * float(max(ext))):
                    continue
                Q2.append((float(x), float(y)))
                want.append(m > 0)
        Q2 = np.array(Q2)
        want = np.array(want)
        for orient in (1, -1):
            q = list(pts) if orient == 1 else list(reversed(pts))
            for pname, R, t in corpus.placements()[:4]:
                n_cases += 1
                P3 = B4._place(q, R, t)
                Rf = np.array([[float(x) for x in row] for row in R])
                Q3 = np.hstack([Q2, np.zeros((len(Q2), 1))]) @ Rf.T + np.asarray(t, float)
                n = [Rf[i][2] for i in range(3)]
                for cls in ("Polygon",) + (("ConvexPolygon",) if name in ("triangle", "unit_square", "rect", "quad_irregular",
                                                                           "pentagon_irregular", "regular5", "regular7", "regular12") else ()):
                    try:
                        poly = getattr(cox.shapes, cls)(P3, normal=n)
                        got = np.asarray(poly.is_inside(Q3))
                    except Exception as e:  # noqa: BLE001
                        fails.append((f"{name}/{cls}/{pname}", {"exception": f"{type(e).__name__}: {e}"}))
                        continue
                    n_eval += len(Q3)
                    if got.shape != want.shape:
                        fails.append((f"{name}/{cls}/{pname}", {"result_shape": list(got.shape), "points": len(Q3)}))
                        continue
                    bad = np.nonzero(got != want)[0]
                    if len(bad):
                        i = int(bad[0])
                        fails.append((f"{name}/{cls}/{'ccw' if orient == 1 else 'cw'}/{pname}",
                                      {"vertices": P3, "normal": n, "point": Q3[i].tolist(), "in_plane_point": Q2[i].tolist(),
                                       "expected_inside": bool(want[i]), "is_inside": bool(got[i]), "n_wrong": int(len(bad))}))
                        continue
                    i = len(Q3) // 3
                    single = np.asarray(poly.is_inside(Q3[i])).reshape(-1)
                    n_eval += 1
                    if len(single) != 1 or bool(single[0]) != bool(want[i]):
                        fails.append((f"{name}/{cls}/single", {"point": Q3[i].tolist(), "expected_inside": bool(want[i]), "single": single.tolist()}))
                    if pname == "identity":
                        got2 = np.asarray(poly.is_inside(Q2))      # (N,2) input: z = 0 plane
                        n_eval += len(Q2)
                        if got2.shape != want.shape or np.any(got2 != want):
                            fails.append((f"{name}/{cls}/N2", {"note": "(N,2) input disagrees with exact membership"}))
    # far in-plane placements (|offset| / size up to 3e8): the vertices and query points are the floating-point sums, and the
    # exact oracle is applied to those very numbers; query points keep >= 1% of the size from the boundary
    for name in ("L", "arrow", "triangle", "pentagon_irregular", "comb"):
        pts = polys[name]
        ext = max(max(float(p[0]) for p in pts) - min(float(p[0]) for p in pts), max(float(p[1]) for p in pts) - min(float(p[1]) for p in pts))
        for T in ((1.0e6 + 0.37, -2.0e6 + 0.11), (3.0e7 + 0.5, 5.0e7 - 0.25), (-1.0e9, 1.0e9), (8.0e6 + 1 / 3, 8.0e6 - 1 / 7)):
            for orient in (1, -1):
                n_cases += 1
                q = list(pts) if orient == 1 else list(reversed(pts))
                Pf = [(float(x) + T[0], float(y) + T[1]) for x, y in q]
                lo = np.array([min(p[0] for p in Pf), min(p[1] for p in Pf)])
                hi = np.array([max(p[0] for p in Pf), max(p[1] for p in Pf)])
                gx = np.linspace(lo[0] - 0.3 * ext, hi[0] + 0.3 * ext, 17)
                gy = np.linspace(lo[1] - 0.3 * ext, hi[1] + 0.3 * ext, 17)
                Q, want = [], []
                for x in gx:
                    for y in gy:
                        if _near_edge((float(x), float(y)), Pf, 0.01 * ext):
                            continue
                        m = oracle.point_in_polygon((float(x), float(y)), Pf)
                        if m != 0:
                            Q.append((float(x), float(y), 0.0))
                            want.append(m > 0)
                Q, want = np.array(Q), np.array(want)
                try:
                    poly = cox.shapes.Polygon([[x, y, 0.0] for x, y in Pf])
                    got = np.asarray(poly.is_inside(Q))
                except Exception as e:  # noqa: BLE001
                    fails.append((f"{name}/far{T}", {"exception": f"{type(e).__name__}: {e}"}))
                    continue
                n_eval += len(Q)
                bad = np.nonzero(got != want)[0] if got.shape == want.shape else [0]
                if len(bad):
                    i = int(bad[0])
                    fails.append((f"{name}/Polygon/{'ccw' if orient == 1 else 'cw'}/far_offset_{T[0]:.3g}_{T[1]:.3g}",
                                  {"vertices": [[x, y, 0.0] for x, y in Pf], "point": Q[i].tolist(), "expected_inside": bool(want[i]),
                                   "is_inside": bool(got[i]) if got.shape == want.shape else None, "n_wrong": int(len(bad)),
                                   "distance_from_boundary_at_least": 0.01 * ext}))
    # the same object, asked other things in between: every ordered pair of queries on a fresh polygon that is neither centred
    # nor in the xy plane, against the query alone; and read - move / resize - read against a fresh construction
    from . import stale
    import numpy as _np
    th = 0.6
    Rx = _np.array([[1.0, 0, 0], [0, _np.cos(th), -_np.sin(th)], [0, _np.sin(th), _np.cos(th)]])
    for pname in ("L", "arrow"):
        if pname not in polys:
            continue
        P2 = _np.array([[float(x), float(y), 0.0] for x, y in polys[pname]])
        for cls in ("Polygon",):
            for tag, V in (("offset", P2 + _np.array([3.0, -2.0, 0.0])), ("tilted+offset", P2 @ Rx.T + _np.array([3.0, -2.0, 1.5])), ("cw", P2[::-1] + _np.array([3.0, -2.0, 0.0]))):
                c = V.mean(axis=0)
                probes = _np.array([c + l_ * (V[i] - c) for i in range(len(V)) for l_ in (0.3, 0.9, 1.2, 1.8)])
                getters = {"is_inside": lambda s, probes=probes: _np.array(s.is_inside(probes)),
                           "inertia_tensor": lambda s: _np.array(s.inertia_tensor, float),
                           "planar_moments": lambda s: _np.array(s.planar_moments_inertia, float),
                           "centroid": lambda s: _np.array(s.centroid, float), "signed_area": lambda s: s.signed_area,
                           "bounding_circle": lambda s: _np.array(s.minimal_bounding_circle.radius),
                           "form_factor": lambda s: _np.array(s.compute_form_factor_amplitude(_np.array([[0.3, -0.2, 0.5]])))}
                n_eval += stale.read_pairs(lambda V=V, cls=cls: getattr(cox.shapes, cls)(V), getters, f"queries_in_pairs:{pname}/{cls}/{tag}", fails)
                n_eval += stale.read_mutate_read(getattr(cox.shapes, cls)(V), lambda s: {"is_inside": _np.array(s.is_inside(
                    _np.array([s.vertices.mean(axis=0) + l_ * (s.vertices[i] - s.vertices.mean(axis=0)) for i in range(len(s.vertices)) for l_ in (0.3, 0.9, 1.2, 1.8)])))},
                    f"history:{pname}/{cls}/{tag}", fails)
    for name, info in fails[:5]:
        chk.record(f"bounded:is_inside_2d[{name}]", fkey, "bounded-fail", "exact-membership", detail=str(info)[:500], model={},
                   kind="bounded", replay=lambda m, info=info, name=name: (True, {"case": name, **info}))
    if not fails:
        chk.record("bounded:is_inside_2d", fkey, "bounded-pass", "exact-membership", kind="bounded", detail=f"{n_eval} points")
    chk.bounded.append({
        "clause": "Polygon/ConvexPolygon.is_inside == exact rational crossing-number membership; batch == single; (N,2) accepted",
        "bound": "11 fixed simple polygons + 3 (quick) / 30 seeded star polygons, both orientations, 4 placements in 3-space, "
                 "query points: 9x9 grid of the bounding box enlarged by 30% plus all points sharing x or y with a vertex, margin 1e-6 size; "
                 "5 polygons x 4 far in-plane offsets (|offset|/size 1e5..3e8) x both orientations, 17x17 grid, margin 1% of the size",
        "evaluations": n_eval, "distinct_nontrivial": n_cases,
        "rule": "distinct = (polygon, orientation, placement); every case has interior and exterior query points",
        "samples": [{"polygon": "L", "vertices": polys["L"]}], "failures": len(fails), "exhaustive": False})


def _near_edge(p, pts, margin):
    x, y = p
    n = len(pts)
    for k in range(n):
        (x0, y0), (x1, y1) = pts[k], pts[(k + 1) % n]
        dx, dy = float(x1) - float(x0), float(y1) - float(y0)
        L2 = dx * dx + dy * dy
        t = max(0.0, min(1.0, ((x - float(x0)) * dx + (y - float(y0)) * dy) / L2))
        d = ((x - (float(x0) + t * dx))**2 + (y - (float(y0) + t * dy))**2) ** 0.5
        if d < margin:
            return True
    return False
