"""C19 -- GSD, repr and HOOMD representations round-trip the shape.

Deductive:
* from_gsd_type_shapes: the real function is executed for every type string (and a missing / unknown one), with and
  without rounding_radius, for dimensions 2 and 3, with the ten constructors replaced by recording stubs (the
  convex-polygon constructor also in its raising variant): the class chosen and the arguments passed are the
  documented ones, unknown / missing types raise ValueError -- a complete enumeration of the dispatch's paths;
* gsd_shape_spec of the four curved classes on symbolic instances: exact keys and values, and the composition
  from_gsd_type_shapes(spec) passes exactly those radii / semi-axes back to the same class;
* to_json: exactly the requested keys with the getters' values; AttributeError for an unknown attribute;
* to_hoomd of Sphere / Ellipsoid on symbolic instances: documented keys, centroid (0,0,0), volume, inertia tensor
  about the centroid, and the centre restored afterwards;
* __repr__ of all ten classes: every `name={...}` of the f-string names a parameter of that class's constructor
  (or of the general-polytope base class the repr names) and the interpolated expression is that parameter's getter.
Bounded: eval(repr(x)) and GSD round trips, to_hoomd values against a freshly centred shape, on stock shapes of all
ten classes in general position.  ConvexSpheropolygon.to_hoomd does not centre the vertices (pinned by
tests/test_spheropolygon.py::test_to_hoomd): known finding.
"""
from __future__ import annotations

import ast
import itertools

import numpy as np
import sympy as sp

from pyvc.loader import REPO
from pyvc.sym import Sym, to_expr
from pyvc import effects
from specs.moments import integrate_ellipsoid, X, Y, Z
from .common import CURVED, make_curved, path_tag, ex, real_coxeter
from .polytope_state import stock_real

LEVEL = "other"


def dispatch(chk):
    ld = chk.loader()
    mod = ld.load("coxeter.shape_getters")
    fkey = chk.function("coxeter.shape_getters", "from_gsd_type_shapes")
    names = ["Circle", "ConvexPolygon", "ConvexPolyhedron", "ConvexSpheropolygon", "ConvexSpheropolyhedron", "Ellipse",
             "Ellipsoid", "Polygon", "Polyhedron", "Sphere"]
    calls = []
    olds = {n: getattr(mod, n) for n in names}

    def stub(n, raising=False):
        def make(*a, **k):
            calls.append((n, a, k))
            if raising:
                raise ValueError("not convex")
            return ("shape", n)
        return make
    base = {"diameter": 3.0, "a": 1.0, "b": 2.0, "c": 4.0, "vertices": "VERTS", "indices": "FACES"}
    want = {
        ("Sphere", False, 2): ("Circle", (1.5,)), ("Sphere", False, 3): ("Sphere", (1.5,)),
        ("Ellipsoid", False, 2): ("Ellipse", (1.0, 2.0)), ("Ellipsoid", False, 3): ("Ellipsoid", (1.0, 2.0, 4.0)),
        ("Polygon", False, 2): ("ConvexPolygon", ("VERTS",)), ("Polygon", True, 2): ("ConvexSpheropolygon", ("VERTS", 0.25)),
        ("Polygon", False, 3): ("ConvexPolygon", ("VERTS",)), ("Polygon", True, 3): ("ConvexSpheropolygon", ("VERTS", 0.25)),
        ("ConvexPolyhedron", False, 3): ("ConvexPolyhedron", ("VERTS",)), ("ConvexPolyhedron", True, 3): ("ConvexSpheropolyhedron", ("VERTS", 0.25)),
        ("ConvexPolyhedron", False, 2): ("ConvexPolyhedron", ("VERTS",)), ("ConvexPolyhedron", True, 2): ("ConvexSpheropolyhedron", ("VERTS", 0.25)),
        ("Mesh", False, 3): ("Polyhedron", ("VERTS", "FACES")), ("Mesh", False, 2): ("Polyhedron", ("VERTS", "FACES")),
    }
    try:
        for n in names:
            setattr(mod, n, stub(n))
        for typ in ("Sphere", "Ellipsoid", "Polygon", "ConvexPolyhedron", "Mesh", "Cylinder", None):
            for rr in (False, True):
                for dim in (2, 3):
                    params = dict(base)
                    if typ is not None:
                        params["type"] = typ
                    if rr:
                        params["rounding_radius"] = 0.25
                    calls.clear()
                    try:
                        out = mod.from_gsd_type_shapes(params, dimensions=dim)
                        outcome = "returned"
                    except ValueError:
                        out, outcome = None, "ValueError"
                    key = (typ, rr, dim)
                    if typ in ("Cylinder", None):
                        ok = outcome == "ValueError" and not calls
                    else:
                        k2 = key if key in want else (typ, False, dim)      # rounding_radius is ignored for Sphere/Ellipsoid/Mesh
                        cls, args = want[k2]
                        ok = outcome == "returned" and out == ("shape", cls) and len(calls) == 1 and calls[0][0] == cls \
                            and tuple(calls[0][1]) == args and not calls[0][2]
                    chk.record(f"from_gsd_type_shapes:dispatch[type={typ},rounding={rr},dim={dim}]", fkey,
                               "proved" if ok else "refuted", "path-enumeration", model={}, detail=f"{outcome} {calls}")
        # non-convex vertex cycle: falls back to Polygon
        setattr(mod, "ConvexPolygon", stub("ConvexPolygon", raising=True))
        calls.clear()
        out = mod.from_gsd_type_shapes({"type": "Polygon", "vertices": "VERTS"}, dimensions=2)
        ok = out == ("shape", "Polygon") and [c[0] for c in calls] == ["ConvexPolygon", "Polygon"] and tuple(calls[1][1]) == ("VERTS",)
        chk.record("from_gsd_type_shapes:nonconvex_polygon_falls_back_to_Polygon", fkey, "proved" if ok else "refuted",
                   "path-enumeration", model={}, detail=str(calls))
    finally:
        for n, o in olds.items():
            setattr(mod, n, o)


def curved_specs(chk):
    ld = chk.loader()
    shapes = ld.load("coxeter.shapes")
    getters = ld.load("coxeter.shape_getters")
    r, a, b, c = sp.symbols("r a b c", real=True)
    expect = {"Circle": {"type": "Sphere", "diameter": 2 * r}, "Sphere": {"type": "Sphere", "diameter": 2 * r},
              "Ellipse": {"type": "Ellipsoid", "a": a, "b": b}, "Ellipsoid": {"type": "Ellipsoid", "a": a, "b": b, "c": c}}
    for cls, (mod, params) in CURVED.items():
        fkey = chk.function(mod, f"{cls}.gsd_shape_spec[get]")
        dim = 2 if cls in ("Circle", "Ellipse") else 3

        def run():
            obj = make_curved(shapes, cls)
            spec = obj.gsd_shape_spec
            back = getters.from_gsd_type_shapes(spec, dimensions=dim)
            return spec, type(back).__name__, {k: v for k, v in vars(back).items() if k != "_centroid"}, vars(obj)
        for p in chk.explore(fkey, run):
            if p.kind != "return":
                chk.path_raised(fkey, p)
                continue
            t = path_tag(p)
            spec, back_cls, back_fields, fields = p.value
            ok = set(spec) == set(expect[cls]) and spec["type"] == expect[cls]["type"] and \
                all(sp.expand(to_expr(spec[k]) - expect[cls][k]) == 0 for k in spec if k != "type")
            chk.record(f"{cls}.gsd_shape_spec:fields[{t}]", fkey, "proved" if ok else "refuted", "normal-form", model={}, detail=str(spec))
            same = back_cls == cls and all(sp.expand(to_expr(back_fields[k]) - to_expr(fields[k])) == 0 for k in back_fields)
            chk.record(f"{cls}.gsd_shape_spec:round_trip_same_class_same_axes[{t}]", fkey, "proved" if same else "refuted",
                       "normal-form", model={}, detail=f"{back_cls} {back_fields}")
    # to_json
    fkey = chk.function("coxeter.shapes.base_classes", "Shape.to_json")

    def run_j():
        obj = make_curved(shapes, "Ellipsoid")
        out = obj.to_json(["volume", "a", "centroid"])
        try:
            obj.to_json(["a", "no_such_attribute"])
            err = "returned"
        except AttributeError:
            err = "AttributeError"
        return out, err, obj.volume, obj.a
    for p in chk.explore(fkey, run_j):
        if p.kind != "return":
            chk.path_raised(fkey, p)
            continue
        out, err, vol, aa = p.value
        ok = list(out) == ["volume", "a", "centroid"] and sp.expand(ex(out["volume"]) - ex(vol)) == 0 and ex(out["a"]) == ex(aa)
        chk.record(f"to_json:exact_keys_and_values[{path_tag(p)}]", fkey, "proved" if ok else "refuted", "normal-form", model={})
        chk.record(f"to_json:unknown_attribute_raises_AttributeError[{path_tag(p)}]", fkey,
                   "proved" if err == "AttributeError" else "refuted", "concrete-exec", model={})
    # to_hoomd of the 3-D curved shapes
    for cls, keys in (("Sphere", ["diameter", "centroid", "volume", "moment_inertia"]),
                      ("Ellipsoid", ["a", "b", "c", "centroid", "volume", "moment_inertia"])):
        fkey = chk.function(CURVED[cls][0], f"{cls}.to_hoomd")
        axes = (r, r, r) if cls == "Sphere" else (a, b, c)

        def run_h():
            obj = make_curved(shapes, cls)
            c0 = [ex(x) for x in obj.centroid]
            d = obj.to_hoomd()
            return d, c0, [ex(x) for x in obj.centroid]
        for p in chk.explore(fkey, run_h):
            if p.kind != "return":
                chk.path_raised(fkey, p)
                continue
            t = path_tag(p)
            d, c0, c1 = p.value
            chk.record(f"{cls}.to_hoomd:keys[{t}]", fkey, "proved" if list(d) == keys else "refuted", "structure", detail=str(list(d)), model={})
            ok_c = all(to_expr(x) == 0 for x in d["centroid"])
            chk.record(f"{cls}.to_hoomd:centroid_is_origin[{t}]", fkey, "proved" if ok_c else "refuted", "normal-form", model={})
            chk.prove_eq(f"{cls}.to_hoomd:volume[{t}]", fkey, p.pc, ex(d["volume"]), integrate_ellipsoid(1, (0, 0, 0), axes))
            coords = (X, Y, Z)
            for i in range(3):
                for j in range(3):
                    h = (X**2 + Y**2 + Z**2 if i == j else 0) - coords[i] * coords[j]
                    chk.prove_eq(f"{cls}.to_hoomd:inertia_about_centroid[{i}{j}][{t}]", fkey, p.pc, ex(d["moment_inertia"][i, j]),
                                 integrate_ellipsoid(h, (0, 0, 0), axes))
            chk.record(f"{cls}.to_hoomd:restores_centre[{t}]", fkey,
                       "proved" if all(sp.expand(x - y) == 0 for x, y in zip(c0, c1)) else "refuted", "normal-form", model={})


def repr_templates(chk):
    table = effects.ClassTable(REPO)
    for cls in ("Circle", "Ellipse", "Sphere", "Ellipsoid", "Polygon", "ConvexPolygon", "ConvexSpheropolygon", "Polyhedron",
                "ConvexPolyhedron", "ConvexSpheropolyhedron"):
        an = effects.Analyzer(table, cls)
        if ("__repr__", "call") not in an.mem:
            continue
        info = an.mem[("__repr__", "call")]
        fkey = chk.function(table.classes[info["owner"]][0], f"{info['owner']}.__repr__")
        # flatten the f-string(s)
        pieces = []
        for node in ast.walk(info["node"]):
            if isinstance(node, ast.JoinedStr):
                for v in node.values:
                    if isinstance(v, ast.Constant):
                        pieces.append(("lit", v.value))
                    else:
                        pieces.append(("expr", ast.unparse(v.value)))
        text = "".join(p[1] if p[0] == "lit" else "\0" for p in pieces)
        exprs = [p[1] for p in pieces if p[0] == "expr"]
        named = text.split("(")[0].split(".")[-1]
        ok_cls = named in table.mro(cls)            # the class itself or its general-polytope base class
        target = an if named == cls else effects.Analyzer(table, named)
        init = target.mem.get(("__init__", "call"))
        params = [a.arg for a in init["node"].args.args][1:] if init else []
        kw = []
        body = text[text.index("(") + 1:] if "(" in text else ""
        for part, e in zip([s for s in body.split("\0")[:-1]], exprs):
            kw.append((part.strip(", ").rstrip("=").strip(), e))
        ok = ok_cls and bool(kw)
        detail = []
        for name, e in kw:
            alias = {"center": ("centroid", "center")}.get(name, (name,))
            reads = any(f"self.{g}" in e or f"self.polygon.{g}" in e for g in alias)
            if name not in params or not reads:
                ok = False
                detail.append(f"{name}={{{e}}}")
        chk.record(f"{cls}.__repr__:names_constructor_parameters_and_reads_their_getters", fkey, "proved" if ok else "refuted",
                   "template-analysis", model={}, detail=f"constructor {named}({', '.join(params)}); offending {detail}",
                   replay=_replay_repr(cls))


def _replay_repr(cls):
    def replay(model):
        bad = roundtrip_problems(cls)
        return bool(bad), {"class": cls, "problems": bad}
    return replay


def _curved_stock(cls_name):
    sh = real_coxeter().shapes
    c = np.array([1.5, -2.0, 0.75])
    return {"Circle": lambda: sh.Circle(1.3, c), "Ellipse": lambda: sh.Ellipse(1.2, 2.7, c), "Sphere": lambda: sh.Sphere(1.3, c),
            "Ellipsoid": lambda: sh.Ellipsoid(1.2, 2.7, 0.6, c)}[cls_name]()


def roundtrip_problems(cls, variant=0, obj=None):
    import coxeter  # noqa: F401  (eval of repr needs the package name)
    cox = real_coxeter()
    if obj is None:
        obj = _curved_stock(cls) if cls in CURVED else stock_real(cls, variant)
    probs = []

    def close(u, v):
        return np.allclose(np.asarray(u, float), np.asarray(v, float), rtol=1e-12, atol=1e-12)
    # repr
    try:
        back = eval(repr(obj), {"coxeter": cox})
        allowed = {type(obj).__name__, {"ConvexPolygon": "Polygon", "ConvexPolyhedron": "Polyhedron"}.get(type(obj).__name__, "")}
        if type(back).__name__ not in allowed:
            probs.append(f"eval(repr) gives a {type(back).__name__}")
        for m in ("vertices", "radius", "a", "b", "c", "centroid", "normal"):
            if hasattr(type(obj), m):
                try:
                    u, v = getattr(obj, m), getattr(back, m)
                except NotImplementedError:
                    continue
                if m == "centroid" and cls in ("ConvexSpheropolygon", "ConvexSpheropolyhedron"):
                    continue
                if not close(u, v):
                    probs.append(f"eval(repr).{m} differs")
        if hasattr(obj, "faces") and not hasattr(obj, "polyhedron"):
            if sorted(tuple(sorted(map(int, f))) for f in obj.faces) != sorted(tuple(sorted(map(int, f))) for f in back.faces):
                probs.append("eval(repr).faces differ")
    except Exception as e:  # noqa: BLE001
        probs.append(f"eval(repr) failed: {type(e).__name__}: {e}")
    # GSD
    try:
        dim = 2 if cls in ("Circle", "Ellipse", "Polygon", "ConvexPolygon", "ConvexSpheropolygon") else 3
        spec = obj.gsd_shape_spec
        back = cox.shape_getters.from_gsd_type_shapes(spec, dimensions=dim)
        if type(back).__name__ != cls:
            probs.append(f"GSD round trip gives a {type(back).__name__}")
        for m in ("vertices", "radius", "a", "b", "c"):
            if hasattr(type(obj), m) and not close(getattr(obj, m), getattr(back, m)):
                probs.append(f"GSD round trip .{m} differs")
    except Exception as e:  # noqa: BLE001
        probs.append(f"GSD round trip failed: {type(e).__name__}: {e}")
    return probs


def hoomd_problems(cls, variant=0, obj=None):
    if obj is None:
        obj = _curved_stock(cls) if cls in CURVED else stock_real(cls, variant)
    if not hasattr(obj, "to_hoomd"):
        return []
    d = obj.to_hoomd()
    probs = []
    core = getattr(obj, "polyhedron", getattr(obj, "polygon", obj))
    expect_keys = {"Sphere": {"diameter", "centroid", "volume", "moment_inertia"},
                   "Ellipsoid": {"a", "b", "c", "centroid", "volume", "moment_inertia"},
                   "Polygon": {"vertices", "centroid", "sweep_radius", "area", "moment_inertia"},
                   "ConvexPolygon": {"vertices", "centroid", "sweep_radius", "area", "moment_inertia"},
                   "ConvexSpheropolygon": {"vertices", "centroid", "sweep_radius", "area"},
                   "Polyhedron": {"vertices", "faces", "centroid", "sweep_radius", "volume", "moment_inertia"},
                   "ConvexPolyhedron": {"vertices", "faces", "centroid", "sweep_radius", "volume", "moment_inertia"},
                   "ConvexSpheropolyhedron": {"vertices", "centroid", "sweep_radius", "volume"}}[cls]
    if set(d) != expect_keys:
        probs.append(f"keys {sorted(d)} != {sorted(expect_keys)}")
    size = float(np.abs(np.asarray(core.vertices, float) - np.asarray(core.centroid, float)).max()) if hasattr(core, "vertices") else 1.0
    if not np.allclose(np.asarray(d["centroid"], float), 0, atol=1e-9 * size):
        probs.append("centroid is not (0,0,0)")
    if "vertices" in d:
        c = np.asarray(core.centroid, float)
        want = np.asarray(core.vertices, float) - c
        got = np.asarray(d["vertices"], float)
        if got.shape[1] == 2:
            want = want[:, :2]
        if not np.allclose(got, want, rtol=0, atol=1e-9 * np.abs(want).max()):
            probs.append("vertices are not those of the shape centred at its centroid")
    if "moment_inertia" in d:
        # inertia about the centroid = inertia of the centred shape
        import copy
        sh = copy.deepcopy(obj)
        sh.centroid = (0.0, 0.0, 0.0)
        it_want = np.asarray(sh.inertia_tensor, float)
        if not np.allclose(np.asarray(d["moment_inertia"], float), it_want, rtol=1e-9, atol=1e-9 * float(np.abs(it_want).max())):
            probs.append("moment_inertia is not the inertia tensor about the centroid")
    for k, m in (("volume", "volume"), ("area", "area")):
        if k in d and abs(float(d[k]) - float(getattr(obj, m))) > 1e-9 * abs(float(getattr(obj, m))):
            probs.append(f"{k} differs")
    if "sweep_radius" in d and abs(float(d["sweep_radius"]) - float(getattr(obj, "radius", 0.0) if hasattr(obj, "polygon") or hasattr(obj, "polyhedron") else 0.0)) > 1e-12:
        probs.append("sweep_radius differs from the rounding radius")
    return probs


def known_hoomd(cls):
    """classes whose to_hoomd clause is an open known finding on the unchanged tree (not re-examined after mutations)"""
    return cls == "ConvexSpheropolygon"


def run(chk):
    chk.trusted += ["float64 arithmetic treated as exact real arithmetic in the curved-shape clauses",
                    "float text round trip (float(repr(x)) == x)"]
    dispatch(chk)
    curved_specs(chk)
    repr_templates(chk)
    # to_hoomd of Polygon / Polyhedron on a symbolic number of vertices: the exported vertices are those of the shape centred at its centroid and the
    # stored vertices are restored, on every path (shared with C16)
    from .c16 import hoomd_restores
    chk.section("to_hoomd_exports_the_centred_shape", "coxeter.shapes.polygon::Polygon.to_hoomd", lambda: hoomd_restores(chk))
    fkey = "gsd / repr / to_hoomd round trips end-to-end"
    chk.functions.setdefault(fkey, {"sha": "-", "paths": 0, "lines": 0, "bounded_only": True})
    fails = []
    n = 0
    for cls in ("Circle", "Ellipse", "Sphere", "Ellipsoid", "Polygon", "ConvexPolygon", "ConvexSpheropolygon", "Polyhedron",
                "ConvexPolyhedron", "ConvexSpheropolyhedron"):
        for variant in ((0,) if cls in CURVED else (0, 1)):
            n += 2
            try:
                rp = roundtrip_problems(cls, variant)
                hp = hoomd_problems(cls, variant)
            except Exception as e:  # noqa: BLE001
                rp, hp = [f"checker could not evaluate: {type(e).__name__}: {e}"], []
            if rp:
                fails.append((f"roundtrip[{cls}/{variant}]", {"class": cls, "problems": rp}))
            if hp:
                fails.append((f"to_hoomd:one_centred_shape[{cls}]", {"class": cls, "problems": hp}))
            # very small and very large shapes (an absolute tolerance in an exporter is invisible at unit size)
            if cls not in CURVED and not known_hoomd(cls):
                from .c16 import _scaled_stock
                for sc in (1e-9, 1e-4, 1e6):
                    n += 1
                    try:
                        hs = hoomd_problems(cls, variant, _scaled_stock(cls, sc, variant))
                    except Exception as e:  # noqa: BLE001
                        hs = [f"{type(e).__name__}: {e}"[:200]]
                    if hs:
                        fails.append((f"to_hoomd:one_centred_shape[{cls}/scale={sc:g}]", {"class": cls, "scale": sc, "problems": hs}))
                        break
            if rp or hp:
                continue
            # the same object: representations read once, then the shape is moved / resized through its public setters and
            # every representation must describe the *current* shape
            try:
                from . import stale
                obj = _curved_stock(cls) if cls in CURVED else stock_real(cls, variant)
                roundtrip_problems(cls, variant, obj), hoomd_problems(cls, variant, obj)
                muts = stale.standard_mutators(obj)
                for nm in ("a", "b", "c"):
                    pr = getattr(type(obj), nm, None)
                    if isinstance(pr, property) and pr.fset is not None:
                        muts.append((f"{nm}*=1.5", lambda o, nm=nm: setattr(o, nm, 1.5 * getattr(o, nm))))
                done = []
                for mname, mut in muts:
                    try:
                        mut(obj)
                    except (NotImplementedError, RuntimeError, ValueError, AttributeError):
                        continue
                    done.append(mname)
                    n += 2
                    rp2 = roundtrip_problems(cls, variant, obj)
                    hp2 = [] if known_hoomd(cls) else hoomd_problems(cls, variant, obj)
                    if rp2 or hp2:
                        fails.append((f"roundtrip_after_mutation[{cls}/{variant}]",
                                      {"class": cls, "history": ["read repr / gsd_shape_spec / to_hoomd"] + done + ["read again"],
                                       "problems": rp2 + hp2}))
                        break
            except Exception as e:  # noqa: BLE001
                fails.append((f"roundtrip_after_mutation[{cls}/{variant}]", {"class": cls, "problems": [f"{type(e).__name__}: {e}"[:200]]}))
    seen = set()
    for name, info in fails:
        if name in seen:
            continue
        seen.add(name)
        chk.record(name, fkey, "bounded-fail", "round-trip", detail=str(info)[:400], model={}, kind="bounded",
                   replay=lambda m, info=info: (True, info))
    if not fails:
        chk.record("roundtrips", fkey, "bounded-pass", "round-trip", kind="bounded", detail=f"{n} round trips")
    chk.bounded.append({"clause": "eval(repr(x)) and from_gsd_type_shapes(x.gsd_shape_spec) rebuild the same class / geometry; to_hoomd values "
                                  "all describe the shape centred at its centroid",
                        "bound": "1 (curved) / 2 (vertex-based) off-origin stock shapes per class (to_hoomd also at scales 1e-9, 1e-4, 1e6), fresh and again after each public "
                                 "move / resize of the same object", "evaluations": n, "distinct_nontrivial": n,
                        "rule": "distinct = (class, stock shape, representation)", "samples": [{"class": "Polyhedron", "variant": 0}],
                        "failures": len(fails), "exhaustive": False})
