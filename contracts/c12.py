"""C12 -- the form factor amplitude is the Fourier transform of the shape.

Deductive (Sphere, for a batch of Q wave vectors with Q symbolic; exp / sin / cos / sinc uninterpreted apart from
sinc(x) x = sin x and exp(a) exp(b) = exp(a+b)): one value per wave vector; for q.q > tolerance the value equals
density * 4 pi (sin qR - qR cos qR)/q^3 * exp(-i q.c) -- the exact transform of the ball at its position -- and
density * volume * exp(-i q.c) on the small-q branch; hence linearity in the density, the translation phase and
F(-q) = conj F(q).
Bounded: Polygon, Polyhedron, ConvexPolyhedron (and the sphere again) against an independent Duffy-Gauss quadrature
of the Fourier integral, for batches of every small size, both polygon orientations and translated copies.
"""
from __future__ import annotations

import sympy as sp

from pyvc.sym import to_expr
from pyvc.symarr import Dim, SymArr, make
from .common import make_curved, path_tag, ex

LEVEL = "other"
QD = Dim("Qf", minimum=1)


def sphere(chk):
    ld = chk.loader()
    shapes = ld.load("coxeter.shapes")
    fkey = chk.function("coxeter.shapes.sphere", "Sphere.compute_form_factor_amplitude")
    rho = sp.Symbol("rho", real=True)
    r, cx, cy, cz = sp.symbols("r cx cy cz", real=True)
    q = [sp.Function("qv", real=True)(QD.k, sp.Integer(j)) for j in range(3)]

    def run(sign=1, density=None):
        obj = make_curved(shapes, "Sphere")
        Q = make("qv", (QD, 3))
        if sign == -1:
            Q = -Q
        from pyvc.sym import Sym
        return obj.compute_form_factor_amplitude(Q, density=Sym(rho) if density is None else density)
    q2 = sum(x * x for x in q)
    qn = sp.sqrt(sp.factor_terms(sp.expand(q2)))
    phase = sp.exp(-sp.I * (q[0] * cx + q[1] * cy + q[2] * cz))
    big = rho * 4 * sp.pi * (sp.sin(qn * r) - qn * r * sp.cos(qn * r)) / qn**3 * phase
    small = rho * sp.Rational(4, 3) * sp.pi * r**3 * phase
    tol = sp.Rational(1, 10**8)
    for p in chk.explore(fkey, run, assumptions=QD.facts()):
        if p.kind != "return":
            chk.path_raised(fkey, p)
            continue
        t = path_tag(p)
        res = p.value
        ok = isinstance(res, SymArr) and res.axes == (QD,)
        chk.record(f"Sphere.ff:one_value_per_wave_vector[{t}]", fkey, "proved" if ok else "refuted", "shape", model={})
        if not ok:
            continue
        e = to_expr(res.inner[()])
        e = e.rewrite(sp.sin) if False else e
        pieces = _pieces(e)
        if pieces is None:
            chk.record(f"Sphere.ff:branch_structure[{t}]", fkey, "refuted", "structure", detail=str(e)[:300], model={})
            continue
        (val_small, cond_small), val_big = pieces
        chk.prove(f"Sphere.ff:small_q_branch_is_isclose[{t}]", fkey, p.pc, sp.Equivalent(cond_small, sp.Le(sp.Abs(q2), tol)))
        chk.prove_eq(f"Sphere.ff:zero_q_is_density_times_volume_times_phase[{t}]", fkey, p.pc, val_small, small)
        chk.prove_eq(f"Sphere.ff:closed_form_is_transform_of_ball[{t}]", fkey, p.pc, _unsinc(val_big), big)
        chk.prove_eq(f"Sphere.ff:F(0)=volume*density[{t}]", fkey, p.pc, val_small.subs({q[0]: 0, q[1]: 0, q[2]: 0}),
                     rho * sp.Rational(4, 3) * sp.pi * r**3)
        # consequences, on each branch
        for nm, v in (("small", val_small), ("large", _unsinc(val_big))):
            chk.prove_eq(f"Sphere.ff:density_linear[{nm}][{t}]", fkey, p.pc, v, rho * v.subs(rho, 1))
            at0 = v.subs({cx: 0, cy: 0, cz: 0})
            chk.prove_eq(f"Sphere.ff:translation_phase[{nm}][{t}]", fkey, p.pc, v, at0 * phase)
            neg = v.subs({q[j]: -q[j] for j in range(3)}, simultaneous=True)
            # |q| is a non-negative real: name it so that conjugation can be evaluated symbolically
            Qn = sp.Symbol("Qn", positive=True)
            vv, nn = v.subs(qn, Qn), neg.subs(qn, Qn)
            chk.prove_eq(f"Sphere.ff:conjugate_symmetry[{nm}][{t}]", fkey, p.pc, sp.expand(nn), sp.expand(sp.conjugate(vv)))


def _pieces(e):
    """(value, condition) of the small-q branch and the value of the other branch of the masked assembly"""
    pw = [x for x in sp.preorder_traversal(e) if isinstance(x, sp.Piecewise)]
    if not pw:
        return None
    # form_factor[zero] = A ; form_factor[~zero] = B ; form_factor *= C   ->   C * Piecewise((B, ~zero), (Piecewise((A, zero), ...)))
    outer = pw[0]
    try:
        (b_val, b_cond), (rest, _) = outer.args
        inner = rest if isinstance(rest, sp.Piecewise) else [x for x in sp.preorder_traversal(rest) if isinstance(x, sp.Piecewise)][0]
        (a_val, a_cond), _ = inner.args
    except Exception:  # noqa: BLE001
        return None
    factor = sp.simplify(e / outer) if e != outer else sp.Integer(1)
    if factor.has(sp.Piecewise):
        return None
    return (sp.expand(factor * a_val), a_cond), sp.expand(factor * b_val)


def _unsinc(e):
    """numpy's sinc: sinc(x) = sin(pi x)/(pi x); the model writes it as sympy sinc(pi*x') = sin(y)/y"""
    return e.replace(lambda x: isinstance(x, sp.sinc), lambda x: sp.sin(x.args[0]) / x.args[0])


def run(chk):
    chk.trusted += ["float64 arithmetic treated as exact real arithmetic",
                    "the Fourier transform of a ball of radius R at c is 4 pi (sin qR - qR cos qR)/q^3 exp(-i q.c) (closed form, mathematics)",
                    "exp, sin, cos are uninterpreted; sinc(x) = sin(x)/x; conjugation of exp(-i x) for real x"]
    sphere(chk)
    from .bounded_c12 import run_bounded
    run_bounded(chk)
