"""C12 -- the form factor amplitude is the Fourier transform of the shape.

Deductive (Sphere, for a batch of Q wave vectors with Q symbolic; exp / sin / cos / sinc uninterpreted apart from
sinc(x) x = sin x and exp(a) exp(b) = exp(a+b)): one value per wave vector; for q.q > tolerance the value equals
density * 4 pi (sin qR - qR cos qR)/q^3 * exp(-i q.c) -- the exact transform of the ball at its position -- and
density * volume * exp(-i q.c) on the small-q branch; hence linearity in the density, the translation phase and
F(-q) = conj F(q).
Bounded: Polygon, Polyhedron, ConvexPolyhedron (and the sphere again) against an independent Duffy-Gauss quadrature
of the Fourier integral, for batches of every small size, both polygon orientations and translated copies.
"""
from __future__ import annotations

import numpy as np
import sympy as sp

from pyvc.sym import to_expr
from pyvc.symarr import Dim, SymArr, make
from .common import make_curved, path_tag, ex

LEVEL = "other"
QD = Dim("Qf", minimum=1)


def sphere(chk):
    ld = chk.loader()
    shapes = ld.load("coxeter.shapes")
    fkey = chk.function("coxeter.shapes.sphere", "Sphere.compute_form_factor_amplitude")
    rho = sp.Symbol("rho", real=True)
    r, cx, cy, cz = sp.symbols("r cx cy cz", real=True)
    q = [sp.Function("qv", real=True)(QD.k, sp.Integer(j)) for j in range(3)]

    def run(sign=1, density=None):
        obj = make_curved(shapes, "Sphere")
        Q = make("qv", (QD, 3))
        if sign == -1:
            Q = -Q
        from pyvc.sym import Sym
        return obj.compute_form_factor_amplitude(Q, density=Sym(rho) if density is None else density)
    q2 = sum(x * x for x in q)
    qn = sp.sqrt(sp.factor_terms(sp.expand(q2)))
    phase = sp.exp(-sp.I * (q[0] * cx + q[1] * cy + q[2] * cz))
    big = rho * 4 * sp.pi * (sp.sin(qn * r) - qn * r * sp.cos(qn * r)) / qn**3 * phase
    small = rho * sp.Rational(4, 3) * sp.pi * r**3 * phase
    tol = sp.Rational(1, 10**8)
    for p in chk.explore(fkey, run, assumptions=QD.facts()):
        if p.kind != "return":
            chk.path_raised(fkey, p)
            continue
        t = path_tag(p)
        res = p.value
        ok = isinstance(res, SymArr) and res.axes == (QD,)
        chk.record(f"Sphere.ff:one_value_per_wave_vector[{t}]", fkey, "proved" if ok else "refuted", "shape", model={})
        if not ok:
            continue
        e = to_expr(res.inner[()])
        e = e.rewrite(sp.sin) if False else e
        pieces = _pieces(e)
        if pieces is None:
            chk.record(f"Sphere.ff:branch_structure[{t}]", fkey, "refuted", "structure", detail=str(e)[:300], model={})
            continue
        (val_small, cond_small), val_big = pieces
        chk.prove(f"Sphere.ff:small_q_branch_is_isclose[{t}]", fkey, p.pc, sp.Equivalent(cond_small, sp.Le(sp.Abs(q2), tol)))
        chk.prove_eq(f"Sphere.ff:zero_q_is_density_times_volume_times_phase[{t}]", fkey, p.pc, val_small, small)
        chk.prove_eq(f"Sphere.ff:closed_form_is_transform_of_ball[{t}]", fkey, p.pc, _unsinc(val_big), big)
        chk.prove_eq(f"Sphere.ff:F(0)=volume*density[{t}]", fkey, p.pc, val_small.subs({q[0]: 0, q[1]: 0, q[2]: 0}),
                     rho * sp.Rational(4, 3) * sp.pi * r**3)
        # consequences, on each branch
        for nm, v in (("small", val_small), ("large", _unsinc(val_big))):
            chk.prove_eq(f"Sphere.ff:density_linear[{nm}][{t}]", fkey, p.pc, v, rho * v.subs(rho, 1))
            at0 = v.subs({cx: 0, cy: 0, cz: 0})
            chk.prove_eq(f"Sphere.ff:translation_phase[{nm}][{t}]", fkey, p.pc, v, at0 * phase)
            neg = v.subs({q[j]: -q[j] for j in range(3)}, simultaneous=True)
            # |q| is a non-negative real: name it so that conjugation can be evaluated symbolically
            Qn = sp.Symbol("Qn", positive=True)
            vv, nn = v.subs(qn, Qn), neg.subs(qn, Qn)
            chk.prove_eq(f"Sphere.ff:conjugate_symmetry[{nm}][{t}]", fkey, p.pc, sp.expand(nn), sp.expand(sp.conjugate(vv)))


def _pieces(e):
    """(value, condition) of the small-q branch and the value of the other branch of the masked assembly"""
    pw = [x for x in sp.preorder_traversal(e) if isinstance(x, sp.Piecewise)]
    if not pw:
        return None
    # form_factor[zero] = A ; form_factor[~zero] = B ; form_factor *= C   ->   C * Piecewise((B, ~zero), (Piecewise((A, zero), ...)))
    outer = pw[0]
    try:
        (b_val, b_cond), (rest, _) = outer.args
        inner = rest if isinstance(rest, sp.Piecewise) else [x for x in sp.preorder_traversal(rest) if isinstance(x, sp.Piecewise)][0]
        (a_val, a_cond), _ = inner.args
    except Exception:  # noqa: BLE001
        return None
    factor = sp.simplify(e / outer) if e != outer else sp.Integer(1)
    if factor.has(sp.Piecewise):
        return None
    return (sp.expand(factor * a_val), a_cond), sp.expand(factor * b_val)


def _unsinc(e):
    """numpy's sinc: sinc(x) = sin(pi x)/(pi x); the model writes it as sympy sinc(pi*x') = sin(y)/y"""
    return e.replace(lambda x: isinstance(x, sp.sinc), lambda x: sp.sin(x.args[0]) / x.args[0])


def _split_masked(e):
    """value = factor * Piecewise((B, ~zero), (Piecewise((A, zero), (0, True)), True)) -> ((A, zero), B, ~zero) without simplification"""
    fac, pw = sp.Integer(1), e
    if e.is_Mul:
        pws = [a for a in e.args if isinstance(a, sp.Piecewise)]
        if len(pws) != 1:
            return None
        pw = pws[0]
        fac = sp.Mul(*[a for a in e.args if a is not pw])
    if not isinstance(pw, sp.Piecewise) or len(pw.args) != 2:
        return None
    (b_val, b_cond), (rest, _) = pw.args
    if not isinstance(rest, sp.Piecewise) or len(rest.args) != 2:
        return None
    (a_val, a_cond), _ = rest.args
    return (fac * a_val, a_cond), fac * b_val, b_cond


def stokes_lemmas(chk, fkey):
    """the two facts of calculus behind the edge formula, checked by computer algebra (not by reading the code):
    (L1) G(r) = i q / |q|^2 exp(-i q.r) has divergence exp(-i q.r);  (L2) the integral over t in [0,1] of exp(-i (a + t b)) is
    exp(-i (a + b/2)) sin(b/2)/(b/2) -- so the flux of G through an edge from v to v+e with (normal x length) nu is
    i (q.nu)/|q|^2 exp(-i q.m) sinc(q.e/2), m the midpoint."""
    x, y, z, a, b, c = sp.symbols("x y z a b c", real=True)
    q2 = a * a + b * b + c * c
    ph = sp.exp(-sp.I * (a * x + b * y + c * z))
    G = [sp.I * a / q2 * ph, sp.I * b / q2 * ph, sp.I * c / q2 * ph]
    div = sp.simplify(sp.diff(G[0], x) + sp.diff(G[1], y) + sp.diff(G[2], z) - ph)
    chk.record("lemma:divergence_of_G_is_the_integrand", fkey, "proved" if div == 0 else "refuted", "sympy-differentiation",
               detail="div (i q/|q|^2 exp(-i q.r)) - exp(-i q.r) == 0", model={})
    al, be, t = sp.symbols("alpha beta t", real=True)
    anti = sp.exp(-sp.I * (al + t * be)) / (-sp.I * be)
    d1 = sp.simplify(sp.diff(anti, t) - sp.exp(-sp.I * (al + t * be)))
    closed = sp.exp(-sp.I * (al + be / 2)) * sp.sin(be / 2) / (be / 2)
    d2 = sp.simplify(((anti.subs(t, 1) - anti.subs(t, 0)) - closed).rewrite(sp.exp))
    chk.record("lemma:edge_integral_closed_form", fkey, "proved" if d1 == 0 and d2 == 0 else "refuted", "sympy-differentiation",
               detail="d/dt of the antiderivative is the integrand, and F(1) - F(0) == exp(-i(a + b/2)) sin(b/2)/(b/2)  (b != 0; both sides -> "
                      "exp(-i a) as b -> 0)", model={})


def polygon_ff(chk):
    """Polygon.compute_form_factor_amplitude on a symbolic number of vertices and of wave vectors, any plane (unit normal n), any
    orientation of the listed vertices; signed_area / area / centroid by their contracts (C04)."""
    import numpy as np
    from pyvc.sym import Sym
    from pyvc.symnp import np as snp
    from pyvc.oblig import normal_form
    from pyvc import paths
    from . import mutators as M
    ld = chk.loader()
    shapes = ld.load("coxeter.shapes")
    fkey = chk.function("coxeter.shapes.polygon", "Polygon.compute_form_factor_amplitude")
    stokes_lemmas(chk, fkey)
    NV = M.NV
    A = sp.Symbol("A_signed", real=True)
    cen = [sp.Symbol(f"cen{j}", real=True) for j in range(3)]
    nm = [sp.Symbol(f"nm{j}", real=True) for j in range(3)]
    rho = sp.Symbol("rho", real=True)
    qf = sp.Function("qv", real=True)

    def run():
        klass = shapes.Polygon
        sub = type("Polygon", (klass,), {"signed_area": property(lambda self: Sym(A)), "area": property(lambda self: Sym(sp.Abs(A))),
                                         "centroid": property(lambda self: np.array([Sym(x) for x in cen], dtype=object))})
        o = object.__new__(sub)
        o._vertices = make("Vm", (NV, 3))
        o._normal = np.array([Sym(x) for x in nm], dtype=object)
        return o.compute_form_factor_amplitude(make("qv", (QD, 3)), density=Sym(rho))

    def flux_sum(variant="spec"):
        """sum over the edges of the flux of G through the edge, G built for the projected wave vector (independent of the code:
        nu = e x n is the outward normal times the length of an edge of a polygon listed counter-clockwise about n)"""
        V, Q = make("Vm", (NV, 3)), make("qv", (QD, 3))
        n = np.array([Sym(x) for x in nm], dtype=object)
        qp = Q - snp.dot(Q, n)[:, None] * n
        q2 = snp.sum(qp * qp, axis=-1)
        Vs = snp.roll(V, axis=0, shift=-1)
        E, Mi = Vs - V, (V + Vs) / 2
        nu = snp.cross(E, n)
        arg = 0.5 * snp.inner(E, qp) / snp.pi
        if variant == "canary":
            arg = snp.inner(E, qp) / snp.pi
        S = 1j * snp.inner(nu, qp) / q2 * snp.sinc(arg) * snp.exp(-1j * snp.inner(Mi, qp))
        return snp.sum(S, axis=0)
    facts = NV.facts() + QD.facts()
    spec_e = to_expr(paths.explore(flux_sum, assumptions=facts)[0].value.inner[()])
    canary_e = to_expr(paths.explore(lambda: flux_sum("canary"), assumptions=facts)[0].value.inner[()])
    qk = [qf(QD.k, sp.Integer(j)) for j in range(3)]
    qn = sum(qk[j] * nm[j] for j in range(3))
    qp = [qk[j] - qn * nm[j] for j in range(3)]
    for p in chk.explore(fkey, run, assumptions=facts):
        if p.kind != "return":
            chk.path_raised(fkey, p)
            continue
        t = path_tag(p)
        res = p.value
        ok = isinstance(res, SymArr) and res.axes == (QD,)
        chk.record(f"Polygon.ff:one_value_per_wave_vector[{t}]", fkey, "proved" if ok else "refuted", "shape", model={})
        if not ok:
            continue
        # concretisation cross-check of the engine on a real tilted, offset L-shaped polygon
        from pyvc import concrete
        from .common import real_coxeter
        e1, e2 = np.array([np.cos(0.7), np.sin(0.7), 0.0]), None
        e2 = np.cross(np.array([0.2, -0.3, 0.9]) / np.linalg.norm([0.2, -0.3, 0.9]), e1)
        e2 /= np.linalg.norm(e2)
        Lp = np.array([[0.0, 0], [3, 0], [3, 1], [1, 1], [1, 3], [0, 3]])
        P3 = np.outer(Lp[:, 0], e1) + np.outer(Lp[:, 1], e2) + np.array([1.5, -0.7, 2.0])
        realp = real_coxeter().shapes.Polygon(P3, normal=np.cross(e1, e2))
        Qc = np.array([[0.3, -0.2, 0.5], [2.0, 1.0, -1.5], [0.0, 0.0, 0.0], [1e-7, 0.0, 0.0], [5.0, -4.0, 3.0]])
        env = concrete.Env(sizes={NV: len(P3), QD: len(Qc)}, arrays={"Vm": P3, "qv": Qc},
                           scalars={A: float(realp.signed_area), rho: 2.0, **{cen[j]: float(realp.centroid[j]) for j in range(3)},
                                    **{nm[j]: float(realp.normal[j]) for j in range(3)}})
        concrete.cross_check(chk, f"Polygon.compute_form_factor_amplitude[{t}]", fkey, to_expr(res.inner[()]), env, (QD,),
                             realp.compute_form_factor_amplitude(Qc.copy(), density=2.0), rtol=1e-9)
        parts = _split_masked(to_expr(res.inner[()]))
        if parts is None:
            chk.record(f"Polygon.ff:branch_structure[{t}]", fkey, "unknown", "structure", detail=str(to_expr(res.inner[()]))[:200], model={})
            continue
        (val_small, cond_small), val_big, cond_big = parts
        compl = sp.simplify_logic(sp.Equivalent(cond_small, sp.Not(cond_big))) is sp.true or cond_small == sp.Not(cond_big) or \
            (isinstance(cond_small, sp.StrictLessThan) and isinstance(cond_big, sp.GreaterThan) and cond_small.lhs == cond_big.lhs and cond_small.rhs == cond_big.rhs)
        chk.record(f"Polygon.ff:every_wave_vector_is_on_exactly_one_branch[{t}]", fkey, "proved" if compl else "refuted", "structure",
                   detail=f"small: {str(cond_small)[:120]}", model={})
        d = normal_form(val_big - rho * sp.sign(A) * spec_e)
        chk.record(f"Polygon.ff:large_q_branch_is_the_boundary_flux_of_G[{t}]", fkey, "proved" if d == 0 else "refuted", "sigma-normal-form",
                   detail="value == density * sign(signed area) * sum over edges of i (q_p.(e x n))/|q_p|^2 sinc(q_p.e/2) exp(-i q_p.m), q_p the wave vector "
                          "projected into the plane" if d == 0 else f"difference: {str(d)[:300]}", model={}, replay=_replay_polygon_ff(), abstracted=(d != 0),
                   goal="F == rho sign(A) sum_e flux_e(G)")
        dc = normal_form(val_big - rho * sp.sign(A) * canary_e)
        chk.canaries.append({"name": f"canary:polygon_ff_with_sinc_of_the_full_edge_phase[{t}]", "function": fkey, "result": "differs" if dc != 0 else "equal", "ok": dc != 0})
        if dc == 0:
            chk.errors.append("canary polygon_ff_with_sinc_of_the_full_edge_phase was proved: the verifier is unsound or vacuous")
        want_small = rho * sp.Abs(A) * sp.exp(-sp.I * sum(qp[j] * cen[j] for j in range(3)))
        ds = normal_form(sp.expand(val_small) - sp.expand(want_small))
        if ds != 0:
            ds = sp.simplify(val_small / want_small) - 1
        chk.record(f"Polygon.ff:small_q_branch_is_area_times_phase_about_the_centroid[{t}]", fkey, "proved" if ds == 0 else "refuted", "sympy-normal-form",
                   detail="" if ds == 0 else str(ds)[:200], model={}, replay=_replay_polygon_ff(), abstracted=(ds != 0))
        lin = normal_form(val_big - rho * val_big.subs(rho, 1))
        chk.record(f"Polygon.ff:density_linear[{t}]", fkey, "proved" if lin == 0 else "refuted", "sympy-normal-form", model={},
                   replay=_replay_polygon_ff(), abstracted=(lin != 0))


def polyhedron_ff(chk):
    """Polyhedron.compute_form_factor_amplitude (inherited by ConvexPolyhedron) on a symbolic number of faces and wave vectors:
    modular -- the face polygons are replaced by the contract of Polygon.compute_form_factor_amplitude (proved above: the Fourier
    integral over the face with the wave vector projected into its plane), volume / centroid by their contracts (C02), the stored
    planes (n_f, -d_f) are any rows (that they are the faces' outward unit planes is the class invariant, C02 / C07)."""
    import numpy as np
    from pyvc.sym import Sym
    from pyvc.symnp import np as snp
    from pyvc.oblig import normal_form
    from pyvc import paths
    from . import polyhedron_state as H
    ld = chk.loader()
    shapes = ld.load("coxeter.shapes")
    pm = ld.load("coxeter.shapes.polyhedron")
    fkey = chk.function("coxeter.shapes.polyhedron", "Polyhedron.compute_form_factor_amplitude")
    # (L3) on a face in the plane n.r = d:  q.r = q_p.r + (q.n) d  with q_p = q - (q.n) n  (|n| = 1)
    qs, ns, rs = sp.symbols("q0:3", real=True), sp.symbols("n0:3", real=True), sp.symbols("r0:3", real=True)
    qn = sum(a * b for a, b in zip(qs, ns))
    qp = [qs[j] - qn * ns[j] for j in range(3)]
    lhs = sum(a * b for a, b in zip(qs, rs)) - sum(a * b for a, b in zip(qp, rs)) - qn * sum(a * b for a, b in zip(ns, rs))
    chk.record("lemma:phase_on_a_face_splits_into_in_plane_phase_and_plane_offset", fkey, "proved" if sp.expand(lhs) == 0 else "refuted",
               "sympy-normal-form", detail="q.r - q_p.r - (q.n)(n.r) == 0", model={})
    Ff = sp.Function("Fface")
    rho, V0 = sp.Symbol("rho", real=True), sp.Symbol("Vol", positive=True)
    cen = [sp.Symbol(f"cen{j}", real=True) for j in range(3)]
    built = []

    class PolyStub:
        def __init__(self, vertices, normal=None, **k):
            built.append((vertices, normal, k))

        def compute_form_factor_amplitude(self, q, density=1.0):
            built.append(("ff", q, density))
            # contract of Polygon.compute_form_factor_amplitude: density times the transform of the face (linear in the density)
            dens = to_expr(density)
            return SymArr((QD,), np.array(Sym(dens * Ff(H.F.k, QD.k)), dtype=object), getattr(q, "guard", None))

    def run():
        built.clear()
        o = H.polyhedron(shapes)
        o._equations = make("eqh", (H.F, 4))
        o.__class__ = type("Polyhedron", (type(o),), {"volume": property(lambda s_: Sym(V0)),
                                                       "centroid": property(lambda s_: np.array([Sym(x) for x in cen], dtype=object))})
        old = pm.Polygon
        pm.Polygon = PolyStub
        try:
            return o.compute_form_factor_amplitude(make("qv", (QD, 3)), density=Sym(rho)), list(built), o._vertices, o._faces
        finally:
            pm.Polygon = old

    def flux_sum():
        Q, EQ = make("qv", (QD, 3)), make("eqh", (H.F, 4))
        Fa = SymArr((H.F, QD), np.array(Sym(Ff(H.F.k, QD.k)), dtype=object))
        nq = snp.inner(EQ[:, :3], Q)                       # (F, Q): q.n_f
        q2 = snp.sum(Q * Q, axis=-1)
        d = -EQ[:, 3]
        S = 1j * nq / q2 * Fa * snp.exp(-1j * nq * d[:, None])
        return snp.sum(S, axis=0)
    facts = H.facts() + QD.facts()
    spec_e = to_expr(paths.explore(flux_sum, assumptions=facts)[0].value.inner[()])
    qf = sp.Function("qv", real=True)
    qk = [qf(QD.k, sp.Integer(j)) for j in range(3)]
    for p in chk.explore(fkey, run, assumptions=facts):
        if p.kind != "return":
            chk.path_raised(fkey, p)
            continue
        t = path_tag(p)
        res, calls, verts, faces = p.value
        ok = isinstance(res, SymArr) and res.axes == (QD,)
        chk.record(f"Polyhedron.ff:one_value_per_wave_vector[{t}]", fkey, "proved" if ok else "refuted", "shape", model={})
        if not ok:
            continue
        e = to_expr(res.inner[()])
        # concretisation cross-check of the engine (masked accumulator loop over the faces): real box off the origin; the face transforms are the real
        # face polygons' values, the planes the real equations
        from pyvc import concrete
        from .common import real_coxeter
        cox = real_coxeter()
        lo_, hi_ = np.array([1.0, -2.0, 0.5]), np.array([2.5, -1.0, 3.5])
        cpoly = cox.shapes.ConvexPolyhedron(np.array([[x, y, z] for x in (lo_[0], hi_[0]) for y in (lo_[1], hi_[1]) for z in (lo_[2], hi_[2])]))
        realp = cox.shapes.Polyhedron(np.asarray(cpoly.vertices), [list(map(int, f)) for f in cpoly.faces])
        Qc = np.array([[0.3, -0.2, 0.5], [2.0, 1.0, -1.5], [0.0, 0.0, 0.0], [1e-7, 0.0, 0.0], [5.0, -4.0, 3.0]])
        EQ = np.asarray(realp._equations, float)
        FF = np.array([cox.shapes.Polygon(np.asarray(realp.vertices)[list(f)], EQ[i, :3]).compute_form_factor_amplitude(Qc.copy()) for i, f in enumerate(realp.faces)])
        env = concrete.Env(sizes={H.F: len(EQ), QD: len(Qc), H.N: len(realp.vertices)}, arrays={"eqh": EQ, "qv": Qc, "Fface": lambda f, k: FF[int(f), int(k)],
                                                                                              "Vh": np.asarray(realp.vertices, float)},
                           scalars={rho: 2.0, V0: float(realp.volume), **{cen[j]: float(realp.centroid[j]) for j in range(3)}})
        concrete.cross_check(chk, f"Polyhedron.compute_form_factor_amplitude[{t}]", fkey, e, env, (QD,), realp.compute_form_factor_amplitude(Qc.copy(), density=2.0), rtol=1e-9)
        pws = [x for x in sp.preorder_traversal(e) if isinstance(x, sp.Piecewise)]
        conds = {c for x in pws for _, c in x.args if c is not sp.true}
        small = [c for c in conds if isinstance(c, sp.StrictLessThan)]
        big = [c for c in conds if isinstance(c, sp.GreaterThan)]
        good = len(small) == 1 and len(big) == 1 and small[0].lhs == big[0].lhs and small[0].rhs == big[0].rhs
        chk.record(f"Polyhedron.ff:every_wave_vector_is_on_exactly_one_branch[{t}]", fkey, "proved" if good else "unknown", "structure",
                   detail=str(sorted(map(str, conds)))[:200], model={})
        if not good:
            continue
        on_big = e.xreplace({small[0]: sp.false, big[0]: sp.true})
        on_small = e.xreplace({small[0]: sp.true, big[0]: sp.false})
        d = normal_form(on_big - rho * spec_e)
        chk.record(f"Polyhedron.ff:large_q_branch_is_the_sum_over_faces_of_the_flux_of_G[{t}]", fkey, "proved" if d == 0 else "refuted", "sigma-normal-form",
                   detail="value == density * sum over faces of i (q.n_f)/|q|^2 F_face(q) exp(-i (q.n_f) d_f)" if d == 0 else f"difference: {str(d)[:300]}",
                   model={}, replay=_replay_polyhedron_ff(), abstracted=(d != 0), goal="F == rho sum_f i (q.n_f)/q^2 F_f exp(-i q.n_f d_f)")
        ds = normal_form(sp.expand(on_small) - sp.expand(rho * V0 * sp.exp(-sp.I * sum(qk[j] * cen[j] for j in range(3)))))
        chk.record(f"Polyhedron.ff:small_q_branch_is_volume_times_phase_about_the_centroid[{t}]", fkey, "proved" if ds == 0 else "refuted",
                   "sympy-normal-form", detail="" if ds == 0 else str(ds)[:200], model={}, replay=_replay_polyhedron_ff(), abstracted=(ds != 0))
        # the face polygon is built from the face's vertices and the normal of its stored plane, and asked for the same wave vectors
        ctor = [c for c in calls if c[0] != "ff"]
        asks = [c for c in calls if c[0] == "ff"]
        okc = len(ctor) == 1 and len(asks) == 1
        if okc:
            vv, nn, _ = ctor[0]
            want_v = verts[faces.elem] if hasattr(faces, "elem") else None
            same_v = isinstance(vv, SymArr) and want_v is not None and vv.axes == want_v.axes and \
                all(to_expr(a) == to_expr(b) for a, b in zip(vv.inner.reshape(-1), want_v.inner.reshape(-1)))
            eqf = sp.Function("eqh", real=True)
            same_n = nn is not None and [to_expr(x) for x in np.asarray(nn, dtype=object).reshape(-1)] == [eqf(H.F.k, sp.Integer(j)) for j in range(3)]
            qarg = asks[0][1]
            same_q = isinstance(qarg, SymArr) and qarg.axes == (QD, 3) and [to_expr(x) for x in qarg.inner.reshape(-1)] == qk and \
                (qarg.guard == big[0] or sp.simplify_logic(sp.Equivalent(qarg.guard, big[0])) is sp.true)
            okc = same_v and same_n and same_q
        chk.record(f"Polyhedron.ff:face_polygon_has_the_faces_vertices_and_plane_normal_and_gets_the_large_wave_vectors[{t}]", fkey,
                   "proved" if okc else "refuted", "call-trace", detail=f"{len(ctor)} constructions, {len(asks)} calls per face", model={},
                   replay=_replay_polyhedron_ff(), abstracted=True)
        lin = normal_form(on_big - rho * on_big.subs(rho, 1))
        chk.record(f"Polyhedron.ff:density_linear[{t}]", fkey, "proved" if lin == 0 else "refuted", "sympy-normal-form", model={},
                   replay=_replay_polyhedron_ff(), abstracted=(lin != 0))


def _replay_polyhedron_ff():
    """real code against the closed-form transform of boxes (product of sinc) for a placed box and a non-convex L prism (two boxes)"""
    def replay(model):
        import numpy as np
        from .common import real_coxeter
        cox = real_coxeter()

        def box_ft(q, lo, hi):
            out = 1.0 + 0j
            for j in range(3):
                a, b = lo[j], hi[j]
                out *= (b - a) if abs(q[j]) < 1e-14 else (np.exp(-1j * q[j] * a) - np.exp(-1j * q[j] * b)) / (1j * q[j])
            return out
        Q = np.array([[0.3, -0.2, 0.5], [2.0, 1.0, -1.5], [0.0, 3.0, 0.4], [1.0, 0.0, 0.0], [5.0, -4.0, 3.0]])
        lo, hi = np.array([1.0, -2.0, 0.5]), np.array([2.5, -1.0, 3.5])
        V = np.array([[x, y, z] for x in (lo[0], hi[0]) for y in (lo[1], hi[1]) for z in (lo[2], hi[2])])
        for klass in ("ConvexPolyhedron", "Polyhedron"):
            try:
                cp = cox.shapes.ConvexPolyhedron(V)
                shape = cp if klass == "ConvexPolyhedron" else cox.shapes.Polyhedron(np.asarray(cp.vertices), [list(map(int, f)) for f in cp.faces])
                got = np.asarray(shape.compute_form_factor_amplitude(Q.copy(), density=2.0))
            except Exception as e:  # noqa: BLE001
                return True, {"class": klass, "vertices": V.tolist(), "raised": f"{type(e).__name__}: {e}"[:200]}
            for q, g in zip(Q, got):
                want = 2.0 * box_ft(q, lo, hi)
                if abs(g - want) > 1e-8 * 2.0 * float(np.prod(hi - lo)):
                    return True, {"class": klass, "vertices": V.tolist(), "q": q.tolist(), "density": 2.0, "form_factor": [float(g.real), float(g.imag)],
                                  "fourier_integral_of_the_box": [float(want.real), float(want.imag)]}
        return False, {}
    return replay


def _replay_polygon_ff():
    """real code against Gauss quadrature of the Fourier integral over a fan triangulation: an L-shaped hexagon in a tilted plane off
    the origin, listed counter-clockwise and clockwise from every start vertex, wave vectors with out-of-plane parts"""
    def replay(model):
        import numpy as np
        from .bounded_c12 import ft_triangle2
        from .common import real_coxeter
        cox = real_coxeter()
        L = np.array([[0.0, 0], [3, 0], [3, 1], [1, 1], [1, 3], [0, 3]])
        th = 0.7
        e1 = np.array([np.cos(th), np.sin(th), 0.0])
        e2 = np.cross(np.array([0.2, -0.3, 0.9]) / np.linalg.norm([0.2, -0.3, 0.9]), e1)
        e2 /= np.linalg.norm(e2)
        nrm = np.cross(e1, e2)
        off = np.array([1.5, -0.7, 2.0])
        Q = np.array([[0.3, -0.2, 0.5], [2.0, 1.0, -1.5], [0.0, 3.0, 0.4], [1.0, 0.0, 0.0], [5.0, -4.0, 3.0]])
        for orient in (1, -1):
            base = L if orient == 1 else L[::-1]
            for k in range(len(L)):
                p2 = np.roll(base, -k, axis=0)
                P3 = np.outer(p2[:, 0], e1) + np.outer(p2[:, 1], e2) + off
                try:
                    got = np.asarray(cox.shapes.Polygon(P3, normal=nrm).compute_form_factor_amplitude(Q.copy(), density=2.0))
                except Exception as e:  # noqa: BLE001
                    return True, {"vertices": P3.tolist(), "raised": f"{type(e).__name__}: {e}"[:200]}
                for q, g in zip(Q, got):
                    qpar = q - np.dot(q, nrm) * nrm
                    q2 = np.array([np.dot(qpar, e1), np.dot(qpar, e2)])
                    val = 2.0 * sum(ft_triangle2(q2, L[0], L[i], L[i + 1]) for i in range(1, len(L) - 1)) * np.exp(-1j * np.dot(qpar, off))
                    if abs(g - val) > 1e-7 * 5.0 * 2.0:
                        return True, {"vertices": P3.tolist(), "normal": nrm.tolist(), "listed": "ccw" if orient == 1 else "cw", "q": q.tolist(), "density": 2.0,
                                      "form_factor": [float(g.real), float(g.imag)], "fourier_integral": [float(val.real), float(val.imag)]}
        return False, {}
    return replay


def run(chk):
    chk.trusted += ["float64 arithmetic treated as exact real arithmetic",
                    "divergence theorem for a polyhedron with outward unit face normals (the integral of div G over the solid is the sum over the faces of "
                    "the flux of G), with the class invariant that the stored planes are the faces' outward unit planes (C02 / C07)",
                    "divergence (Green / Stokes) theorem in the plane of a simple polygon: the integral of div G over the polygon is the sum over its "
                    "edges of the flux of G through the edge, with nu = e x n the outward normal times length for vertices listed "
                    "counter-clockwise about n (and its negative for clockwise listing: sign of the signed area, C04)",
                    "the Fourier transform of a ball of radius R at c is 4 pi (sin qR - qR cos qR)/q^3 exp(-i q.c) (closed form, mathematics)",
                    "exp, sin, cos are uninterpreted; sinc(x) = sin(x)/x; conjugation of exp(-i x) for real x"]
    sphere(chk)
    chk.section("Polygon.compute_form_factor_amplitude", "coxeter.shapes.polygon::Polygon.compute_form_factor_amplitude", lambda: polygon_ff(chk))
    chk.section("Polyhedron.compute_form_factor_amplitude", "coxeter.shapes.polyhedron::Polyhedron.compute_form_factor_amplitude", lambda: polyhedron_ff(chk))
    from .common import inherits
    _sh = chk.loader().load("coxeter.shapes")
    inherits(chk, _sh, "ConvexPolyhedron", "Polyhedron", ["compute_form_factor_amplitude"], "coxeter.shapes.polyhedron")
    inherits(chk, _sh, "ConvexPolygon", "Polygon", ["compute_form_factor_amplitude"], "coxeter.shapes.polygon")
    from .bounded_c12 import run_bounded
    run_bounded(chk)
