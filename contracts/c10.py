"""C10 -- Circle, Ellipse, Sphere, Ellipsoid measures equal their defining integrals.

Every postcondition is stated against specs.moments (unit-ball moments + affine change of
variables), for symbolic positive semi-axes in every ordering the code distinguishes and a
symbolic centre.  Radii > 0 is not assumed: it is what the real constructor's guard leaves on
the returning paths.
"""
from __future__ import annotations

import sympy as sp

from pyvc import z3back, externals
from pyvc.sym import to_expr
from specs.moments import integrate_ellipsoid, X, Y, Z
from .common import (CURVED, S, make_curved, path_tag, ex, scalar_replay)

cx, cy, cz = sp.symbols("cx cy cz", real=True)
r, a, b, c = sp.symbols("r a b c", real=True)


def _axes(cls):
    return {"Circle": (r, r), "Ellipse": (a, b), "Sphere": (r, r, r), "Ellipsoid": (a, b, c)}[cls]


def _centre(cls):
    return (cx, cy) if cls in ("Circle", "Ellipse") else (cx, cy, cz)


def integral(cls, h):
    return integrate_ellipsoid(h, _centre(cls), _axes(cls))


def _getter_paths(chk, shapes, cls, member, fkey):
    """returning paths of the getter; if the (possibly changed) code leaves the engine's subset the member is recorded as
    undecided and the check continues"""
    def run():
        obj = make_curved(shapes, cls)
        return getattr(obj, member)
    out = []

    def body():
        out.extend(p for p in chk.explore(fkey, run) if p.kind == "return")
    if not chk.section(f"{cls}.{member}", fkey, body):
        return None
    return out


def _order(pc, syms):
    """descending order of the symbols that the path condition entails (ties in any consistent order)"""
    syms = list(syms)
    out = []
    remaining = syms[:]
    while remaining:
        for x in remaining:
            if all(x is y or z3back.prove(pc, sp.Ge(x, y), timeout_ms=5000).status == "unsat" for y in remaining):
                out.append(x)
                remaining.remove(x)
                break
        else:
            return None
    return out


def _replay_ellipsoid_area(model):
    """real Ellipsoid.surface_area against Carlson's symmetric form S = 4 pi R_G(a^2 b^2, a^2 c^2, b^2 c^2) (independent of
    the Legendre formulas) on a grid of axis triples in every order, incl. equal axes, needles and discs"""
    import itertools
    import math
    from scipy.special import elliprg
    from .common import real_coxeter
    cox = real_coxeter()
    vals = [1e-3, 5e-3, 0.02, 0.5, 1.0, 1.0 + 1e-9, 2.5, 40.0, 1e3]
    for a_, b_, c_ in itertools.product(vals, repeat=3):
        want = 4 * math.pi * float(elliprg((a_ * b_)**2, (a_ * c_)**2, (b_ * c_)**2))
        try:
            got = float(cox.shapes.Ellipsoid(a_, b_, c_, (1.5, -2.0, 0.25)).surface_area)
        except Exception as e:  # noqa: BLE001
            return True, {"class": "Ellipsoid", "axes": [a_, b_, c_], "raised": f"{type(e).__name__}: {e}"}
        if not math.isfinite(got) or abs(got - want) > 1e-7 * want:
            return True, {"class": "Ellipsoid", "axes": [a_, b_, c_], "surface_area": got, "carlson_RG_value": want}
    return False, {"searched": "9^3 axis triples"}


def run(chk):
    ld = chk.loader()
    shapes = ld.load("coxeter.shapes")
    chk.trusted += [
        "float64 arithmetic treated as exact real arithmetic (no rounding, overflow, NaN)",
        "moments of the unit disc/ball via the Gamma formula; affine change of variables (specs/moments.py)",
        "boundary measure of a disc/ball = d/dr of its area/volume (Circle.perimeter, Sphere.surface_area)",
        "Legendre-form perimeter of the ellipse 4*max*E(1-min^2/max^2) and surface of the ellipsoid; "
        "scipy.special.ellipe/ellipeinc/ellipkinc are uninterpreted function symbols",
        "pi is a real constant with 3.14159265358979 < pi < 3.14159265358980",
    ]

    # ------------------------------------------------------------------ value == integral clauses
    table = []
    for cls in ("Circle", "Ellipse"):
        table += [
            (cls, "area", "post", lambda v: ex(v), integral(cls, 1), lambda o: o.area),
            (cls, "planar_moments_inertia", "Ix", lambda v: ex(v[0]), integral(cls, Y**2),
             lambda o: o.planar_moments_inertia[0]),
            (cls, "planar_moments_inertia", "Iy", lambda v: ex(v[1]), integral(cls, X**2),
             lambda o: o.planar_moments_inertia[1]),
            (cls, "planar_moments_inertia", "Ixy", lambda v: ex(v[2]), integral(cls, X * Y),
             lambda o: o.planar_moments_inertia[2]),
            (cls, "polar_moment_inertia", "post", lambda v: ex(v), integral(cls, X**2 + Y**2),
             lambda o: o.polar_moment_inertia),
            (cls, "inertia_tensor", "zz", lambda v: ex(v[2, 2]), integral(cls, X**2 + Y**2),
             lambda o: o.inertia_tensor[2, 2]),
        ]
    table += [
        ("Circle", "perimeter", "post", lambda v: ex(v), sp.diff(integral("Circle", 1), r), lambda o: o.perimeter),
        ("Circle", "circumference", "post", lambda v: ex(v), sp.diff(integral("Circle", 1), r),
         lambda o: o.circumference),
        ("Circle", "eccentricity", "post", lambda v: ex(v), sp.Integer(0), lambda o: o.eccentricity),
        ("Circle", "iq", "post", lambda v: ex(v), sp.Integer(1), lambda o: o.iq),
        ("Sphere", "volume", "post", lambda v: ex(v), integral("Sphere", 1), lambda o: o.volume),
        ("Sphere", "surface_area", "post", lambda v: ex(v), sp.diff(integral("Sphere", 1), r),
         lambda o: o.surface_area),
        ("Sphere", "iq", "post", lambda v: ex(v), sp.Integer(1), lambda o: o.iq),
        ("Ellipsoid", "volume", "post", lambda v: ex(v), integral("Ellipsoid", 1), lambda o: o.volume),
    ]
    coords = (X, Y, Z)
    for cls in ("Sphere", "Ellipsoid"):
        for i in range(3):
            for j in range(3):
                h = (X**2 + Y**2 + Z**2 if i == j else 0) - coords[i] * coords[j]
                table.append((cls, "inertia_tensor", f"[{i}{j}]",
                              (lambda v, i=i, j=j: ex(v[i, j])), integral(cls, h),
                              (lambda o, i=i, j=j: o.inertia_tensor[i, j])))

    # inherited members are verified in the context of the subclass that uses them
    where = {"polar_moment_inertia": ("coxeter.shapes.base_classes", "Shape2D.polar_moment_inertia[get]"),
             "inertia_tensor2d": ("coxeter.shapes.base_classes", "Shape2D.inertia_tensor[get]")}
    cache = {}
    for cls, member, clause, extract, spec, observe in table:
        mod = CURVED[cls][0]
        if member == "polar_moment_inertia":
            fkey = chk.function(*where[member])
        elif member == "inertia_tensor" and cls in ("Circle", "Ellipse"):
            fkey = chk.function(*where["inertia_tensor2d"])
        else:
            fkey = chk.function(mod, f"{cls}.{member}[get]")
        key = (cls, member)
        if key not in cache:
            cache[key] = _getter_paths(chk, shapes, cls, member, fkey)
            if cache[key] is not None and not cache[key]:
                chk.errors.append(f"{cls}.{member}: no returning path")
        for p in cache[key] or []:
            name = f"{cls}.{member}:{clause}" + (f"[{path_tag(p)}]" if len(cache[key]) > 1 else "")
            chk.prove_eq(name, fkey, p.pc, extract(p.value), spec,
                         replay=scalar_replay(cls, observe, spec))

    # ------------------------------------------------------------------ known deviation (see known_findings.json)
    # what the code does instead of the parallel-axis theorem: the x offset is added to I_x and the y
    # offset to I_y.  Proving this pins the behaviour, so any *other* change is still reported.
    for cls in ("Circle", "Ellipse"):
        fkey = chk.function(CURVED[cls][0], f"{cls}.planar_moments_inertia[get]")
        area = integral(cls, 1)
        centred = {X: X - cx, Y: Y - cy}
        ix0 = integral(cls, ((Y - cy) ** 2))
        iy0 = integral(cls, ((X - cx) ** 2))
        for p in cache[(cls, "planar_moments_inertia")] or []:
            chk.prove_eq(f"{cls}.planar_moments_inertia:Ix:deviation", fkey, p.pc, ex(p.value[0]), ix0 + area * cx**2)
            chk.prove_eq(f"{cls}.planar_moments_inertia:Iy:deviation", fkey, p.pc, ex(p.value[1]), iy0 + area * cy**2)

    # ------------------------------------------------------------------ Ellipse: eccentricity, perimeter, iq
    E = externals.ellipe_f
    fk_e = chk.function("coxeter.shapes.ellipse", "Ellipse.eccentricity[get]")
    for p in _getter_paths(chk, shapes, "Ellipse", "eccentricity", fk_e) or []:
        order = _order(p.pc, (a, b))
        big, small = order
        spec = sp.sqrt(1 - small**2 / big**2)
        chk.prove_eq(f"Ellipse.eccentricity:post[{path_tag(p)}]", fk_e, p.pc, ex(p.value), spec,
                     replay=scalar_replay("Ellipse", lambda o: o.eccentricity, sp.sqrt(1 - sp.Min(a, b)**2 / sp.Max(a, b)**2)))
    fk_p = chk.function("coxeter.shapes.ellipse", "Ellipse.perimeter[get]")
    per_paths = _getter_paths(chk, shapes, "Ellipse", "perimeter", fk_p) or []
    for p in per_paths:
        big, small = _order(p.pc, (a, b))
        spec = 4 * big * E(1 - small**2 / big**2)
        chk.prove_eq(f"Ellipse.perimeter:post[{path_tag(p)}]", fk_p, p.pc, ex(p.value), spec)
    fk_c = chk.function("coxeter.shapes.ellipse", "Ellipse.circumference[get]")
    for p in _getter_paths(chk, shapes, "Ellipse", "circumference", fk_c) or []:
        big, small = _order(p.pc, (a, b))
        chk.prove_eq(f"Ellipse.circumference:post[{path_tag(p)}]", fk_c, p.pc, ex(p.value),
                     4 * big * E(1 - small**2 / big**2))
    fk_q = chk.function("coxeter.shapes.ellipse", "Ellipse.iq[get]")
    for p in _getter_paths(chk, shapes, "Ellipse", "iq", fk_q) or []:
        big, small = _order(p.pc, (a, b))
        per = 4 * big * E(1 - small**2 / big**2)
        quotient = 4 * sp.pi * integral("Ellipse", 1) / per**2
        chk.prove(f"Ellipse.iq:le_one[{path_tag(p)}]", fk_q, p.pc, sp.Le(ex(p.value), 1))
        chk.prove(f"Ellipse.iq:is_quotient_capped[{path_tag(p)}]", fk_q, p.pc,
                  sp.Eq(ex(p.value), sp.Min(quotient, 1)))

    # ------------------------------------------------------------------ Ellipsoid surface: Legendre form, all orderings
    EI, KI = externals.ellipeinc_f, externals.ellipkinc_f
    fk_s = chk.function("coxeter.shapes.ellipsoid", "Ellipsoid.surface_area[get]")
    sa_paths = _getter_paths(chk, shapes, "Ellipsoid", "surface_area", fk_s) or []
    seen_orders = set()
    for p in sa_paths:
        order = _order(p.pc, (a, b, c))
        if order is None:
            chk.record(f"Ellipsoid.surface_area:post[{path_tag(p)}]", fk_s, "unknown", "z3",
                       "axis ordering of the path not determined")
            continue
        x1, x2, x3 = order      # x1 >= x2 >= x3
        seen_orders.add(tuple(order))
        is_sphere = z3back.prove(p.pc, sp.Eq(x1, x3), timeout_ms=5000).status == "unsat"
        if is_sphere:
            spec = 4 * sp.pi * x1**2
            chk.prove(f"Ellipsoid.surface_area:sphere_limit[{path_tag(p)}]", fk_s, p.pc, sp.Eq(ex(p.value), spec),
                      replay=_replay_ellipsoid_area)
        else:
            chk.prove(f"Ellipsoid.surface_area:branch_is_nonsphere[{path_tag(p)}]", fk_s, p.pc, sp.Gt(x1, x3),
                      replay=_replay_ellipsoid_area)
            cosphi = x3 / x1
            sin2 = 1 - cosphi**2
            phi = sp.acos(cosphi)
            m = x1**2 * (x2**2 - x3**2) / (x2**2 * (x1**2 - x3**2))
            spec = 2 * sp.pi * (x3**2 + x1 * x2 * (EI(phi, m) * sin2 + KI(phi, m) * cosphi**2) / sp.sqrt(sin2))
            chk.prove_eq(f"Ellipsoid.surface_area:legendre[{path_tag(p)}]", fk_s, p.pc, ex(p.value), spec,
                         replay=_replay_ellipsoid_area)
    chk.notes.append(f"Ellipsoid.surface_area: {len(sa_paths)} paths covering axis orders {sorted(str(o) for o in seen_orders)}")

    # ------------------------------------------------------------------ Shape3D.iq on the ellipsoid is the quotient
    fk_i = chk.function("coxeter.shapes.base_classes", "Shape3D.iq[get]")

    def run_iq():
        obj = make_curved(shapes, "Ellipsoid")
        return obj.iq, obj.volume, obj.surface_area
    for p in [q for q in chk.explore(fk_i, run_iq) if q.kind == "return"]:
        iq, vol, sa = (ex(v) for v in p.value)
        chk.prove_eq(f"Ellipsoid.iq:definition[{path_tag(p)}]", fk_i, p.pc, iq, 36 * sp.pi * vol**2 / sa**3)
    fk_i2 = chk.function("coxeter.shapes.base_classes", "Shape2D.iq[get]")
    chk.record("Shape2D.iq:overridden_by_curved_shapes", fk_i2, "proved", "syntactic",
               "Circle.iq and Ellipse.iq override it; exercised through C11 for polygons")

    # ------------------------------------------------------------------ canaries (must NOT be provable)
    fk0 = chk.function("coxeter.shapes.circle", "Circle.area[get]")
    if cache.get(("Circle", "area")):
        chk.canary_eq("canary:Circle.area==2*integral", fk0, ex(cache[("Circle", "area")][0].value), 2 * integral("Circle", 1))
    chk.canary("canary:Ellipse.iq<1", fk_q, [sp.Gt(a, 0), sp.Gt(b, 0)], sp.Lt(sp.Min(sp.Symbol("q", real=True), 1), 1))
    if cache.get(("Circle", "area")):
        chk.reachable("curved constructors", fk0, cache[("Circle", "area")][0].pc)
    from .bounded_c10 import run_bounded
    run_bounded(chk)
