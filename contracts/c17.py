"""C17 -- parametric shape families generate exactly the documented shapes.

Deductive: the domain guards of Family323Plus / Family423 / Family523 / TruncatedTetrahedronFamily.get_shape are
executed on unconstrained symbolic parameters with make_vertices and ConvexPolyhedron replaced by recording stubs:
get_shape raises ValueError exactly outside the documented rectangle, and passes (a, b, c) = (a, 1|2, c) resp.
c = 3 - 2 t on.  _make_ngon raises for n < 3.
Exhaustive over the property's own finite domains: RegularNGonFamily / UniformPrismFamily / UniformAntiprismFamily for
every n in 3..200 and UniformPyramidFamily / UniformDipyramidFamily for n in 3..5 (unit area / volume, first vertex
on +x, origin-centred, equal edges, vertex counts).
Bounded: TruncationPlaneShapeFamily.make_vertices on a parameter grid against an independent vertex enumeration of
the half-space intersection.
"""
from __future__ import annotations

import itertools
import math

import numpy as np
import sympy as sp

from pyvc import paths
from pyvc.sym import Sym, to_expr
from pyvc.symarr import SymArr
from .common import real_coxeter, path_tag

LEVEL = "other"
GOLD = (1 + math.sqrt(5)) / 2
DOMAINS = {"Family323Plus": ((1, 3), (1, 3), 1), "Family423": ((1, 2), (2, 3), 2),
           "Family523": ((1, math.sqrt(5) / GOLD), (GOLD**2, 3), 2)}


def guards(chk):
    ld = chk.loader()
    mod = ld.load("coxeter.families.plane_shape_families")
    a, c, t = sp.symbols("a c t", real=True)
    rec = []
    for fam in ("Family323Plus", "Family423", "Family523"):
        fkey = chk.function("coxeter.families.plane_shape_families", f"{fam}.get_shape")
        klass = getattr(mod, fam)
        (alo, ahi), (clo, chi), b = DOMAINS[fam]

        def run(klass=klass):
            rec.clear()
            old_mv, old_cp = klass.make_vertices, mod.ConvexPolyhedron
            klass.make_vertices = classmethod(lambda cls, x, y, z: rec.append((x, y, z)) or "verts")
            mod.ConvexPolyhedron = lambda v: ("ConvexPolyhedron", v)
            try:
                try:
                    out = klass.get_shape(Sym(a), Sym(c))
                except ValueError:
                    return "ValueError", None
                return out, list(rec)
            finally:
                klass.make_vertices = old_mv
                mod.ConvexPolyhedron = old_cp
        from pyvc.sym import rationalize
        A0, A1, C0, C1 = (rationalize(float(x)) for x in (alo, ahi, clo, chi))
        if fam == "Family523":
            # documented bounds s*sqrt(5) and S^2 with the class constants s, S (doubles) and the exact square root
            A1 = rationalize(float(klass.s)) * sp.sqrt(5)
            C0 = rationalize(float(klass.S ** 2))
        inside = sp.And(sp.Ge(a, A0), sp.Le(a, A1), sp.Ge(c, C0), sp.Le(c, C1))
        for p in chk.explore(fkey, run):
            tg = path_tag(p)
            out, calls = p.value
            if out == "ValueError":
                chk.prove(f"{fam}.get_shape:raises_only_outside_domain[{tg}]", fkey, p.pc, sp.Not(inside))
            else:
                chk.prove(f"{fam}.get_shape:returns_only_inside_domain[{tg}]", fkey, p.pc, inside)
                ok = out == ("ConvexPolyhedron", "verts") and len(calls) == 1 and calls[0][1] == b \
                    and sp.expand(sp.sympify(calls[0][0].e if isinstance(calls[0][0], Sym) else calls[0][0]) - a) == 0 \
                    and sp.expand(sp.sympify(calls[0][2].e if isinstance(calls[0][2], Sym) else calls[0][2]) - c) == 0
                chk.record(f"{fam}.get_shape:builds_hull_of_make_vertices(a,{b},c)[{tg}]", fkey, "proved" if ok else "refuted",
                           "call-trace", model={}, detail=str(calls))
    fkey = chk.function("coxeter.families.plane_shape_families", "TruncatedTetrahedronFamily.get_shape")
    klass = mod.TruncatedTetrahedronFamily

    def run_t():
        rec.clear()
        old = mod.Family323Plus.get_shape
        mod.Family323Plus.get_shape = classmethod(lambda cls, x, y: rec.append((x, y)) or "shape")
        try:
            try:
                out = klass.get_shape(Sym(t))
            except ValueError:
                return "ValueError", None
            return out, list(rec)
        finally:
            mod.Family323Plus.get_shape = old
    for p in chk.explore(fkey, run_t):
        tg = path_tag(p)
        out, calls = p.value
        dom = sp.And(sp.Ge(t, 0), sp.Le(t, 1))
        if out == "ValueError":
            chk.prove(f"TruncatedTetrahedronFamily.get_shape:raises_only_outside_domain[{tg}]", fkey, p.pc, sp.Not(dom))
        else:
            chk.prove(f"TruncatedTetrahedronFamily.get_shape:returns_only_inside_domain[{tg}]", fkey, p.pc, dom)
            ok = len(calls) == 1 and calls[0][0] == 1 and sp.expand(calls[0][1].e - (3 - 2 * t)) == 0
            chk.record(f"TruncatedTetrahedronFamily.get_shape:a=1,c=3-2t[{tg}]", fkey, "proved" if ok else "refuted", "call-trace", model={})
    chk.notes.append("Family523's bounds s*sqrt(5) and S^2 are floating-point constants; the guard is proved against the rationals "
                     "nearest to those doubles")


def uniform_families(chk):
    cox = real_coxeter()
    F = cox.families
    fkey = "RegularNGonFamily / Uniform{Prism,Antiprism,Pyramid,Dipyramid}Family (finite domain of the property, exhaustive)"
    chk.functions.setdefault(fkey, {"sha": "-", "paths": 0, "lines": 0, "bounded_only": True})
    fails = []
    n_eval = 0

    def edges_equal(shape):
        v = np.asarray(shape.vertices)
        e = np.asarray(shape.edges)
        L = np.linalg.norm(v[e[:, 0]] - v[e[:, 1]], axis=1)
        return float(L.max() / L.min())

    def ngon_defect(n):
        try:
            v = np.asarray(F.RegularNGonFamily.make_vertices(n))
            g = F.RegularNGonFamily.get_shape(n)
        except Exception as e:  # noqa: BLE001  an admissible n must not raise
            return {"n": n, "raised": f"{type(e).__name__}: {e}"[:150]}
        if v.ndim != 2 or len(v) != n:
            return {"n": n, "rows": int(len(v))}
        r = np.linalg.norm(v[:, :2], axis=1)
        ang = np.arctan2(v[:, 1], v[:, 0])
        ok = (abs(g.area - 1) < 1e-9 and r.max() - r.min() < 1e-12 and abs(v[0, 1]) < 1e-12 and v[0, 0] > 0
              and np.allclose(np.mod(np.diff(ang), 2 * np.pi), 2 * np.pi / n, atol=1e-9) and np.allclose(v[:, 2], 0))
        return None if ok else {"n": n, "rows": int(len(v)), "area": float(g.area), "first_vertex": v[0].tolist()}

    for n in range(3, 201):
        n_eval += 1
        bad = ngon_defect(n)
        if bad:
            fails.append((f"RegularNGonFamily(n={n})", bad))
        for fam, count in ((F.UniformPrismFamily, 2 * n), (F.UniformAntiprismFamily, 2 * n)):
            n_eval += 1
            try:
                s = fam.get_shape(n)
            except Exception as e:  # noqa: BLE001
                fails.append((f"{fam.__name__}(n={n})", {"n": n, "raised": f"{type(e).__name__}: {e}"[:150]}))
                continue
            c = np.asarray(s.centroid)
            if len(s.vertices) != count or abs(s.volume - 1) > 1e-9 or np.abs(c).max() > 1e-9 or edges_equal(s) > 1 + 1e-7:
                fails.append((f"{fam.__name__}(n={n})", {"vertices": len(s.vertices), "volume": float(s.volume), "centroid": c.tolist(),
                                                         "edge_ratio": edges_equal(s)}))
    for n in range(3, 6):
        for fam, count in ((F.UniformPyramidFamily, n + 1), (F.UniformDipyramidFamily, n + 2)):
            n_eval += 1
            try:
                s = fam.get_shape(n)
            except Exception as e:  # noqa: BLE001
                fails.append((f"{fam.__name__}(n={n})", {"n": n, "raised": f"{type(e).__name__}: {e}"[:150]}))
                continue
            c = np.asarray(s.centroid)
            if len(s.vertices) != count or abs(s.volume - 1) > 1e-9 or np.abs(c).max() > 1e-9 or edges_equal(s) > 1 + 1e-7:
                fails.append((f"{fam.__name__}(n={n})", {"vertices": len(s.vertices), "volume": float(s.volume), "centroid": c.tolist(),
                                                         "edge_ratio": edges_equal(s)}))
    for bad in (2, 1, 0):
        try:
            F.RegularNGonFamily.make_vertices(bad)
            fails.append((f"RegularNGonFamily(n={bad})", {"note": "no ValueError"}))
        except ValueError:
            pass
    for name, info in fails[:5]:
        chk.record(f"uniform:{name}", fkey, "bounded-fail", "exhaustive-enumeration", detail=str(info)[:400], model={}, kind="bounded",
                   replay=lambda m, info=info, name=name: (True, {"case": name, **info}))
    if not fails:
        chk.record("uniform:all_n", fkey, "bounded-pass", "exhaustive-enumeration", kind="bounded", detail=f"{n_eval} shapes")
    chk.bounded.append({"clause": "unit area / volume, first vertex on +x, equal angular steps, origin-centred, equal edges, vertex counts",
                        "bound": "every n in 3..200 (n-gon, prism, antiprism) and 3..5 (pyramid, dipyramid): the property's whole domain",
                        "evaluations": n_eval, "distinct_nontrivial": n_eval, "rule": "distinct = (family, n)",
                        "samples": [{"family": "UniformAntiprismFamily", "n": 7}], "failures": len(fails), "exhaustive": True})


def exact_vertices(planes, types, dists, tol=1e-9, merge=1e-7):
    """independent vertex enumeration of {x : n_i.x <= d_type(i)}: all plane triples, float64 with a separation check"""
    m = len(planes)
    b = np.asarray(dists)[types]
    verts = []
    for i, j, k in itertools.combinations(range(m), 3):
        A = planes[[i, j, k]]
        if abs(np.linalg.det(A)) < 1e-9:
            continue
        x = np.linalg.solve(A, b[[i, j, k]])
        if np.all(planes @ x <= b + tol):
            if not any(np.linalg.norm(x - y) < merge for y in verts):
                verts.append(x)
    return np.array(verts)


def truncation_families(chk):
    cox = real_coxeter()
    F = cox.families
    fkey = "TruncationPlaneShapeFamily.make_vertices (+ hull)"
    chk.functions.setdefault(fkey, {"sha": "-", "paths": 0, "lines": 0, "bounded_only": True})
    fails = []
    n_eval = 0
    k = 5 if chk.bounded_tier == "quick" else 15
    rng = np.random.default_rng(chk.seed)
    for fam_name, ((alo, ahi), (clo, chi), b) in DOMAINS.items():
        fam = getattr(F, fam_name)
        planes = np.asarray(fam._planes, float)
        types = np.asarray(fam._plane_types)
        As = list(np.linspace(alo, ahi, k)) + list(rng.uniform(alo, ahi, 2))
        Cs = list(np.linspace(clo, chi, k)) + list(rng.uniform(clo, chi, 2))
        pts_ac = [(a_, c_) for a_ in As for c_ in Cs]
        # parameters a little inside each edge of the rectangle and next to the diagonals, where vertices of the exact
        # intersection are close together without coinciding
        am, cm = 0.5 * (alo + ahi) + 0.0371 * (ahi - alo), 0.5 * (clo + chi) - 0.0293 * (chi - clo)
        for d_ in (3e-5, 3e-4, 3e-3):
            pts_ac += [(alo + d_, cm), (ahi - d_, cm), (am, clo + d_), (am, chi - d_),
                       (am, min(chi, max(clo, (alo + chi) - am + d_))), (am, min(chi, max(clo, am * (clo / alo) + d_)))]
        for a_, c_ in pts_ac:
                n_eval += 1
                want = exact_vertices(planes, types, [a_, b, c_], merge=1e-9)
                if len(want) < 4:
                    continue
                dmin = min(np.linalg.norm(p - q) for p, q in itertools.combinations(want, 2))
                try:
                    shape = fam.get_shape(a_, c_)
                except ValueError as e:
                    # allowed only where vertices of the exact intersection nearly coincide
                    if dmin >= 1e-4:
                        fails.append((f"{fam_name}(a={a_:.6f},c={c_:.6f})", {"raised": f"ValueError: {e}"[:100], "exact_vertices": len(want),
                                                                               "closest_pair_of_exact_vertices": float(dmin)}))
                    continue
                except Exception as e:  # noqa: BLE001
                    fails.append((f"{fam_name}(a={a_:.6f},c={c_:.6f})", {"raised": f"{type(e).__name__}: {e}"[:100], "exact_vertices": len(want)}))
                    continue
                got = np.asarray(shape.vertices)
                # same shape: every exact vertex has a returned vertex within 1e-5 and conversely (Hausdorff distance of the
                # vertex sets); the vertex count must agree where the exact vertices are at least 1e-4 apart
                d1 = max(min(np.linalg.norm(g - w) for w in want) for g in got)
                d2 = max(min(np.linalg.norm(g - w) for g in got) for w in want)
                ok = max(d1, d2) < 1e-5 and (dmin < 1e-4 or len(got) == len(want))
                if not ok:
                    fails.append((f"{fam_name}(a={a_:.6f},c={c_:.6f})", {"a": float(a_), "c": float(c_), "vertices": len(got), "exact_vertices": len(want),
                                                                           "closest_pair_of_exact_vertices": float(dmin),
                                                                           "hausdorff_distance_of_vertex_sets": float(max(d1, d2))}))
    for t_ in list(np.linspace(0, 1, 11)) + [3e-5, 3e-4, 1 - 3e-4, 1 - 3e-5, 0.5 + 3e-5]:
        n_eval += 1
        want = exact_vertices(np.asarray(F.Family323Plus._planes, float), np.asarray(F.Family323Plus._plane_types), [1, 1, 3 - 2 * t_],
                              merge=1e-9)
        dmin = min(np.linalg.norm(p - q) for p, q in itertools.combinations(want, 2)) if len(want) >= 2 else 0.0
        try:
            s = F.TruncatedTetrahedronFamily.get_shape(float(t_))
        except ValueError as e:
            if dmin >= 1e-4:
                fails.append((f"TruncatedTetrahedronFamily(t={t_:.6f})", {"raised": f"ValueError: {e}"[:150], "closest_pair_of_exact_vertices": float(dmin)}))
            continue
        except Exception as e:  # noqa: BLE001
            fails.append((f"TruncatedTetrahedronFamily(t={t_:.6f})", {"raised": f"{type(e).__name__}: {e}"[:150]}))
            continue
        if len(want) >= 4:
            got = np.asarray(s.vertices)
            d1 = max(min(np.linalg.norm(g - w) for w in want) for g in got)
            d2 = max(min(np.linalg.norm(g - w) for g in got) for w in want)
            if max(d1, d2) >= 1e-5 or (dmin >= 1e-4 and len(got) != len(want)):
                fails.append((f"TruncatedTetrahedronFamily(t={t_:.6f})", {"t": float(t_), "vertices": len(got), "exact_vertices": len(want),
                                                                          "closest_pair_of_exact_vertices": float(dmin),
                                                                          "hausdorff_distance_of_vertex_sets": float(max(d1, d2))}))
    for fam_name, ((alo, ahi), (clo, chi), b) in DOMAINS.items():
        fam = getattr(F, fam_name)
        for a_, c_ in ((alo - 0.01, clo), (ahi + 0.01, clo), (alo, clo - 0.01), (alo, chi + 0.01)):
            n_eval += 1
            try:
                fam.get_shape(a_, c_)
                fails.append((f"{fam_name}:out_of_domain({a_:.3f},{c_:.3f})", {"note": "no ValueError"}))
            except ValueError:
                pass
    # documented corner solids of the 323+ family (vertex / face counts)
    # documented: octahedron at (1,1), tetrahedron at (3,1) and (1,3), cube at (3,3)
    corners = {(1, 1): (6, 8), (3, 1): (4, 4), (1, 3): (4, 4), (3, 3): (8, 6)}
    for (a_, c_), (nv, nf) in corners.items():
        n_eval += 1
        try:
            s = F.Family323Plus.get_shape(a_, c_)
        except Exception as e:  # noqa: BLE001
            fails.append((f"Family323Plus corner ({a_},{c_})", {"raised": f"{type(e).__name__}: {e}"[:150]}))
            continue
        if (len(s.vertices), len(s.faces)) != (nv, nf):
            fails.append((f"Family323Plus corner ({a_},{c_})", {"vertices": len(s.vertices), "faces": len(s.faces), "expected": [nv, nf]}))
    # request - mutate the result - request again with equal parameters: the second answer is the family member again, whatever
    # the caller did to the first one (a family that memoises and hands out one shared shape fails here)
    import warnings
    again = [("Family323Plus", (1.7, 2.3)), ("Family423", (1.5, 2.5)), ("Family523", (0.5 * (DOMAINS["Family523"][0][0] + DOMAINS["Family523"][0][1]), 0.5 * (DOMAINS["Family523"][1][0] + DOMAINS["Family523"][1][1]))),
             ("TruncatedTetrahedronFamily", (0.3,)), ("RegularNGonFamily", (7,)), ("PrismAntiprismFamily", None), ("UniformPrismFamily", (5,)),
             ("UniformAntiprismFamily", (4,)), ("UniformPyramidFamily", (4,)), ("UniformDipyramidFamily", (5,))]
    for fam_name, args in again:
        fam = getattr(F, fam_name, None)
        if fam is None or args is None:
            continue
        n_eval += 1
        try:
            with warnings.catch_warnings():
                warnings.simplefilter("ignore")
                s1 = fam.get_shape(*args)
                v1 = np.array(s1.vertices, float).copy()
                try:
                    s1.volume = 7.0 * s1.volume
                except (AttributeError, NotImplementedError):
                    s1.area = 7.0 * s1.area
                s1.centroid = np.asarray(s1.centroid, float) + np.array([3.0, -1.0, 0.0])
                s2 = fam.get_shape(*args)
                v2 = np.array(s2.vertices, float)
        except Exception as e:  # noqa: BLE001
            fails.append((f"{fam_name}{args}:requested_again", {"raised": f"{type(e).__name__}: {e}"[:200]}))
            continue
        if s2 is s1 or v1.shape != v2.shape or not np.allclose(v1, v2, rtol=0, atol=1e-12):
            fails.append((f"{fam_name}{args}:requested_again_after_the_first_result_was_resized_and_moved",
                          {"same_object": s2 is s1, "first_vertex_at_first_request": v1[0].tolist(), "first_vertex_at_second_request": v2[0].tolist()}))
    for name, info in fails[:5]:
        chk.record(f"truncation:{name}", fkey, "bounded-fail", "independent-vertex-enumeration", detail=str(info)[:400], model={},
                   kind="bounded", replay=lambda m, info=info, name=name: (True, {"case": name, **info}))
    if not fails:
        chk.record("truncation:grid", fkey, "bounded-pass", "independent-vertex-enumeration", kind="bounded", detail=f"{n_eval} parameter points")
    chk.bounded.append({"clause": "get_shape(a,c) returns the half-space intersection: vertex sets within Hausdorff distance 1e-5, equal vertex "
                                  "counts where the exact vertices are >= 1e-4 apart, ValueError only where they are closer; "
                                  "out-of-domain parameters raise; 323+ corner solids have the documented vertex / face counts; a second request with equal parameters is unaffected by what the caller did to the first result",
                        "bound": f"{k}x{k} grid + 2x2 seeded points per family rectangle incl. edges and corners, 18 points at 3e-5 / 3e-4 / 3e-3 "
                                 "from the edges and diagonals; 16 truncations incl. 3e-5 from 0, 1/2 and 1",
                        "evaluations": n_eval, "distinct_nontrivial": n_eval, "rule": "distinct = parameter points",
                        "samples": [{"family": "Family423", "a": 1.5, "c": 2.5}], "failures": len(fails), "exhaustive": False})


def ngon_for_all_n(chk):
    """_make_ngon and UniformPrismFamily.make_vertices for every n >= 3 (n symbolic: the real code runs with n the length of a
    symbolic axis; numpy.linspace by its contract start + (stop - start) k / num)."""
    from pyvc import externals as ext
    from pyvc.sym import Sym
    from pyvc.symarr import Dim
    ld = chk.loader()
    fam = ld.load("coxeter.families.common")
    fkey = chk.function("coxeter.families.common", "_make_ngon")
    DN = Dim("Nn", minimum=3)
    z, area, al = sp.Symbol("z", real=True), sp.Symbol("area", positive=True), sp.Symbol("alpha", real=True)
    n, k = DN.n, DN.k

    def linspace(start, stop, num=50, endpoint=True, **kw):
        if getattr(num, "dim", None) is not DN or endpoint is not False or kw:
            raise paths.OutOfReach("numpy.linspace other than linspace(a, b, num=n, endpoint=False)")
        a, b = to_expr(start), to_expr(stop)
        return SymArr((DN,), np.array(Sym(a + (b - a) * DN.k / DN.n), dtype=object))

    def run():
        ext.HOOKS["numpy.linspace"] = linspace
        return fam._make_ngon(DN.size, z=Sym(z), area=Sym(area), angle=Sym(al))
    rho2 = area / (sp.Rational(1, 2) * n * sp.sin(2 * sp.pi / n))
    th = lambda j: al + 2 * sp.pi * j / n          # noqa: E731
    for p in chk.explore(fkey, run, assumptions=DN.facts()):
        if p.kind != "return":
            chk.path_raised(fkey, p) or chk.record("_make_ngon:returns_for_every_n>=3", fkey, "refuted", "path-enumeration",
                                                   detail=f"{type(p.exc).__name__}: {p.exc}"[:200], model={}, replay=_replay_ngon())
            continue
        v = p.value
        ok = isinstance(v, SymArr) and v.axes == (DN, 3)
        chk.record("_make_ngon:one_vertex_per_k=0..n-1", fkey, "proved" if ok else "refuted", "shape", model={}, replay=_replay_ngon(), abstracted=not ok)
        if not ok:
            continue
        X, Y, Z = [to_expr(c) for c in v.inner.reshape(-1)]
        # (1) vertex k sits on the circle of radius rho at angle alpha + 2 pi k / n, at height z
        r2 = sp.simplify(X**2 + Y**2)
        c1 = sp.simplify(r2 - rho2) == 0 and not r2.has(k)
        c2 = sp.simplify(X * sp.sin(th(k)) - Y * sp.cos(th(k))) == 0 and sp.simplify(X * sp.cos(th(k)) + Y * sp.sin(th(k)) - sp.sqrt(rho2)) == 0
        chk.record("_make_ngon:vertices_at_equal_angular_steps_on_the_circle_of_the_requested_area", fkey, "proved" if c1 and c2 and sp.simplify(Z - z) == 0 else "refuted",
                   "sympy-trig-normal-form", detail="x_k = rho cos(alpha + 2 pi k/n), y_k = rho sin(...), z_k = z, rho^2 = area / (n/2 sin(2 pi/n))", model={},
                   replay=_replay_ngon(), abstracted=True)
        # (2) shoelace area and edge lengths, successor of k is k+1 (k <= n-2) or 0 (k = n-1)
        areas, edges = [], []
        for case, kk, succ in (("inner", k, k + 1), ("wrap", n - 1, sp.Integer(0))):
            x0, y0 = X.subs(k, kk), Y.subs(k, kk)
            x1, y1 = X.subs(k, succ), Y.subs(k, succ)
            areas.append(sp.simplify(sp.expand_trig(sp.Rational(1, 2) * (x0 * y1 - x1 * y0)) - area / n))
            edges.append(sp.simplify(sp.expand_trig((x1 - x0)**2 + (y1 - y0)**2) - 2 * rho2 * (1 - sp.cos(2 * sp.pi / n))))
        chk.record("_make_ngon:shoelace_area_is_the_requested_area", fkey, "proved" if all(a == 0 for a in areas) else "refuted", "sympy-trig-normal-form",
                   detail="every one of the n fan triangles (origin, v_k, v_succ(k)) has area  area / n  (k <= n-2 and the closing edge k = n-1)", model={},
                   replay=_replay_ngon(), abstracted=True)
        chk.record("_make_ngon:all_edges_have_the_same_length", fkey, "proved" if all(e == 0 for e in edges) else "refuted", "sympy-trig-normal-form",
                   detail="|v_succ(k) - v_k|^2 = 2 rho^2 (1 - cos(2 pi/n)) for every k", model={}, replay=_replay_ngon(), abstracted=True)
    # ---- prism: modular over the contract of _make_ngon
    fkp = chk.function("coxeter.families.common", "UniformPrismFamily.make_vertices")
    calls = []

    def ngon_stub(n_, z=0, area=1, angle=0):
        calls.append((n_, z, area, angle))
        return np.zeros((0, 3))

    def run_p():
        calls.clear()
        old = fam._make_ngon
        fam._make_ngon = ngon_stub
        try:
            fam.UniformPrismFamily.make_vertices(DN.size)
        finally:
            fam._make_ngon = old
        return list(calls)
    for p in chk.explore(fkp, run_p, assumptions=DN.facts()):
        if p.kind != "return":
            chk.path_raised(fkp, p)
            continue
        cs = p.value
        ok = len(cs) == 2 and all(getattr(c[0], "dim", None) is DN for c in cs) and all(to_expr(c[3]) == 0 for c in cs)
        if ok:
            (z0, a0), (z1, a1) = [(to_expr(c[1]), to_expr(c[2])) for c in cs]
            h = sp.simplify(z1 - z0)
            t = sp.Symbol("t_tan_pi_over_n", positive=True)          # tan(pi/n) > 0 for n >= 3
            hh, aa = h.subs(sp.tan(sp.pi / n), t), a0.subs(sp.tan(sp.pi / n), t)
            vol = sp.simplify(aa * hh - 1) == 0 and sp.simplify(a0 - a1) == 0 and sp.simplify(z0 + z1) == 0
            s2 = 4 * aa * t / n                     # edge^2 of a regular n-gon of area A: A = n s^2 / (4 tan(pi/n))
            uni = sp.simplify(hh**2 - s2) == 0
        else:
            vol = uni = False
        chk.record("UniformPrismFamily.make_vertices:two_congruent_n-gons_about_z=0_with_base_area_times_height=1", fkp, "proved" if ok and vol else "refuted",
                   "sympy-normal-form", detail=f"{len(cs)} calls of _make_ngon", model={}, replay=_replay_ngon(), abstracted=True)
        chk.record("UniformPrismFamily.make_vertices:lateral_edges_as_long_as_base_edges", fkp, "proved" if ok and uni else "refuted", "sympy-normal-form",
                   detail="height^2 == 4 A tan(pi/n)/n", model={}, replay=_replay_ngon(), abstracted=True)


def antiprism_for_all_n(chk):
    """UniformAntiprismFamily.make_vertices for every n >= 3, modular over the contract of _make_ngon: two congruent n-gons about z = 0, the
    lower one turned by pi/n; lateral edges (top vertex k to the two nearest bottom vertices) as long as the base edges; volume 1 by the
    prismatoid formula V = h/6 (A_bottom + 4 A_mid + A_top) with the regular 2n-gon of the lateral edges' midpoints as middle section.
    All trigonometry is in u = pi/(2n): the identities are decided in the ring Q[sin u, cos u]/(sin^2 + cos^2 - 1)."""
    from pyvc.symarr import Dim
    ld = chk.loader()
    fam = ld.load("coxeter.families.common")
    fk = chk.function("coxeter.families.common", "UniformAntiprismFamily.make_vertices")
    DN = Dim("Na", minimum=3)
    n = DN.n
    calls = []

    def ngon_stub(n_, z=0, area=1, angle=0):
        calls.append((n_, z, area, angle))
        return np.zeros((0, 3))

    sS = sp.Symbol("s_edge", positive=True)
    cube = []

    def cbrt_stub(x):
        # contract of numpy.cbrt: the real number whose cube is x (x > 0 here); named so that no fractional powers enter the algebra
        from pyvc.sym import Sym
        cube.append(to_expr(x))
        return Sym(sS)

    def run():
        calls.clear()
        cube.clear()
        old, oldc = fam._make_ngon, fam.cbrt
        fam._make_ngon, fam.cbrt = ngon_stub, cbrt_stub
        try:
            fam.UniformAntiprismFamily.make_vertices(DN.size)
        finally:
            fam._make_ngon, fam.cbrt = old, oldc
        return list(calls), list(cube)
    u = sp.Symbol("u", positive=True)
    S, C = sp.symbols("S_u C_u", positive=True)

    def alg(e):
        e = sp.sympify(e).subs(n, sp.pi / (2 * u))              # everything is a function of u = pi/(2n)
        e = sp.expand_trig(sp.simplify(e))
        e = e.replace(lambda x: isinstance(x, sp.tan), lambda x: sp.sin(x.args[0]) / sp.cos(x.args[0]))
        e = sp.expand_trig(e).subs({sp.sin(u): S, sp.cos(u): C})
        num, _ = sp.fraction(sp.cancel(sp.together(e)))
        return sp.expand(sp.rem(sp.expand(num), S**2 + C**2 - 1, S))
    for p in chk.explore(fk, run, assumptions=DN.facts()):
        if p.kind != "return":
            chk.path_raised(fk, p)
            continue
        cs, cubes = p.value
        ok = len(cs) == 2 and all(getattr(c[0], "dim", None) is DN for c in cs) and len(cubes) == 1
        if ok:
            (z0, a0, g0), (z1, a1, g1) = [(to_expr(c[1]), to_expr(c[2]), to_expr(c[3])) for c in cs]
            if sp.simplify(z0) .could_extract_minus_sign() is False:
                (z0, a0, g0), (z1, a1, g1) = (z1, a1, g1), (z0, a0, g0)
            h, A = z1 - z0, a0
            twist = sp.simplify(sp.Abs(g0 - g1) - sp.pi / n) == 0
            sym = sp.simplify(z0 + z1) == 0 and sp.simplify(a0 - a1) == 0
            # replace pi/n and pi/(2n) by 2u and u before any trigonometric manipulation
            rep = {sp.pi / n: 2 * u, sp.pi / (2 * n): u}
            hh, AA = h.subs(rep).subs(n, sp.pi / (2 * u)), A.subs(rep).subs(n, sp.pi / (2 * u))
            s3 = cubes[0].subs(rep).subs(n, sp.pi / (2 * u))          # s^3
            nn = sp.pi / (2 * u)
            rho2 = AA / (sp.Rational(1, 2) * nn * sp.sin(4 * u))
            edge2 = 2 * rho2 * (1 - sp.cos(4 * u))
            lat2 = hh**2 + 2 * rho2 * (1 - sp.cos(2 * u))
            Amid = nn * rho2 * sp.cos(u)**2 * sp.sin(2 * u)
            vol = hh / 6 * (2 * AA + 4 * Amid)
            uni = alg(sp.simplify((lat2 - edge2) / sS**2) if s3 is not None else lat2 - edge2) == 0
            if s3 is not None:
                kv = sp.simplify(vol / sS**3)
                unit = (not kv.has(sS)) and alg(kv**2 * s3**2 - 1) == 0
            else:
                unit = alg(vol**2 - 1) == 0
        else:
            twist = sym = uni = unit = False
        rp = _replay_ngon()
        chk.record("UniformAntiprismFamily.make_vertices:two_congruent_n-gons_about_z=0_twisted_by_pi/n", fk, "proved" if ok and twist and sym else "refuted",
                   "sympy-normal-form", detail=f"{len(cs)} calls of _make_ngon", model={}, replay=rp, abstracted=True)
        chk.record("UniformAntiprismFamily.make_vertices:lateral_edges_as_long_as_base_edges", fk, "proved" if uni else "refuted", "sympy-trig-normal-form",
                   detail="h^2 + 2 rho^2 (1 - cos(pi/n)) == 2 rho^2 (1 - cos(2 pi/n))", model={}, replay=rp, abstracted=True)
        chk.record("UniformAntiprismFamily.make_vertices:unit_volume_by_the_prismatoid_formula", fk, "proved" if unit else "refuted", "sympy-trig-normal-form",
                   detail="(h/6 (2A + 4 n rho^2 cos^2(pi/2n) sin(pi/n)))^2 == 1", model={}, replay=rp, abstracted=True)


def _replay_ngon():
    """real _make_ngon / prism family for n = 3..40 against shoelace area, edge lengths and the hull volume"""
    def replay(model):
        from .common import real_coxeter
        cox = real_coxeter()
        import math
        mk = cox.families.common._make_ngon
        for n_ in range(3, 41):
            for area_, ang in ((1.0, 0.0), (2.5, 0.3)):
                try:
                    V = np.asarray(mk(n_, z=0.25, area=area_, angle=ang), float)
                except Exception as e:  # noqa: BLE001
                    return True, {"n": n_, "raised": f"{type(e).__name__}: {e}"[:200]}
                if V.shape != (n_, 3):
                    return True, {"n": n_, "vertices": list(V.shape)}
                A = 0.5 * sum(V[i, 0] * V[(i + 1) % n_, 1] - V[(i + 1) % n_, 0] * V[i, 1] for i in range(n_))
                L = [math.dist(V[i], V[(i + 1) % n_]) for i in range(n_)]
                if abs(A - area_) > 1e-9 * area_ or max(L) - min(L) > 1e-9 * max(L) or abs(math.atan2(V[0, 1], V[0, 0]) - ang) > 1e-9 or np.abs(V[:, 2] - 0.25).max() > 0:
                    return True, {"n": n_, "area_requested": area_, "shoelace_area": float(A), "edge_lengths_min_max": [min(L), max(L)],
                                  "angle_of_first_vertex": math.atan2(V[0, 1], V[0, 0])}
            Pa = np.asarray(cox.families.UniformAntiprismFamily.make_vertices(n_), float)
            va = float(cox.shapes.ConvexPolyhedron(Pa).volume)
            base = math.dist(Pa[n_], Pa[n_ + 1])
            lat = min(math.dist(Pa[n_], q) for q in Pa[:n_])
            if abs(va - 1) > 1e-9 or abs(base - lat) > 1e-9 * base:
                return True, {"family": "UniformAntiprismFamily", "n": n_, "volume": va, "base_edge": base, "lateral_edge": lat}
            P = np.asarray(cox.families.UniformPrismFamily.make_vertices(n_), float)
            vol = float(cox.shapes.ConvexPolyhedron(P).volume)
            side, height = math.dist(P[0], P[1]), abs(P[n_, 2] - P[0, 2])
            if abs(vol - 1) > 1e-9 or abs(side - height) > 1e-9 * height:
                return True, {"family": "UniformPrismFamily", "n": n_, "volume": vol, "base_edge": side, "height": height}
        return False, {}
    return replay


def run(chk):
    chk.trusted += ["float64 arithmetic treated as exact real arithmetic in the guard proofs",
                    "regular n-gon: area = n s^2 / (4 tan(pi/n)) for edge s; a right prism has volume base area x height; prismatoid formula V = h/6 (A0 + 4 A_mid + A1) "
                    "for a polyhedron with all vertices in two parallel planes (mathematics)",
                    "numpy.linspace(a, b, num=n, endpoint=False)[k] = a + (b - a) k / n (assumed contract)"]
    chk.section("ngon_and_prism_for_all_n", "coxeter.families.common::_make_ngon", lambda: ngon_for_all_n(chk))
    chk.section("antiprism_for_all_n", "coxeter.families.common::UniformAntiprismFamily.make_vertices", lambda: antiprism_for_all_n(chk))
    chk.section("truncation_family_guards", "coxeter.families.plane_shape_families::Family323Plus.get_shape", lambda: guards(chk))
    fk = chk.function("coxeter.families.common", "_make_ngon")
    common = chk.loader().load("coxeter.families.common")
    n = sp.Symbol("n", integer=True)
    import pyvc.externals as ext
    ext.HOOKS["numpy.linspace"] = lambda *a, **k: (_ for _ in ()).throw(StopIteration("reached linspace"))

    def run_ng():
        try:
            common._make_ngon(Sym(n))
        except ValueError:
            return "ValueError"
        except StopIteration:
            return "proceeds"
    def ngon_guard():
        for p in chk.explore(fk, run_ng):
            if p.value == "ValueError":
                chk.prove(f"_make_ngon:raises_only_for_n<3[{path_tag(p)}]", fk, p.pc, sp.Lt(n, 3))
            else:
                chk.prove(f"_make_ngon:proceeds_only_for_n>=3[{path_tag(p)}]", fk, p.pc, sp.Ge(n, 3))
    chk.section("_make_ngon_guard", fk, ngon_guard)
    uniform_families(chk)
    truncation_families(chk)
