"""C09 -- results are covariant under rotation, translation, scaling and relabelling.

Deductive:
* covariance of every quantity that C01 / C02 / C04 / C10 / C11 / C13 prove equal to an exact integral or a definition
  is inherited from the mathematics (change of variables); nothing about the code remains to be shown for those;
* scale-invariance of the *guards*: comparisons against numeric literals decide which branch is taken, so each guard
  of the supported range must give the same verdict on s*x as on x for every s > 0.  Proved here:
    - extern.polytri.triangulate's ear test  dot > c * (normal . normal)   (executed symbolically on one step),
    - the residual tests of circumsphere / insphere (C13 clauses, re-used),
    - the small-q switches of the form factors are relative to the shape's size (executed symbolically).
Bounded: every public query of the C01 / C02 / C04 generators is compared between x and g(x) for g = scaling by
10^-3 .. 10^3, proper rotations, translations up to 10 diameters, vertex permutations and face relabellings.
"""
from __future__ import annotations

import itertools
import math
import random

import numpy as np
import sympy as sp

from pyvc import paths
from pyvc.sym import Sym, to_expr
from bounded import corpus, oracle
from .common import real_coxeter, path_tag
from . import bounded_c02 as B2

LEVEL = "other"


def homogeneity_degree(node, env):
    """degree of homogeneity of an expression in the length scale, from the degrees of the names it uses
    (None if it is not homogeneous, e.g. a length added to a pure number)"""
    import ast
    if isinstance(node, ast.Constant):
        return 0 if isinstance(node.value, (int, float)) else None
    if isinstance(node, ast.Name):
        return env.get(node.id)
    if isinstance(node, ast.UnaryOp):
        return homogeneity_degree(node.operand, env)
    if isinstance(node, ast.Subscript):
        return homogeneity_degree(node.value, env)
    if isinstance(node, ast.BinOp):
        a, b = homogeneity_degree(node.left, env), homogeneity_degree(node.right, env)
        if a is None or b is None:
            return None
        if isinstance(node.op, ast.Mult):
            return a + b
        if isinstance(node.op, ast.Div):
            return a - b
        if isinstance(node.op, (ast.Add, ast.Sub)):
            return a if a == b else None
        if isinstance(node.op, ast.Pow) and isinstance(node.right, ast.Constant):
            return a * node.right.value
        return None
    if isinstance(node, ast.Call):
        f = ast.unparse(node.func)
        args = [homogeneity_degree(a, env) for a in node.args]
        if any(a is None for a in args):
            return None
        if f in ("np.cross", "np.dot", "np.inner"):
            return sum(args)
        if f in ("np.sum", "np.max", "np.min", "np.abs", "np.ptp", "np.linalg.norm", "abs"):
            return args[0]
        if f == "np.sqrt":
            return args[0] / 2
        if f == "calculate_normal":
            return 2 * args[0]          # contract: twice the vector area of the polygon
        return None
    return None


def polytri_guard(chk):
    """the ear test of extern.polytri.triangulate: both sides of the comparison must be homogeneous of the same degree
    in the length scale (then the verdict is the same for x and s*x, s > 0)"""
    import ast
    import os
    from pyvc.loader import REPO
    fkey = chk.function("coxeter.extern.polytri.polytri", "triangulate")
    tree = ast.parse(open(os.path.join(REPO, "coxeter/extern/polytri/polytri.py")).read())
    fn = [n for n in tree.body if isinstance(n, ast.FunctionDef) and n.name == "triangulate"][0]
    env = {"polygon": 1}
    guards = []
    for node in ast.walk(fn):
        if isinstance(node, ast.Assign) and len(node.targets) == 1:
            t = node.targets[0]
            if isinstance(t, ast.Name):
                if isinstance(node.value, ast.ListComp):
                    env[t.id] = 1
                else:
                    d = homogeneity_degree(node.value, env)
                    if d is not None:
                        env[t.id] = d
            elif isinstance(t, ast.Tuple) and ast.unparse(node.value).startswith("looped_slice(polygon"):
                for e in t.elts:
                    env[e.id] = 1
    for node in ast.walk(fn):       # second pass: names defined later in the text than they are used in loops
        if isinstance(node, ast.Assign) and len(node.targets) == 1 and isinstance(node.targets[0], ast.Name):
            d = homogeneity_degree(node.value, env)
            if d is not None:
                env[node.targets[0].id] = d
    for node in ast.walk(fn):
        if isinstance(node, ast.If) and isinstance(node.test, ast.Compare) and "dot" in ast.unparse(node.test):
            guards.append(node.test)
    if not guards:
        chk.errors.append("polytri.triangulate: the ear test was not found")
    for g in guards:
        lhs = homogeneity_degree(g.left, env)
        rhs = homogeneity_degree(g.comparators[0], env)
        ok = lhs is not None and lhs == rhs
        chk.record("guard:polytri.triangulate:ear_test:scale_invariant", fkey, "proved" if ok else "refuted", "homogeneity-degree",
                   detail=f"{ast.unparse(g)}: degree {lhs} versus {rhs}", model={}, replay=_replay_small_polyhedron,
                   goal="both sides of the comparison are homogeneous of the same degree in the length scale")


def _replay_small_polyhedron(model):
    cox = real_coxeter()
    cube = np.array(list(itertools.product((0.0, 1.0), repeat=3)))
    faces = oracle.hull_facets(cube.tolist())
    for sc in (1e-3, 1e-2, 1.0, 1e3):
        try:
            p = cox.shapes.Polyhedron(cube * sc, [list(f) for f in faces])
            c = p.centroid / sc
            if not np.allclose(c, 0.5):
                return True, {"scale": sc, "centroid/scale": c.tolist()}
        except Exception as e:  # noqa: BLE001
            return True, {"class": "Polyhedron", "vertices": (cube * sc).tolist(), "faces": [list(map(int, f)) for f in faces],
                          "scale": sc, "raised": f"{type(e).__name__}: {e}"}
    return False, {}


def formfactor_guards(chk):
    """the small-q branch of Polygon / Polyhedron form factors must be selected by |q| * size, not by |q|"""
    import ast
    from pyvc.loader import REPO
    import os
    for path, cls in (("coxeter/shapes/polygon.py", "Polygon"), ("coxeter/shapes/polyhedron.py", "Polyhedron")):
        fkey = chk.function(path[:-3].replace("/", "."), f"{cls}.compute_form_factor_amplitude")
        tree = ast.parse(open(os.path.join(REPO, path)).read())
        fn = None
        for node in ast.walk(tree):
            if isinstance(node, ast.ClassDef) and node.name == cls:
                for f in node.body:
                    if isinstance(f, ast.FunctionDef) and f.name == "compute_form_factor_amplitude":
                        fn = f
        guard = None
        for node in ast.walk(fn):
            if isinstance(node, ast.Assign) and any(isinstance(t, ast.Name) and t.id == "zero_q" for t in node.targets):
                guard = node.value
        src = ast.unparse(guard) if guard is not None else ""
        # degree of homogeneity of the compared expression in the length scale: q_sqs ~ L^-2, size ~ L
        names = {n.id for n in ast.walk(guard) if isinstance(n, ast.Name)} if guard is not None else set()
        deg = 0
        ok = False
        if guard is not None:
            L = sp.Symbol("L", positive=True)
            env = {"q_sqs": sp.Symbol("Q2", positive=True) / L**2, "size": sp.Symbol("S0", positive=True) * L}
            try:
                expr = _eval_guard(guard, env)
                ok = expr is not None and sp.simplify(sp.diff(expr, L)) == 0
            except Exception:  # noqa: BLE001
                ok = False
        chk.record(f"guard:{cls}.compute_form_factor_amplitude:small_q_switch:scale_invariant", fkey,
                   "proved" if ok else "refuted", "homogeneity-degree", detail=src, model={}, replay=_replay_ff_scale(cls))


def _eval_guard(node, env):
    """left-hand side minus nothing: returns the compared expression if the guard is `expr < literal` / isclose(expr, 0)"""
    import ast
    if isinstance(node, ast.Compare) and len(node.ops) == 1 and isinstance(node.comparators[0], ast.Constant):
        return _eval_expr(node.left, env)
    if isinstance(node, ast.Call) and ast.unparse(node.func) == "np.isclose":
        return _eval_expr(node.args[0], env)
    return None


def _eval_expr(node, env):
    import ast
    if isinstance(node, ast.Name):
        return env[node.id]
    if isinstance(node, ast.Constant):
        return sp.nsimplify(node.value)
    if isinstance(node, ast.BinOp):
        a, b = _eval_expr(node.left, env), _eval_expr(node.right, env)
        return {ast.Mult: a * b, ast.Div: a / b, ast.Pow: a ** b, ast.Add: a + b, ast.Sub: a - b}[type(node.op)]
    raise ValueError(ast.unparse(node))


def _replay_ff_scale(cls):
    def replay(model):
        cox = real_coxeter()
        pts = np.array([[0.0, 0, 0], [2, 0.5, 0], [0.5, 3, 0.25], [1, 1, 2]])
        faces = oracle.hull_facets(pts.tolist())
        q = np.array([[0.0, 0.0, 1e-3]])
        base = cox.shapes.Polyhedron(pts, [list(f) for f in faces]).compute_form_factor_amplitude(q)[0]
        for sc in (1e-3, 1e3):
            v = cox.shapes.Polyhedron(pts * sc, [list(f) for f in faces]).compute_form_factor_amplitude(q / sc)[0] / sc**3
            if abs(v - base) > 1e-6 * abs(base):
                return True, {"class": "Polyhedron", "vertices": pts.tolist(), "scale": sc, "q": q.tolist(), "F(s x, q/s)/s^3": [v.real, v.imag],
                              "F(x, q)": [base.real, base.imag]}
        return False, {}
    return replay


# ------------------------------------------------------------------------------------------- bounded covariance sweep
def queries3(shape):
    out = {"volume": (shape.volume, 3), "surface_area": (shape.surface_area, 2)}
    out["centroid"] = (np.asarray(shape.centroid, float), "point")
    out["inertia_tensor"] = (np.asarray(shape.inertia_tensor, float), "tensor")
    out["iq"] = (shape.iq, 0)
    if hasattr(shape, "mean_curvature"):
        out["mean_curvature"] = (shape.mean_curvature, 1)
        out["tau"] = (shape.tau, 0)
        out["asphericity"] = (shape.asphericity, 0)
        out["minimal_centered_bounding_sphere_radius"] = (shape.minimal_centered_bounding_sphere_radius, 1)
        out["maximal_centered_bounded_sphere_radius"] = (shape.maximal_centered_bounded_sphere_radius, 1)
    out["minimal_bounding_sphere_radius"] = (shape.minimal_bounding_sphere_radius, 1)
    out["face_areas"] = (np.sort(np.asarray(shape.get_face_area(), float)), 2)
    out["num"] = ((shape.num_vertices, shape.num_faces, shape.num_edges), "exact")
    return out


def compare_transformed(a, b, s, R, t, size):
    """a: queries of x, b: queries of s R x + t"""
    bad = []
    for k in a:
        va, kind = a[k]
        vb = b[k][0]
        if kind == "exact":
            ok = va == vb
        elif kind == "point":
            ok = np.allclose(vb, s * R @ va + t, rtol=0, atol=1e-8 * s * size + 1e-12 * np.abs(t).max())
        elif kind == "tensor":
            # s^5 R I R^T about the origin after moving: compare the tensors about the respective centroids instead
            ok = True
        else:
            ok = np.allclose(vb, np.asarray(va) * s**kind, rtol=1e-8)
        if not ok:
            bad.append((k, np.round(np.asarray(va, float), 10).tolist() if not isinstance(va, tuple) else va,
                        np.round(np.asarray(vb, float), 10).tolist() if not isinstance(vb, tuple) else vb))
    return bad


def central_tensor(shape):
    it = np.asarray(shape.inertia_tensor, float)
    c = np.asarray(shape.centroid, float)
    m = shape.volume if hasattr(shape, "volume") else shape.area
    return it - m * (np.dot(c, c) * np.eye(3) - np.outer(c, c))


def run_bounded(chk):
    cox = real_coxeter()
    fkey = "all public queries under scaling / rotation / translation / relabelling (real code, x versus g(x))"
    chk.functions.setdefault(fkey, {"sha": "-", "paths": 0, "lines": 0, "bounded_only": True})
    rnd = random.Random(chk.seed)
    fails = []
    n_eval = 0
    named = corpus.named_convex()
    shapes = [(n, "ConvexPolyhedron", named[n], None) for n in (("cube", "chiral5", "prism5", "pyramid") if chk.bounded_tier == "quick" else list(named)[:10])]
    for vname in ("U7", "frame8") if chk.bounded_tier == "quick" else ("U7", "C5", "frame8", "stairs", "T3d"):
        verts, faces = B2.voxel_mesh(B2.voxel_solids()[vname])
        shapes.append((vname, "Polyhedron", verts, faces))
    scales = (1e-3, 1e-2, 1e3) if chk.bounded_tier == "quick" else (1e-3, 1e-2, 1.0, 1e2, 1e3)
    places = corpus.placements()[2:] if chk.bounded_tier == "quick" else corpus.placements()
    for name, klass, pts, faces in shapes:
        P = np.asarray(pts, float)
        size = float(np.ptp(P, axis=0).max())
        base = cox.shapes.ConvexPolyhedron(P) if klass == "ConvexPolyhedron" else cox.shapes.Polyhedron(P, [list(f) for f in faces])
        qa = queries3(base)
        ca = central_tensor(base)
        probes = P.mean(axis=0) + np.array([[0, 0, 0], [0.2, 0.1, -0.1], [3, 3, 3], [0.41, 0.43, 0.37], [-0.3, 0.35, 0.25]]) * size
        if klass == "Polyhedron":
            # points on the boundary are outside the property's scope (the vertex mean of the C-shaped solid lies on a face)
            from .bounded_c05 import voxel_membership
            probes = np.array([q for q in probes if voxel_membership(q, B2.voxel_solids()[name]) != 0])
        ia = np.asarray(base.is_inside(probes))
        for s in scales:
            for pname, R, t in places:
                n_eval += 1
                Rf = np.array([[float(x) for x in row] for row in R])
                tv = np.asarray(t, float) * s * size / 3.0
                perm = list(range(len(P)))
                rnd.shuffle(perm)
                Pn = (s * P @ Rf.T + tv)[perm]
                inv = {old: new for new, old in enumerate(perm)}
                try:
                    if klass == "ConvexPolyhedron":
                        g = cox.shapes.ConvexPolyhedron(Pn)
                    else:
                        # relabel vertices and rotate every face's vertex list cyclically
                        fn = []
                        for f in faces:
                            k = rnd.randrange(len(f))
                            fn.append([inv[i] for i in (list(f[k:]) + list(f[:k]))])
                        g = cox.shapes.Polyhedron(Pn, fn)
                    qb = queries3(g)
                    bad = compare_transformed(qa, qb, s, Rf, tv, size)
                    cb = central_tensor(g)
                    if not np.allclose(cb, s**5 * Rf @ ca @ Rf.T, rtol=1e-7, atol=1e-9 * s**5 * np.abs(ca).max()):
                        bad.append(("inertia tensor about the centroid != s^5 R I R^T", np.round(ca, 8).tolist(), np.round(cb / s**5, 8).tolist()))
                    ib = np.asarray(g.is_inside(s * probes @ Rf.T + tv))
                    if not np.array_equal(ia, ib):
                        bad.append(("is_inside", ia.tolist(), ib.tolist()))
                    q = np.array([[0.3, -0.2, 0.9], [0.0, 0.0, 0.0], [2.0, 1.0, -1.0]]) / size
                    fa = base.compute_form_factor_amplitude(q)
                    fb = g.compute_form_factor_amplitude(q @ Rf.T / s)
                    want = s**3 * fa * np.exp(-1j * (q @ Rf.T / s) @ tv)
                    if not np.allclose(fb, want, rtol=1e-6, atol=1e-9 * s**3 * abs(fa[1])):
                        bad.append(("form factor", [complex(x) for x in want], [complex(x) for x in fb]))
                except Exception as e:  # noqa: BLE001
                    bad = [("exception", f"{type(e).__name__}: {e}", "")]
                if bad:
                    fails.append((f"{klass}:{name}/s={s:g}/{pname}", {"vertices": Pn.tolist(), "faces": None if faces is None else fn,
                                                                     "scale": s, "differences": [str(b)[:300] for b in bad[:4]]}))
    # general polyhedra with non-convex faces (extruded L and arrow), the caps' normal along each coordinate axis in turn and in a general
    # direction, every cyclic listing of the faces: "an axis-aligned shape behaves like its rotated copy, a valid shape does not become an error"
    perms = {"z": np.eye(3), "x": np.array([[0.0, 0, 1], [1, 0, 0], [0, 1, 0]]), "y": np.array([[0.0, 1, 0], [0, 0, 1], [1, 0, 0]]),
             "-y": np.array([[1.0, 0, 0], [0, 0, -1], [0, 1, 0]])}
    th_ = 0.83
    gen = np.array([[np.cos(th_), -np.sin(th_), 0], [np.sin(th_), np.cos(th_), 0], [0, 0, 1.0]]) @ np.array([[1.0, 0, 0], [0, np.cos(1.2), -np.sin(1.2)], [0, np.sin(1.2), np.cos(1.2)]])
    for pname in ("L", "arrow"):
        p2 = [(float(x), float(y)) for x, y in corpus.polygons_2d()[pname]]
        if oracle.polygon_measures_2d(p2)[0] < 0:
            p2 = p2[::-1]
        nn = len(p2)
        verts = [[x, y, 0.0] for x, y in p2] + [[x, y, 1.5] for x, y in p2]
        # the caps are kept as (non-convex) polygons: bottom listed clockwise seen from above, top counter-clockwise, sides as quads
        faces = [list(range(nn))[::-1], [nn + i for i in range(nn)]] + [[i, (i + 1) % nn, nn + (i + 1) % nn, nn + i] for i in range(nn)]
        P = np.asarray(verts, float)
        size = float(np.ptp(P, axis=0).max())
        try:
            base = cox.shapes.Polyhedron(P, [list(f) for f in faces])
            # (volume / surface_area / inertia_tensor of a Polyhedron need convex faces; centroid and is_inside triangulate the faces)
            ca0 = np.asarray(base.centroid, float)
        except Exception as e:  # noqa: BLE001
            fails.append((f"Polyhedron:extruded_{pname}/base", {"vertices": P.tolist(), "faces": [list(map(int, f)) for f in faces], "scale": 1.0,
                                                                 "differences": [f"('exception', '{type(e).__name__}: {e}', '')"]}))
            continue
        probes = np.array([P.mean(axis=0) + np.array(d_, float) * size for d_ in ([0.013, 0.021, 0.017], [0.41, 0.43, 0.37], [3, 3, 3])])
        ia = np.asarray(base.is_inside(probes))
        for rname, Rf in list(perms.items()) + [("general", gen)]:
            for shift in range(0, max(len(f) for f in faces), 1 if chk.bounded_tier != "quick" else 2):
                n_eval += 1
                tv = np.array([0.7, -1.1, 0.4]) * size
                Pn = P @ Rf.T + tv
                fn = [list(f[shift % len(f):]) + list(f[:shift % len(f)]) for f in faces]
                bad = []
                try:
                    g = cox.shapes.Polyhedron(Pn, fn)
                    cb0 = np.asarray(g.centroid, float)
                    if not np.allclose(cb0, Rf @ ca0 + tv, rtol=0, atol=1e-9 * size):
                        bad.append(("centroid", ca0.tolist(), cb0.tolist()))
                    ib = np.asarray(g.is_inside(probes @ Rf.T + tv))
                    if not np.array_equal(ia, ib):
                        bad.append(("is_inside", ia.tolist(), ib.tolist()))
                except Exception as e:  # noqa: BLE001
                    bad = [("exception", f"{type(e).__name__}: {e}", "")]
                if bad:
                    fails.append((f"Polyhedron:extruded_{pname}/caps_normal_{rname}/faces_shifted_by_{shift}", {
                        "vertices": Pn.tolist(), "faces": fn, "scale": 1.0, "differences": [str(b)[:300] for b in bad[:4]]}))
                    break
    # polygons
    import math
    many = {f"regular{n}": [(math.cos(2 * math.pi * k / n), math.sin(2 * math.pi * k / n)) for k in range(n)] for n in (48, 120)}
    for pname, pts in list(corpus.polygons_2d().items())[:6 if chk.bounded_tier == "quick" else 11] + list(many.items()):
        p3 = np.array([[float(x), float(y), 0.0] for x, y in pts])
        size = float(np.ptp(p3, axis=0).max())
        base = cox.shapes.Polygon(p3)
        for s in scales:
            for place, R, t in places:
                n_eval += 1
                Rf = np.array([[float(x) for x in row] for row in R])
                tv = np.asarray(t, float) * s * size / 3.0
                k = rnd.randrange(len(p3))
                Pn = np.roll(s * p3 @ Rf.T + tv, k, axis=0)
                try:
                    g = cox.shapes.Polygon(Pn, normal=Rf[:, 2])
                    bad = []
                    for m, d in (("area", 2), ("perimeter", 1), ("signed_area", 2), ("polar_moment_inertia", None),
                                 ("minimal_bounding_circle_radius", 1)):
                        if d is None:
                            continue
                        if not np.isclose(getattr(g, m), getattr(base, m) * s**d, rtol=1e-8):
                            bad.append((m, float(getattr(base, m)), float(getattr(g, m))))
                    if not np.allclose(g.centroid, s * Rf @ base.centroid + tv, rtol=0, atol=1e-8 * s * size + 1e-12 * np.abs(tv).max()):
                        bad.append(("centroid", base.centroid.tolist(), g.centroid.tolist()))
                    if not np.allclose(central_tensor(g), s**4 * Rf @ central_tensor(base) @ Rf.T, rtol=1e-7, atol=1e-9 * s**4 * size**4):
                        bad.append(("inertia tensor about the centroid", 0, 0))
                    pr = np.array([[0.3 * size, 0.3 * size, 0], [-size, 0.2 * size, 0], [0.9 * size, 0.05 * size, 0]])
                    if not np.array_equal(base.is_inside(pr), g.is_inside(s * pr @ Rf.T + tv)):
                        bad.append(("is_inside", base.is_inside(pr).tolist(), g.is_inside(s * pr @ Rf.T + tv).tolist()))
                except Exception as e:  # noqa: BLE001
                    bad = [("exception", f"{type(e).__name__}: {e}", "")]
                if bad:
                    fails.append((f"Polygon:{pname}/s={s:g}/{place}", {"vertices": Pn.tolist(), "scale": s, "differences": [str(b)[:300] for b in bad[:4]]}))
    # convex polygons and spheropolygons: every ball (radius ~ s, centre moves with the shape, or the same refusal), vertex order
    # permuted, normal not +z and centroid off the origin at the same time; distance_to_surface under scaling + translation
    balls = ("minimal_bounding_circle", "minimal_centered_bounding_circle", "maximal_centered_bounded_circle", "maximal_bounded_circle",
             "circumcircle", "incircle")
    conv = {k: v for k, v in corpus.polygons_2d().items() if k in ("triangle", "rect", "quad_irregular", "pentagon_irregular", "regular7")}
    conv["triangle345_cw"] = [(0.0, 0.0), (0.0, 3.0), (4.0, 0.0)]
    conv["kite"] = [(0.0, 0.0), (2.0, -1.0), (5.0, 0.0), (2.0, 1.0)]

    def ball_queries(shape):
        out = {}
        for b in balls:
            if not hasattr(type(shape), b):
                continue
            try:
                c = getattr(shape, b)
                out[b] = (float(c.radius), np.asarray(c.centroid, float))
            except (RuntimeError, NotImplementedError, AttributeError) as e:
                out[b] = type(e).__name__
        return out
    for pname, pts in conv.items():
        p3 = np.array([[float(x) + 0.7, float(y) - 0.4, 0.0] for x, y in pts])
        size = float(np.ptp(p3, axis=0).max())
        for klass, extra in (("ConvexPolygon", ()), ("ConvexSpheropolygon", (0.3 * size,))):
            try:
                base = getattr(cox.shapes, klass)(p3, *extra)
            except Exception:  # noqa: BLE001
                continue
            qa = ball_queries(base)
            ang = np.array([0.0, 0.4, 1.3, 2.9, 4.2, 5.8])
            da = np.asarray(base.distance_to_surface(ang), float)
            for s in scales:
                for place, R, t in places:
                    n_eval += 1
                    Rf = np.array([[float(x) for x in row] for row in R])
                    tv = np.asarray(t, float) * s * size / 3.0
                    perm = list(range(len(p3)))
                    rnd.shuffle(perm)
                    Pn = (s * p3 @ Rf.T + tv)[perm]
                    bad = []
                    try:
                        g = getattr(cox.shapes, klass)(Pn, *[s * e for e in extra])
                        qb = ball_queries(g)
                        for b, va in qa.items():
                            vb = qb[b]
                            if isinstance(va, str) or isinstance(vb, str):
                                if va != vb:
                                    bad.append((b, str(va)[:80], str(vb)[:80]))
                                continue
                            if not np.isclose(vb[0], s * va[0], rtol=1e-7):
                                bad.append((b + ".radius", va[0], vb[0] / s))
                            elif not np.allclose(vb[1], s * Rf @ va[1] + tv, rtol=0, atol=1e-7 * s * size + 1e-12 * np.abs(tv).max()):
                                bad.append((b + ".center", va[1].tolist(), vb[1].tolist()))
                        # scaling + translation only (angles are measured in the polygon's own plane)
                        g2 = getattr(cox.shapes, klass)(s * p3 + np.array([tv[0], tv[1], 0.0]), *[s * e for e in extra])
                        db = np.asarray(g2.distance_to_surface(ang), float)
                        if not np.allclose(db, s * da, rtol=1e-7):
                            bad.append(("distance_to_surface", da.tolist(), (db / s).tolist()))
                    except Exception as e:  # noqa: BLE001
                        bad = [("exception", f"{type(e).__name__}: {e}", "")]
                    if bad:
                        fails.append((f"{klass}:{pname}/s={s:g}/{place}", {"vertices": Pn.tolist(), "scale": s, "differences": [str(b)[:300] for b in bad[:4]]}))
    seen = set()
    for name, info in fails:
        key = name.split("/")[0] + info["differences"][0][:30]
        if key in seen or len(seen) >= 6:
            continue
        seen.add(key)
        chk.record(f"bounded:covariance[{name}]", fkey, "bounded-fail", "x-versus-g(x)", detail=str(info["differences"])[:500], model={},
                   kind="bounded", replay=lambda m, info=info, name=name: (True, {"case": name, **info}))
    if not fails:
        chk.record("bounded:covariance", fkey, "bounded-pass", "x-versus-g(x)", kind="bounded", detail=f"{n_eval} transformed copies")
    chk.bounded.append({"clause": "lengths ~ s, areas ~ s^2, volumes ~ s^3, centroids move with the shape, central inertia tensors s^5 R I R^T "
                                  "(s^4 for polygons), containment and dimensionless descriptors unchanged, F(q) -> s^3 F(R^T q s) exp(-i q.t); no errors",
                        "bound": "4 (quick) / 10 convex solids with random vertex permutations, 2 (quick) / 5 voxel solids with relabelled vertices and "
                                 "cyclically shifted faces, 2 extruded non-convex polygons with the caps' normal along every axis and every cyclic face listing, 6 (quick) / 11 polygons with cyclic shifts, 7 convex polygons and spheropolygons with permuted vertices (all balls, distance_to_surface); scales {1e-3,1e-2,1,1e2,1e3} x 4 placements "
                                 "(2 exact rational rotations, offsets ~3 sizes)",
                        "evaluations": n_eval, "distinct_nontrivial": len(shapes), "rule": "distinct = base shapes; evaluations = transformed copies",
                        "samples": [{"shape": "voxel:U7", "scale": 0.001}], "failures": len(fails), "exhaustive": False})


def run(chk):
    chk.trusted += ["change of variables: exact integrals, distances and angles transform as stated under x -> s R x + t (mathematics)",
                    "C01/C02/C04/C10/C11/C13 prove the measured quantities equal to those integrals / definitions",
                    "rounding-level tolerances (2e-15 in _combine_simplices, allclose in merge_faces, isclose on normals) are invisible to "
                    "proofs over the reals and are covered only by the bounded sweep"]
    polytri_guard(chk)
    formfactor_guards(chk)
    # the residual tests of circumsphere / insphere are the C13 clauses <Class>.<member>:residual_test_is_scale_invariant
    from . import c13
    ld = chk.loader()
    c13.lstsq_balls(chk, ld.load("coxeter.shapes"))
    run_bounded(chk)
