"""Sigma-normal-form / edge-cancellation certificate for sums over the triangles of a closed oriented surface."""
from __future__ import annotations

import time

import sympy as sp

from pyvc import sigma


def surface_cert(chk, name, fkey, pc, code_expr, spec_expr, dim, atoms, replay=None):
    """code_expr == spec_expr where both are sums over the triangles (extent `dim`, row atoms `atoms` = (A,B,C)):
    first by the Sigma-normal form alone (S1-S3), else by an edge-cancellation certificate"""
    t0 = time.time()
    diff = sp.sympify(code_expr) - sp.sympify(spec_expr)
    if sigma.is_zero(diff):
        o = chk.record(name, fkey, "proved", "sigma-normal-form", goal="identical Sigma-normal forms (S1-S3)")
        o.time_s = time.time() - t0
        return o
    try:
        D, j = sigma.row_body(diff, dim.n)
    except ValueError as e:
        o = chk.record(name, fkey, "refuted", "sigma", detail=f"difference is not a single sum over the triangles: {e}",
                       model={}, replay=replay, goal="row difference = g(a,b)+g(b,c)+g(c,a), g antisymmetric")
        o.time_s = time.time() - t0
        return o
    A, B, C = ([a.xreplace({dim.k: j}) for a in P] for P in atoms)
    if D.has(sp.Abs, sp.sign) or not D.is_polynomial(*A, *B, *C):
        o = chk.record(name, fkey, "refuted", "sigma+edge-certificate", model={}, replay=replay,
                       detail="row difference is not a polynomial in the triangle's vertices (abs / sign / root)",
                       goal="row difference = g(a,b)+g(b,c)+g(c,a), g antisymmetric")
        o.time_s = time.time() - t0
        return o
    ok, resid, anti = sigma.edge_certificate(D, A, B, C)
    status = "proved" if ok else "refuted"
    o = chk.record(name, fkey, status, "sigma+edge-certificate", model={} if not ok else None,
                   replay=None if ok else replay, detail="" if ok else f"residual {str(resid)[:300]}",
                   goal="row difference = g(a,b)+g(b,c)+g(c,a), g antisymmetric")
    o.time_s = time.time() - t0
    return o
