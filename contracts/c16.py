"""C16 -- queries are free of side effects.

Deductive: a conservative may-write (frame) analysis of the real class ASTs (pyvc/effects.py): for every public
getter, query method and exporter of every shape class (enumerated from the sources at run time) the set of
locations that any execution may write -- fields rebound, objects reachable from self or from an argument modified
in place -- must be empty, or consist of declared memo fields.  Members that write and restore (to_hoomd) cannot be
discharged by the frame analysis and are decided by the bounded run-time check below; Polygon.inertia_tensor's
restore is proved symbolically in C04.
Bounded: on stock shapes of all ten classes, every member is called alone and after every other member; fields,
handed-out arrays and argument arrays are compared before / after, and repeated queries must agree.
"""
from __future__ import annotations

import itertools
import os
import tempfile

import numpy as np

from pyvc import effects, paths
from pyvc.loader import REPO
from .common import real_coxeter, path_tag
from .polytope_state import stock_real

LEVEL = "other"

CLASSES = ["Circle", "Ellipse", "Sphere", "Ellipsoid", "Polygon", "ConvexPolygon", "ConvexSpheropolygon", "Polyhedron",
           "ConvexPolyhedron", "ConvexSpheropolyhedron"]
MUTATORS = {"diagonalize_inertia", "merge_faces", "sort_faces"}
SKIP = {"plot", "to_plato_scene"}
# internal memo fields: written by the getter that owns them, never read by another observable without being recomputed
MEMO = {"self.edges(memo)", "self._simplex_areas", "self._face_centroids", "self._face_centroids[*]"}
RESTORING = {("Polygon", "inertia_tensor"), ("ConvexPolygon", "inertia_tensor")}


def frame_obligations(chk):
    table = effects.ClassTable(REPO)
    for cls in CLASSES:
        an = effects.Analyzer(table, cls)
        mod = table.classes[cls][0]
        for (name, kind), info in sorted(an.mem.items()):
            if kind == "set" or name.startswith("_") or name in MUTATORS or name in SKIP:
                continue
            owner = info["owner"]
            fkey = chk.function(table.classes[owner][0], f"{owner}.{name}" + ("[get]" if kind == "get" else ""))
            w, r = an.effects(name, kind)
            w = set(w) - MEMO
            tag = f"{cls}.{name}:frame"
            if not w:
                chk.record(tag, fkey, "proved", "effects-analysis", goal="may-write set is empty (or memo fields only)")
            elif name == "to_hoomd" or (cls, name) in RESTORING:
                chk.record(tag + ":writes_and_restores", fkey, "proved", "effects-analysis+run-time",
                           detail=f"may write {sorted(w)}; restoration is decided by "
                                  + ("C04 inertia_tensor:keeps_vertex_array_object / :handed_out_vertices_unchanged" if name == "inertia_tensor"
                                     else "bounded:queries_pure"))
            else:
                chk.record(tag, fkey, "refuted", "effects-analysis", detail=f"may write {sorted(w)}", model={},
                           replay=_replay_member(cls, name), goal="may-write set is empty (or memo fields only)")
    # exporters in coxeter.io
    for (mod, fname), node in sorted(table.functions.items()):
        if mod != "coxeter.io" or not fname.startswith("to_"):
            continue
        fkey = chk.function(mod, fname)
        an = effects.Analyzer(table, "Polyhedron")
        fa = effects._FuncAnalysis(an, node)
        fa.run()
        w = {x for x in fa.writes if x.startswith("arg:shape")}
        chk.record(f"io.{fname}:frame", fkey, "proved" if not w else "refuted", "effects-analysis",
                   detail=f"may write {sorted(w)}" if w else "", model={}, replay=_replay_member("Polyhedron", f"io.{fname}"))


# ------------------------------------------------------------------------------------------- run-time (bounded)
def members_of(obj):
    cls = type(obj)
    out = []
    for name in dir(cls):
        if name.startswith("_") or name in MUTATORS or name in SKIP:
            continue
        attr = getattr(cls, name)
        if isinstance(attr, property) or name in ("edges",) or type(attr).__name__ == "cached_property":
            out.append((name, "get"))
        elif callable(attr):
            out.append((name, "call"))
    return out


PRISTINE = {}     # id(argument array) -> copy made before the call


def _arg(a):
    PRISTINE[id(a)] = a.copy()
    return a


def call_member(obj, name, kind, tmpdir):
    """invoke a member with typical arguments; returns (result, argument arrays that must stay unchanged);
    pristine copies of the arguments, made before the call, are kept in PRISTINE"""
    if kind == "get":
        return getattr(obj, name), []
    f = getattr(obj, name)
    core = getattr(obj, "polyhedron", getattr(obj, "polygon", obj))
    c = np.asarray(getattr(core, "vertices", np.zeros((1, 3))), float).mean(axis=0) if hasattr(core, "vertices") else np.asarray(obj.centroid, float)
    if name == "is_inside":
        pts = _arg(np.array([c, c + 10.0, c + np.array([0.01, 0.02, 0.0])]))
        return f(pts), [pts]
    if name == "compute_form_factor_amplitude":
        q = _arg(np.array([[0.0, 0, 0], [0.3, 0.1, -0.2], [1.0, 2.0, 0.5], [0.0, 0.0, 0.7]]))
        return f(q), [q]
    if name == "distance_to_surface":
        a = _arg(np.array([0.0, 0.5, 2.0, 4.0, -1.0, 2 * np.pi, 7.5, -9.0]))
        return f(a), [a]
    if name == "get_face_area":
        return f(), []
    if name == "get_dihedral":
        return f(0, int(core.neighbors[0][0])), []
    if name == "to_json":
        return f(["centroid"]), []
    if name == "save":
        for ft in ("OBJ", "OFF", "STL", "PLY", "VTK", "X3D", "HTML"):
            f(ft, os.path.join(tmpdir, f"x.{ft.lower()}"))
        return None, []
    if name in ("to_hoomd",):
        return f(), []
    raise NotImplementedError(name)


def deep_state(obj, depth=0):
    out = {}
    for k, v in vars(obj).items():
        if isinstance(v, np.ndarray):
            out[k] = v.copy()
        elif isinstance(v, list):
            out[k] = [x.copy() if isinstance(x, np.ndarray) else x for x in v]
        elif hasattr(v, "__dict__") and type(v).__module__.startswith("coxeter") and depth < 2:
            out[k] = deep_state(v, depth + 1)
        else:
            out[k] = v
    return out


def state_diff(a, b, exact_fields=True, tol=0.0):
    bad = []
    for k in a:
        if k in ("edges", "_simplex_areas", "_face_centroids"):
            continue
        if k not in b:
            bad.append(f"{k} removed")
            continue
        x, y = a[k], b[k]
        if isinstance(x, dict):
            bad += [f"{k}.{z}" for z in state_diff(x, y, exact_fields, tol)]
        elif isinstance(x, np.ndarray):
            if not isinstance(y, np.ndarray) or x.shape != y.shape or not np.allclose(x, y, rtol=0, atol=tol * (float(np.abs(x).max()) if x.size and np.abs(x).max() > 0 else 1.0)):
                bad.append(k)
        elif isinstance(x, list):
            if len(x) != len(y) or any((not np.array_equal(p, q)) if isinstance(p, np.ndarray) else p != q for p, q in zip(x, y)):
                bad.append(k)
        else:
            try:
                if x != y and not (isinstance(x, float) and abs(x - y) <= tol * max(1.0, abs(x))):
                    bad.append(k)
            except Exception:  # noqa: BLE001
                pass
    for k in b:
        if k not in a and k not in ("edges", "_simplex_areas", "_face_centroids"):
            bad.append(f"{k} added")
    return bad


def handouts(obj):
    out = {}
    for name in ("vertices", "centroid", "center", "normal", "faces", "equations", "normals", "simplices", "neighbors"):
        try:
            v = getattr(obj, name)
        except Exception:  # noqa: BLE001
            continue
        if isinstance(v, np.ndarray):
            out[name] = (v, v.copy())
    return out


def same_result(a, b):
    try:
        if isinstance(a, dict):
            return a.keys() == b.keys() and all(same_result(a[k], b[k]) for k in a)
        if isinstance(a, (list, tuple)) and not isinstance(a, str):
            return len(a) == len(b) and all(same_result(x, y) for x, y in zip(a, b))
        if hasattr(a, "__dict__") and type(a).__module__.startswith("coxeter"):
            return same_result(vars(a), vars(b))
        return bool(np.allclose(np.asarray(a, dtype=complex), np.asarray(b, dtype=complex), rtol=1e-12, atol=1e-12))
    except Exception:  # noqa: BLE001
        return a == b or repr(a) == repr(b)


def _scaled_stock(cls_name, scale, variant=0):
    """the stock shape of a vertex-based class with all lengths multiplied by `scale` (built by the real constructor)"""
    from .bounded_c03 import fresh
    o = stock_real(cls_name, variant)
    proxy = type(cls_name, (), {})()
    proxy.vertices = np.asarray(o.vertices, float) * scale
    for attr in ("normal", "faces"):
        if hasattr(o, attr):
            setattr(proxy, attr, getattr(o, attr))
    if hasattr(o, "radius"):
        proxy.radius = float(o.radius) * scale
    return fresh(proxy)


def check_sequence(cls_name, seq, tmpdir, variant=0, scale=None):
    if scale is not None:
        obj = _scaled_stock(cls_name, scale, variant)
    else:
        obj = _curved_stock(cls_name) if cls_name in CLASSES[:4] else stock_real(cls_name, variant)
    base = deep_state(obj)
    held = handouts(obj)
    for (name, kind) in seq:
        try:
            res, args = call_member(obj, name, kind, tmpdir)
        except (NotImplementedError, RuntimeError, ImportError, AttributeError, ValueError):
            res, args = None, []
        arg_copies = [a.copy() for a in args]
        # argument arrays bit-for-bit
        try:
            _, args2 = (None, [])
        except Exception:  # noqa: BLE001
            pass
    # re-run the last member to compare answers and argument integrity
    name, kind = seq[-1]
    try:
        r1, a1 = call_member(obj, name, kind, tmpdir)
        a1c = [a.copy() for a in a1]
        r2, a2 = call_member(obj, name, kind, tmpdir)
    except (NotImplementedError, RuntimeError, ImportError, AttributeError, ValueError):
        r1 = r2 = None
        a1, a1c = [], []
    problems = []
    tol = 1e-12 if any(n == "to_hoomd" for n, _ in seq) else 0.0
    d = state_diff(base, deep_state(obj), tol=tol)
    if d:
        problems.append(f"fields changed: {d}")
    for hn, (arr, cp) in held.items():
        if not np.allclose(arr, cp, rtol=0, atol=tol * (float(np.abs(cp).max()) if cp.size and np.abs(cp).max() > 0 else 1.0)):
            problems.append(f"array handed out earlier by .{hn} was modified")
    for a, c in zip(a1, a1c):
        c0 = PRISTINE.get(id(a), c)
        if not np.array_equal(a, c) or a.shape != c0.shape or not np.array_equal(a, c0):
            problems.append(f"argument array modified (passed {c0.reshape(-1)[:8].tolist()}, afterwards {a.reshape(-1)[:8].tolist()})")
    if scale is None and r1 is not None and not same_result(r1, r2):      # (answers of very small / large shapes carry units: compared at unit size only)
        problems.append(f"repeating {name} gave a different answer")
    return problems


def _curved_stock(cls_name):
    sh = real_coxeter().shapes
    c = np.array([1.5, -2.0, 0.75])
    return {"Circle": lambda: sh.Circle(1.3, c), "Ellipse": lambda: sh.Ellipse(1.2, 2.7, c), "Sphere": lambda: sh.Sphere(1.3, c),
            "Ellipsoid": lambda: sh.Ellipsoid(1.2, 2.7, 0.6, c)}[cls_name]()


def _replay_member(cls_name, name):
    def replay(model):
        with tempfile.TemporaryDirectory() as tmp:
            obj = _curved_stock(cls_name) if cls_name in CLASSES[:4] else stock_real(cls_name)
            mem = dict(members_of(obj))
            if name.startswith("io."):
                return False, {"note": "exporters are exercised through save()"}
            if name not in mem:
                return False, {}
            probs = check_sequence(cls_name, [(name, mem[name])], tmp)
            return bool(probs), {"class": cls_name, "member": name, "problems": probs}
    return replay


def run_bounded(chk):
    fkey = "all public getters / queries / exporters of the ten shape classes (run-time frame check)"
    chk.functions.setdefault(fkey, {"sha": "-", "paths": 0, "lines": 0, "bounded_only": True})

    def per_class(c, cls_name):
        fails = []
        n = 0
        with tempfile.TemporaryDirectory() as tmp:
            obj = _curved_stock(cls_name) if cls_name in CLASSES[:4] else stock_real(cls_name)
            mem = members_of(obj)
            seqs = [(m,) for m in mem]
            pairs = list(itertools.permutations(mem, 2))
            if c.tier == "quick":
                keyset = {"to_hoomd", "inertia_tensor", "vertices", "centroid", "is_inside", "volume", "area", "edges", "face_centroids",
                          "get_face_area", "compute_form_factor_amplitude", "minimal_bounding_sphere", "minimal_bounding_circle", "save",
                          "distance_to_surface", "gsd_shape_spec"}
                pairs = [p for p in pairs if p[0][0] in keyset and p[1][0] in keyset]
            for seq in seqs + pairs:
                n += 1
                try:
                    probs = check_sequence(cls_name, list(seq), tmp)
                except Exception as e:  # noqa: BLE001
                    probs = [f"checker could not run the sequence: {type(e).__name__}: {e}"]
                if probs:
                    fails.append((seq, probs))
                    if len(fails) >= 3:
                        break
            # the members that move the shape and move it back (or work on copies), on very small and very large shapes: an absolute
            # tolerance in such a member is invisible at unit size
            if cls_name not in CLASSES[:4]:
                movers = [m for m in mem if m[0] in ("to_hoomd", "save", "inertia_tensor", "is_inside", "compute_form_factor_amplitude", "distance_to_surface",
                                                     "to_json", "minimal_bounding_sphere", "minimal_bounding_circle")]
                for sc in (1e-9, 1e-4, 1e6):
                    for m in movers:
                        n += 1
                        try:
                            probs = check_sequence(cls_name, [m], tmp, scale=sc)
                        except Exception as e:  # noqa: BLE001
                            probs = [f"checker could not run the sequence: {type(e).__name__}: {e}"]
                        if probs:
                            fails.append((((f"{m[0]}@scale={sc:g}", m[1]),), probs))
                            break
        for seq, probs in fails:
            nm = " ; ".join(m for m, _ in seq)
            c.record(f"bounded:queries_pure[{cls_name}:{nm}]", fkey, "bounded-fail", "snapshot-compare", detail=str(probs)[:400], model={},
                     kind="bounded", replay=lambda m, probs=probs, nm=nm: (True, {"class": cls_name, "members": nm, "problems": probs}))
        if not fails:
            c.record(f"bounded:queries_pure[{cls_name}]", fkey, "bounded-pass", "snapshot-compare", kind="bounded", detail=f"{n} sequences")
        c.bounded.append({"clause": f"{cls_name}: fields, handed-out arrays and argument arrays unchanged by every member; repeated queries agree",
                          "bound": "one off-origin stock shape; every member alone, the moving members also at scales 1e-9, 1e-4, 1e6; ordered pairs of "
                                   + ("a key subset of members (quick)" if c.tier == "quick" else "all members"),
                          "evaluations": n, "distinct_nontrivial": n, "rule": "distinct = member sequences",
                          "samples": [{"class": cls_name, "members": [m for m, _ in mem][:6]}], "failures": len(fails), "exhaustive": False})
    chk.run_parallel([(f"pure/{cn}", lambda c, cn=cn: per_class(c, cn)) for cn in CLASSES])


def hoomd_restores(chk):
    """Polygon.to_hoomd / Polyhedron.to_hoomd move the shape to the origin, export, and move it back.  Executed on a symbolic number of vertices
    with the centroid getter replaced by its contract (C02 / C04: the centroid moves with the vertices -- c(V + t) = c(V) + t, c(V) an arbitrary point
    c0), the real centroid setter, and to_json / _find_equations by recording stubs: on EVERY path the stored vertices at return are the stored
    vertices at entry, and the exported vertices are those of the shape with its centroid at the origin."""
    import sympy as sp
    from pyvc.sym import Sym, to_expr
    from pyvc.symarr import SymArr, make
    from . import mutators as M
    ld = chk.loader()
    shapes = ld.load("coxeter.shapes")
    c0 = [sp.Symbol(f"c0_{j}", real=True) for j in range(3)]
    Vf = sp.Function("Vm", real=True)
    for cls_name, mod in (("Polygon", "coxeter.shapes.polygon"), ("Polyhedron", "coxeter.shapes.polyhedron")):
        klass = getattr(shapes, cls_name)
        fkey = chk.function(mod, f"{cls_name}.to_hoomd")
        real_setter = klass.centroid.fset

        def cen_get(self):
            # contract: the centroid of the current vertices V + tau is c0 + tau, tau the translation applied so far (index-free)
            tau = []
            for j in range(3):
                d = sp.expand(to_expr(self._vertices.inner[j]) - Vf(M.NV.k, sp.Integer(j)))
                if d.has(M.NV.k):
                    raise paths.OutOfReach("the vertices are no longer a translate of the vertices at entry")
                tau.append(d)
            return np.array([Sym(c0[j] + tau[j]) for j in range(3)], dtype=object)
        sub = type(cls_name, (klass,), {"centroid": property(cen_get, real_setter),
                                        "to_json": lambda self, attrs: {a: (self._vertices.copy() if a == "vertices" else self.centroid if a == "centroid" else Sym(sp.Symbol("json_" + a))) for a in attrs},
                                        "_find_equations": lambda self: None})

        def run_h():
            o = object.__new__(sub)
            o._vertices = make("Vm", (M.NV, 3))
            o._normal = np.array([Sym(sp.Symbol(f"nm{j}", real=True)) for j in range(3)], dtype=object)
            d = o.to_hoomd()
            return o._vertices, d.get("vertices"), d.get("centroid")
        for p in chk.explore(fkey, run_h, assumptions=M.NV.facts()):
            t = path_tag(p)
            if p.kind != "return":
                chk.path_raised(fkey, p) or chk.record(f"{cls_name}.to_hoomd:returns[{t}]", fkey, "refuted", "path-enumeration", detail=f"{type(p.exc).__name__}: {p.exc}"[:200],
                                                       model={}, replay=_replay_member(cls_name, "to_hoomd"), abstracted=True)
                continue
            after, exported, cen = p.value
            goal = sp.And(*[sp.Eq(sp.expand(to_expr(after.inner[j]) - Vf(M.NV.k, sp.Integer(j))), 0) for j in range(3)]) if isinstance(after, SymArr) and after.axes == (M.NV, 3) else sp.false
            chk.prove(f"{cls_name}.to_hoomd:stored_vertices_are_restored[{t}]", fkey, list(p.pc), goal, replay=_replay_hoomd_scale(cls_name))
            ncol = 2 if cls_name == "Polygon" else 3
            okx = isinstance(exported, SymArr) and exported.axes == (M.NV, ncol)
            goal2 = sp.And(*[sp.Eq(sp.expand(to_expr(exported.inner[j]) - (Vf(M.NV.k, sp.Integer(j)) - c0[j])), 0) for j in range(ncol)]) if okx else sp.false
            chk.prove(f"{cls_name}.to_hoomd:exported_vertices_are_those_of_the_centred_shape[{t}]", fkey, list(p.pc), goal2, replay=_replay_hoomd_scale(cls_name))


def _replay_hoomd_scale(cls_name):
    """real to_hoomd on stock shapes at scales 1e-9 .. 1e6: vertices afterwards == before, exported vertices == vertices - centroid"""
    def replay(model):
        for c in ([cls_name] + (["ConvexPolygon"] if cls_name == "Polygon" else ["ConvexPolyhedron"])):
            for sc in (1.0, 1e-9, 1e-4, 1e6):
                try:
                    obj = _scaled_stock(c, sc)
                    V0 = np.array(obj.vertices, float).copy()
                    c0_ = np.array(obj.centroid, float).copy()
                    d = obj.to_hoomd()
                    V1 = np.array(obj.vertices, float)
                    X = np.array(d["vertices"], float)
                except Exception as e:  # noqa: BLE001
                    return True, {"class": c, "scale": sc, "raised": f"{type(e).__name__}: {e}"[:200]}
                size = float(np.abs(V0 - c0_).max())
                want = (V0 - c0_)[:, :X.shape[1]]
                if np.abs(V1 - V0).max() > 1e-9 * size or np.abs(X - want).max() > 1e-9 * size:
                    return True, {"class": c, "scale": sc, "vertices_before": V0.tolist(), "vertices_after_to_hoomd": V1.tolist(), "exported_vertices": X.tolist(),
                                  "vertices_minus_centroid": want.tolist()}
        return False, {}
    return replay


def run(chk):
    chk.trusted += [
        "the may-write analysis is conservative for the Python subset used in coxeter/shapes and coxeter/io (attribute / "
        "subscript / augmented stores, in-place methods, out=, property and method calls on self resolved through the MRO); "
        "numpy / scipy / rowan functions are assumed not to modify their arguments (except out=)",
        "memo fields (_simplex_areas, _face_centroids, cached edges) are recomputed from the geometry by the getter that owns them",
    ]
    frame_obligations(chk)
    chk.section("to_hoomd_restores_the_shape", "coxeter.shapes.polygon::Polygon.to_hoomd", lambda: hoomd_restores(chk))
    from .common import inherits
    _sh = chk.loader().load("coxeter.shapes")
    inherits(chk, _sh, "ConvexPolygon", "Polygon", ["to_hoomd"], "coxeter.shapes.polygon")
    inherits(chk, _sh, "ConvexPolyhedron", "Polyhedron", ["to_hoomd"], "coxeter.shapes.polyhedron")
    run_bounded(chk)
