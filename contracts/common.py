"""Helpers shared by the contract files."""
from __future__ import annotations

import math
import os
import sys
from fractions import Fraction

import numpy as np
import sympy as sp

from pyvc import sym, paths
from pyvc.loader import REPO
from pyvc.sym import Sym, to_expr

CURVED = {
    "Circle": ("coxeter.shapes.circle", ("r",)),
    "Ellipse": ("coxeter.shapes.ellipse", ("a", "b")),
    "Sphere": ("coxeter.shapes.sphere", ("r",)),
    "Ellipsoid": ("coxeter.shapes.ellipsoid", ("a", "b", "c")),
}


def real_coxeter():
    """the real package from the working tree (for replays and bounded stand-ins)"""
    if REPO not in sys.path:
        sys.path.insert(0, REPO)
    import coxeter  # noqa: PLC0415
    return coxeter


def S(name, **k):
    return sym.real(name, **k)


def centre_syms():
    return [S("cx"), S("cy"), S("cz")]


def make_curved(shapes, cls, with_centre=True):
    """symbolic instance built through the real constructor (its guards put radii > 0 on the path)"""
    _, params = CURVED[cls]
    args = [S(p) for p in params]
    c = centre_syms() if with_centre else (0, 0, 0)
    return getattr(shapes, cls)(*args, tuple(c))


def path_tag(p):
    return "".join("T" if d else "F" for d in p.decisions) or "-"


def ex(v):
    return to_expr(v)


def fval(model, name, default):
    v = model.get(name, default)
    if isinstance(v, Fraction):
        return float(v)
    if isinstance(v, (int, float)):
        return float(v)
    return float(default)


def rel_err(obs, exp):
    obs, exp = float(obs), float(exp)
    if math.isnan(obs) or math.isnan(exp):
        return math.inf
    return abs(obs - exp) / max(1e-300, abs(exp), abs(obs))


def evalf_expr(e, values):
    """numeric value of a sympy expression under {symbol name: float}"""
    e = sp.sympify(e)
    sub = {s: values.get(s.name, 1.0) for s in e.free_symbols}
    return complex(sp.N(e.subs(sub), 30)) if e.has(sp.I) else float(sp.N(e.subs(sub), 30))


DEFAULTS = {"r": 1.5, "a": 1.25, "b": 2.5, "c": 0.75, "cx": 1.0, "cy": 2.0, "cz": 3.0}


def curved_real(cls, model, overrides=None):
    """real instance of a curved shape from a solver model (missing symbols get defaults)"""
    cox = real_coxeter()
    _, params = CURVED[cls]
    vals = {k: fval(model, k, DEFAULTS[k]) for k in list(params) + ["cx", "cy", "cz"]}
    if overrides:
        vals.update(overrides)
    obj = getattr(cox.shapes, cls)(*[vals[p] for p in params], (vals["cx"], vals["cy"], vals["cz"]))
    return obj, vals


def scalar_replay(cls, observe, expected_expr, tol=1e-9):
    """replay for 'value == spec' clauses of curved shapes: build the real object from the model,
    evaluate the real member and the spec expression numerically"""
    def replay(model):
        obj, vals = curved_real(cls, model)
        obs = observe(obj)
        exp = evalf_expr(expected_expr, vals)
        err = rel_err(obs, exp) if not isinstance(exp, complex) else abs(obs - exp) / max(1e-300, abs(exp))
        return err > tol, {"class": cls, "constructor_args": vals, "observed": repr(obs),
                           "expected": repr(exp), "relative_error": err, "tolerance": tol}
    return replay


def inherits(chk, shapes, derived, base, members, module=None):
    """Dispatch census: a contract on `base.member` covers `derived` only while `derived` inherits that very function.  An override has no contract:
    the clause is then undecided (never a violation by itself) and the bounded stand-ins run their thorough corpus."""
    D, B = getattr(shapes, derived), getattr(shapes, base)
    for m in members:
        owner = next((k for k in B.__mro__ if m in k.__dict__), None)
        if owner is None:
            continue
        is_prop = isinstance(owner.__dict__[m], property)
        fkey = chk.function(owner.__module__, f"{owner.__name__}.{m}" + ("[get]" if is_prop else ""))
        same = not any(m in k.__dict__ for k in D.__mro__[:D.__mro__.index(owner)])
        chk.record(f"{derived}.{m}:is_the_verified_{owner.__name__}_function", fkey, "proved" if same else "unknown", "dispatch-census",
                   detail="" if same else f"{derived} (or a class between it and {owner.__name__}) overrides {m}: the override is not under contract", model={})
