"""C07 -- face, normal, neighbour and edge structure of polyhedra is consistent.

Deductive: plane equations are unit, contain the three vertices they are built from and follow the right-hand rule
of the listed order -- ConvexPolyhedron._find_equations (map loop over a symbolic number of faces, executed here),
Polyhedron._find_equations (C02) and _find_simplex_equations (C01); num_edges = V + F - 2.
Bounded (primary for everything that depends on Qhull, arctan2 sorting and breadth-first orientation): a run-time
structural contract on construction, sort_faces and merge_faces: faces = facets of the exact hull, counter-clockwise
seen from outside, all other vertices on the inner side, symmetric neighbour lists = shared edges, each edge once as
(i < j), Euler's formula, simplices triangulate the faces.
"""
from __future__ import annotations

import itertools
import random

import numpy as np
import sympy as sp

from pyvc import paths
from pyvc.sym import to_expr
from pyvc.symarr import SymArr
from bounded import oracle, corpus
from . import polytope_state as PS
from .common import real_coxeter, path_tag, ex

LEVEL = "other"


def deductive(chk):
    ld = chk.loader()
    shapes = ld.load("coxeter.shapes")
    MOD = "coxeter.shapes.convex_polyhedron"
    fk = chk.function(MOD, "ConvexPolyhedron._find_equations")

    def run():
        o = PS.convex_polyhedron(shapes)
        want = [to_expr(x) for x in o._equations.inner]
        o._equations = None
        o._find_equations()
        return o._equations, want
    try:
        for p in chk.explore(fk, run, assumptions=PS.inv_facts() + PS.F.facts()):
            eq, want = p.value
            ok = isinstance(eq, SymArr) and eq.axes == (PS.F, 4)
            chk.record("ConvexPolyhedron._find_equations:one_row_per_face", fk, "proved" if ok else "refuted", "shape", model={})
            if not ok:
                continue
            E = [to_expr(x) for x in eq.inner]
            for j in range(4):
                chk.prove_eq(f"ConvexPolyhedron._find_equations:row_is_plane_of_first_three_vertices[{j}]", fk, p.pc, E[j], want[j])
            chk.prove_eq("ConvexPolyhedron._find_equations:unit", fk, p.pc, E[0]**2 + E[1]**2 + E[2]**2, 1)
    except paths.OutOfReach as e:
        chk.out_of_reach.append(f"ConvexPolyhedron._find_equations: {e} -- bounded only")
        chk.record("ConvexPolyhedron._find_equations:bounded_only", fk, "proved", "out-of-reach-note")
    fk = chk.function(MOD, "ConvexPolyhedron.num_edges[get]")
    nV, nF = sp.symbols("nV nF", integer=True)

    def run_e():
        from pyvc.sym import Sym
        sub = type("c", (shapes.ConvexPolyhedron,), {"num_vertices": property(lambda s: Sym(nV)), "num_faces": property(lambda s: Sym(nF))})
        o = object.__new__(sub)
        return o.num_edges
    for p in chk.explore(fk, run_e):
        chk.prove_eq("ConvexPolyhedron.num_edges:euler", fk, p.pc, ex(p.value), nV + nF - 2)


# ------------------------------------------------------------------------------------------ run-time structural contract
def structure_problems(shape, exact_faces=None, check_hull=True):
    v = np.asarray(shape.vertices, float)
    faces = [[int(i) for i in f] for f in shape.faces]
    eqs = np.asarray(shape._equations, float)
    size = float(np.ptp(v, axis=0).max()) or 1.0
    probs = []
    c = v.mean(axis=0)
    if len(eqs) != len(faces):
        probs.append("number of equations != number of faces")
        return probs
    for k, (f, e) in enumerate(zip(faces, eqs)):
        n = e[:3]
        if abs(np.dot(n, n) - 1) > 1e-9:
            probs.append(f"normal {k} is not unit")
        d = v[f] @ n + e[3]
        if np.abs(d).max() > 1e-7 * size:
            probs.append(f"plane {k} does not contain its face (max distance {np.abs(d).max():.2e})")
        # counter-clockwise seen from outside: vector area along the normal
        va = np.zeros(3)
        for t in range(len(f)):
            va += np.cross(v[f[t]], v[f[(t + 1) % len(f)]])
        if np.dot(va, n) <= 0:
            probs.append(f"face {k} is not counter-clockwise about its stored normal")
        if check_hull:
            others = np.delete(np.arange(len(v)), f)
            if len(others) and (v[others] @ n + e[3]).max() > 1e-7 * size:
                probs.append(f"a vertex lies on the outer side of plane {k}")
            if np.dot(n, v[f[0]] - c) <= 0:
                probs.append(f"normal {k} points inwards")
    # neighbours
    nb = [set(int(x) for x in a) for a in shape.neighbors]
    edge_sets = [set(frozenset((f[t], f[(t + 1) % len(f)])) for t in range(len(f))) for f in faces]
    for i in range(len(faces)):
        for j in range(len(faces)):
            if i == j:
                continue
            share = bool(edge_sets[i] & edge_sets[j])
            if share != (j in nb[i]):
                probs.append(f"faces {i},{j}: share an edge = {share} but neighbour list says {j in nb[i]}")
                break
        if any(i not in nb[j] for j in nb[i]):
            probs.append(f"neighbour lists are not symmetric at face {i}")
    # edges
    edges = [tuple(int(x) for x in e) for e in shape.edges]
    want = sorted(tuple(sorted(e)) for e in set().union(*edge_sets))
    if edges != want:
        probs.append(f"edge list is not each edge once as (i<j) in sorted order ({len(edges)} listed, {len(want)} distinct)")
    if len(v) - len(want) + len(faces) != 2:
        probs.append("V - E + F != 2")
    if shape.num_edges != len(want):
        probs.append(f"num_edges = {shape.num_edges} but there are {len(want)} edges")
    if np.asarray(shape.edge_vectors).shape != (len(want), 3) or \
            not np.allclose(shape.edge_lengths, [np.linalg.norm(v[a] - v[b]) for a, b in want]):
        probs.append("edge_vectors / edge_lengths disagree with the edge list")
    if exact_faces is not None:
        got = sorted(tuple(sorted(f)) for f in faces)
        exp = sorted(tuple(sorted(f)) for f in exact_faces)
        if got != exp:
            probs.append(f"faces are not the facets of the hull ({len(got)} vs {len(exp)} facets)")
    if hasattr(shape, "simplices"):
        covered = {}
        for s in np.asarray(shape.simplices):
            key = None
            for k, f in enumerate(faces):
                if set(int(x) for x in s) <= set(f):
                    key = k
                    break
            if key is None:
                probs.append("a simplex is not contained in any face")
                break
            covered[key] = covered.get(key, 0) + 1
        for k, f in enumerate(faces):
            if covered.get(k, 0) != len(f) - 2:
                probs.append(f"face {k} with {len(f)} vertices is covered by {covered.get(k, 0)} simplices")
                break
    for i in range(len(faces)):
        for j in nb[i]:
            try:
                ang = shape.get_dihedral(i, j)
                if not (0 < ang < np.pi + 1e-9):
                    probs.append(f"dihedral({i},{j}) = {ang}")
            except ValueError:
                probs.append(f"get_dihedral refuses neighbours {i},{j}")
            break
    return probs[:6]


def run_bounded(chk):
    cox = real_coxeter()
    fkey = "ConvexPolyhedron construction / Polyhedron.sort_faces / merge_faces: structural run-time contract"
    chk.functions.setdefault(fkey, {"sha": "-", "paths": 0, "lines": 0, "bounded_only": True})
    rnd = random.Random(chk.seed)
    fails = []
    n_eval = 0
    named = corpus.named_convex()
    sets = [(name, pts) for name, pts in named.items() if len(pts) <= 16]
    sets += [(f"lattice{i}", p) for i, p in enumerate(corpus.lattice_convex_sets(limit=10 if chk.bounded_tier == "quick" else 60))]
    for name, pts in sets:
        exact = oracle.hull_facets(pts)
        idx = list(range(len(pts)))
        orders = [idx]
        if len(pts) <= 5 and chk.bounded_tier != "quick":
            orders = [list(p) for p in itertools.permutations(idx)]
        else:
            for _ in range(3 if chk.bounded_tier == "quick" else 12):
                q = idx[:]
                rnd.shuffle(q)
                orders.append(q)
        for perm in orders:
            places = corpus.placements()[:2 if chk.bounded_tier == "quick" else 4]
            if name.startswith(("flat_", "needle_")):
                places = corpus.far_placements()[:2 if chk.bounded_tier == "quick" else 3]
            for pname, R, t in places:
                n_eval += 1
                P = corpus.place([pts[i] for i in perm], R, t)
                inv = {old: new for new, old in enumerate(perm)}
                ef = [[inv[i] for i in f] for f in exact]
                try:
                    shape = cox.shapes.ConvexPolyhedron(P)
                    probs = structure_problems(shape, ef)
                except Exception as e:  # noqa: BLE001
                    probs = [f"{type(e).__name__}: {e}"]
                if probs:
                    fails.append((f"ConvexPolyhedron:{name}/{pname}", {"points": P, "problems": probs}))
                    break
                # Polyhedron: faces with scrambled vertex order inside each face, then sort_faces
                n_eval += 1
                scr = []
                for f in ef:
                    g = f[:]
                    if len(g) <= 4:
                        rnd.shuffle(g)
                    else:
                        k = rnd.randrange(len(g))
                        g = g[k:] + g[:k]
                        if rnd.random() < 0.5:
                            g.reverse()
                    scr.append(g)
                try:
                    ph = cox.shapes.Polyhedron(P, [list(g) for g in scr], faces_are_convex=True)
                    ph.sort_faces()
                    probs = structure_problems(ph, ef)
                except Exception as e:  # noqa: BLE001
                    probs = [f"{type(e).__name__}: {e}"]
                if probs:
                    fails.append((f"Polyhedron.sort_faces:{name}/{pname}", {"points": P, "faces_given": scr, "problems": probs}))
                    break
                # triangulate every face, merge_faces must give back the facets
                n_eval += 1
                tri = [[f[0], f[k], f[k + 1]] for f in ef for k in range(1, len(f) - 1)]
                try:
                    pm = cox.shapes.Polyhedron(P, tri)
                    _ = pm.edges          # memoize before the faces change
                    pm.merge_faces()
                    probs = structure_problems(pm, ef)
                except Exception as e:  # noqa: BLE001
                    probs = [f"{type(e).__name__}: {e}"]
                if probs:
                    fails.append((f"Polyhedron.merge_faces:{name}/{pname}", {"points": P, "triangles": tri, "problems": probs}))
                    break
    # exact dyadic placements far from the origin and tiny scales (coordinates stay exactly representable, so the expected
    # structure is unchanged): sort_faces / merge_faces identify vertices by their coordinates
    for name in ("cube", "box", "pyramid", "frustum", "prism6_dyadic"):
        pts = named.get(name) or [[x, y, z] for z in (0.0, 1.0) for x, y in ((2, 0), (1, 1.75), (-1, 1.75), (-2, 0), (-1, -1.75), (1, -1.75))]
        exact = oracle.hull_facets(pts)
        for tag, s, t in (("far_2^18", 1.0, (2.0**18, -2.0**19, 2.0**17)), ("tiny_2^-30", 2.0**-30, (0.0, 0.0, 0.0)),
                          ("tiny_far", 2.0**-10, (2.0**8, 2.0**9, -2.0**8))):
            P = [[s * float(p[i]) + t[i] for i in range(3)] for p in pts]
            scr = []
            for f in exact:
                g = list(f)
                k = rnd.randrange(len(g))
                g = g[k:] + g[:k]
                if rnd.random() < 0.5:
                    g.reverse()
                scr.append(g)
            tri = [[f[0], f[k], f[k + 1]] for f in exact for k in range(1, len(f) - 1)]
            for what, build in (("sort_faces", lambda: cox.shapes.Polyhedron(P, [list(g) for g in scr], faces_are_convex=True)),
                                ("merge_faces", lambda: cox.shapes.Polyhedron(P, tri))):
                n_eval += 1
                try:
                    ph = build()
                    getattr(ph, what)()
                    probs = structure_problems(ph, [list(f) for f in exact])
                except Exception as e:  # noqa: BLE001
                    probs = [f"{type(e).__name__}: {e}"[:200]]
                if probs:
                    fails.append((f"Polyhedron.{what}:{name}/{tag}", {"points": P, "problems": probs}))
    # nearly flat roofs: adjacent facets whose normals differ by 1e-8 .. 1e-10 rad are distinct facets (heights are powers of two, so the
    # coordinates are exact and the hull's facets are decided exactly)
    from fractions import Fraction
    for k in (26, 28, 30, 32):
        hgt = Fraction(1, 2**k)
        for rname, roof in (("pyramid_roof", [(Fraction(1, 2), Fraction(1, 2), 1 + hgt)]), ("gable_roof", [(Fraction(1, 4), Fraction(1, 2), 1 + hgt), (Fraction(3, 4), Fraction(1, 2), 1 + hgt)])):
            ptsq = [(Fraction(x), Fraction(y), Fraction(z)) for x in (0, 1) for y in (0, 1) for z in (0, 1)] + roof
            exact = oracle.hull_facets(ptsq)
            n_eval += 1
            try:
                shp = cox.shapes.ConvexPolyhedron([[float(c) for c in q] for q in ptsq])
                probs = structure_problems(shp, [list(f) for f in exact])
            except Exception as e:  # noqa: BLE001
                probs = [f"{type(e).__name__}: {e}"[:200]]
            if probs:
                fails.append((f"ConvexPolyhedron:{rname}/height=2^-{k}", {"points": [[float(c) for c in q] for q in ptsq], "problems": probs}))
    # merge_faces must not depend on the order in which the triangles are listed: facets with five and more vertices (three
    # and more triangles each), triangles in fan order, reversed, shuffled, and in the order of the hull's own simplices
    many = {n: named[n] for n in named if any(len(f) >= 5 for f in oracle.hull_facets(named[n])) and len(named[n]) <= 24}
    many["prism6_dyadic"] = [[x, y, z] for z in (0.0, 1.0) for x, y in ((2, 0), (1, 1.75), (-1, 1.75), (-2, 0), (-1, -1.75), (1, -1.75))]
    many["prism7"] = [[float(np.cos(2 * np.pi * k / 7)), float(np.sin(2 * np.pi * k / 7)), z] for z in (0.0, 1.0) for k in range(7)]
    for name, pts in list(many.items())[:4 if chk.bounded_tier == "quick" else None]:
        P = [[float(c) for c in p] for p in pts]
        try:
            hull = cox.shapes.ConvexPolyhedron(np.array(P) + np.array([2.0, -1.0, 0.5]))
        except Exception as e:  # noqa: BLE001
            fails.append((f"Polyhedron.merge_faces:{name}/construction", {"points": P, "problems": [f"{type(e).__name__}: {e}"[:200]]}))
            continue
        Pp = np.asarray(hull.vertices, float).tolist()
        ef = [list(map(int, f)) for f in hull.faces]
        fan = [[f[0], f[k], f[k + 1]] for f in ef for k in range(1, len(f) - 1)]
        orders = {"fan": fan, "reversed": fan[::-1], "hull_simplices": [list(map(int, t)) for t in hull.simplices],
                  "middle_last": [t for f in ef for t in ([[f[0], f[k], f[k + 1]] for k in range(1, len(f) - 1)][::2] + [[f[0], f[k], f[k + 1]] for k in range(1, len(f) - 1)][1::2])]}
        for i in range(3 if chk.bounded_tier == "quick" else 10):
            q = fan[:]
            rnd.shuffle(q)
            orders[f"shuffle{i}"] = q
        for oname, tri in orders.items():
            n_eval += 1
            try:
                pm = cox.shapes.Polyhedron(Pp, [list(t) for t in tri])
                pm.merge_faces()
                probs = structure_problems(pm, ef)
            except Exception as e:  # noqa: BLE001
                probs = [f"{type(e).__name__}: {e}"[:200]]
            if probs:
                fails.append((f"Polyhedron.merge_faces:{name}/triangles_{oname}", {"points": Pp, "triangles": tri, "problems": probs}))
                break
    seen = set()
    for name, info in fails:
        key = name.split(":")[0] + str(info["problems"][:1])
        if key in seen or len(seen) >= 6:
            continue
        seen.add(key)
        chk.record(f"bounded:structure[{name}]", fkey, "bounded-fail", "structural-contract", detail=str(info["problems"])[:500], model={},
                   kind="bounded", replay=lambda m, info=info, name=name: (True, {"case": name, **info}))
    if not fails:
        chk.record("bounded:structure", fkey, "bounded-pass", "structural-contract", kind="bounded", detail=f"{n_eval} constructions")
    chk.bounded.append({"clause": "faces = exact hull facets, CCW from outside, unit outward planes containing their face with all other vertices inside, "
                                  "symmetric neighbours = shared edges, each edge once (i<j) sorted, Euler, num_edges, simplices triangulate faces; "
                                  "sort_faces restores this from scrambled face orders, merge_faces from a triangulated surface in any order of the triangles",
                        "bound": "named convex solids with <= 12 vertices and 10 (quick) / 60 lattice polytopes; unit boxes with pyramid / gable roofs of height 2^-26 .. 2^-32; 4 (quick) / 13 vertex orders "
                                 "(all permutations for <= 5 points, thorough); 2 (quick) / 4 rigid placements",
                        "evaluations": n_eval, "distinct_nontrivial": len(sets), "rule": "distinct = vertex sets; evaluations = constructions",
                        "samples": [{"set": "prism5", "order": "shuffled"}], "failures": len(fails), "exhaustive": False})


def run(chk):
    chk.trusted += ["float64 arithmetic treated as exact real arithmetic in the deductive clauses",
                    "exact rational facet enumeration of the oracle (bounded/oracle.py) for lattice / rational input"]
    deductive(chk)
    run_bounded(chk)
