"""C14 -- distance_to_surface is the radial distance from the centre to the boundary.

Deductive: Circle and Ellipse for an array of angles of symbolic length and every real angle: the returned d is
positive and centre + d (cos t, sin t) satisfies the boundary equation (only sin^2 + cos^2 = 1 is used).
Bounded: ConvexPolygon and ConvexSpheropolygon (edge selection by angle bins, slope special cases, arcs) against an
exact ray-boundary computation from the (core) centroid, for angles in [-4 pi, 4 pi] incl. vertex directions.
"""
from __future__ import annotations

import sympy as sp

from pyvc import oblig
from pyvc.sym import to_expr
from pyvc.symarr import Dim, SymArr, make
from .common import make_curved, path_tag, ex

LEVEL = "other"
TH = Dim("Th", minimum=1)
theta = sp.Function("theta", real=True)(TH.k)


def polygon_bins(chk, ld):
    """ConvexPolygon._distance_to_surface_from: the body of the loop over the edges, extracted mechanically from the current source
    (Loader.extract_segment; everything before the loop -- alignment, arctan2 of the vertices, argmin / roll, slopes and intercepts --
    is not under contract and stays with the bounded stand-in).  For one edge with end-point angles a_lo <= a_hi, line y = m x + b
    (or x = x0), and an array of angles of symbolic length, the body must write, exactly for the angles of the edge's bin, the
    distance from the origin to the edge's line along the angle:  d^2 (sin t - m cos t)^2 = b^2   (d^2 cos^2 t = x0^2 for a
    vertical edge), in each of its three branches; all other entries of the output are left alone."""
    import numpy as np
    from pyvc import paths
    from pyvc.sym import Sym
    body, params, text, sha = ld.extract_segment("coxeter.shapes.convex_polygon", "ConvexPolygon._distance_to_surface_from",
                                                 lambda t: t.startswith("for i in range(num_verts)"), loop_body=True)
    fkey = chk.function("coxeter.shapes.convex_polygon", "ConvexPolygon._distance_to_surface_from")
    chk.functions[fkey]["extraction"] = {"verified": "body of the loop `for i in range(num_verts)`, compiled unchanged as a function of its free variables "
                                         + str(params), "kept_sha": sha, "dropped_statements": "all statements before and after that loop"}
    th = make("theta", (TH,))
    t = theta
    S, C = sp.sin(t), sp.cos(t)
    a0, a1, a2 = sp.symbols("ang0 ang1 ang2", real=True)
    m, b, x0 = sp.symbols("slope intercept x0", real=True)
    old = sp.Function("dist_before", real=True)(TH.k)
    eps = sp.Rational(1, 10**6)
    cases = {"general": (Sym(m), Sym(b)), "horizontal": (0, Sym(b)), "vertical": (float("inf"), float("inf"))}
    for cname, (mv, bv) in cases.items():
        for where, i in (("inner_bin", 1), ("last_bin", 2)):
            def run(mv=mv, bv=bv, i=i):
                env = {"angles": th, "angles_to_vertices": np.array([Sym(a0), Sym(a1), Sym(a2)], dtype=object),
                       "angles_shifted": np.array([Sym(a1), Sym(a2), Sym(2 * sp.pi + eps)], dtype=object), "i": i, "num_verts": 3,
                       "slopes": np.array([1.0, mv, mv], dtype=object), "y_int": np.array([1.0, bv, bv], dtype=object),
                       "distances": SymArr((TH,), np.array(Sym(old), dtype=object)),
                       "p1": np.array([[Sym(sp.Symbol(f"p{r}{c_}", real=True)) for c_ in range(3)] for r in range(3)], dtype=object)}
                env["p1"][i, 0] = Sym(x0)
                out = body(**{k: env[k] for k in params})
                return out["distances"]
            facts = TH.facts() + ([sp.Ne(m, 0)] if cname == "general" else [])
            for p in chk.explore(fkey, run, assumptions=facts):
                tag = f"{cname}/{where}:{path_tag(p)}"
                if p.kind != "return":
                    chk.path_raised(fkey, p) or chk.record(f"distance_to_surface.bin:returns[{tag}]", fkey, "refuted", "path-enumeration",
                                                           detail=f"{type(p.exc).__name__}: {p.exc}"[:200], model={}, replay=_replay_bins(), abstracted=True)
                    continue
                res = p.value
                e = to_expr(res.inner[()]) if isinstance(res, SymArr) and res.axes == (TH,) else None
                ok = isinstance(e, sp.Piecewise) and len(e.args) == 2 and e.args[1][0] == old and e.args[1][1] is sp.true
                chk.record(f"distance_to_surface.bin:writes_one_value_per_angle_of_the_bin_and_nothing_else[{tag}]", fkey, "proved" if ok else "refuted", "structure",
                           detail="" if ok else str(e)[:200], model={}, replay=_replay_bins(), abstracted=True)
                if not ok:
                    continue
                val, mask = e.args[0]
                if getattr(body, "cpython", None) is not None and cname != "vertical":
                    # concretisation cross-check of the engine: the same statements run by CPython + numpy on concrete data
                    from pyvc import concrete
                    thc = np.array([0.1, 0.9, 1.4, 2.2, 3.0, 3.9, 4.6, 5.5, 6.2])
                    av = {a0: 0.6, a1: 1.2, a2: 4.4}
                    mc, bc_, x0c = (0.7, 1.3, 0.8) if cname == "general" else (0.0, 1.3, 0.8)
                    oldc = np.full(len(thc), -1.0)
                    p1c = np.zeros((3, 3))
                    p1c[i, 0] = x0c
                    envc = {"angles": thc.copy(), "angles_to_vertices": np.array([av[a0], av[a1], av[a2]]), "angles_shifted": np.array([av[a1], av[a2], 2 * np.pi + 1e-6]),
                            "i": i, "num_verts": 3, "slopes": np.array([1.0, mc, mc]), "y_int": np.array([1.0, bc_, bc_]), "distances": oldc.copy(), "p1": p1c}
                    with np.errstate(all="ignore"):
                        refd = body.cpython(**{k_: envc[k_] for k_ in params})["distances"]
                    env = concrete.Env(sizes={TH: len(thc)}, arrays={"theta": thc, "dist_before": oldc}, scalars={**av, m: mc, b: bc_, x0: x0c})
                    concrete.cross_check(chk, f"ConvexPolygon._distance_to_surface_from.loop_body[{tag}]", fkey, e, env, (TH,), refd, rtol=1e-9)
                lo, hi = (a1, a2) if i == 1 else (a2, 2 * sp.pi + eps)
                want = sp.And(sp.Ge(t, lo), sp.Lt(t, hi))
                if i == 2:
                    want = sp.Or(want, sp.And(sp.Ge(t, a2 - 2 * sp.pi), sp.Lt(t, a0)))
                # the angles were reduced to [0, 2 pi) and the vertex angles are sorted in [0, 2 pi) before the loop (np.mod, argmin + roll of a
                # counter-clockwise polygon about an interior point: prefix of the function, assumed); only what matters on that domain is demanded
                dom = [sp.Ge(t, 0), sp.Lt(t, 2 * sp.pi), sp.Ge(a0, 0), sp.Le(a0, a1), sp.Le(a1, a2), sp.Lt(a2, 2 * sp.pi)]
                chk.prove(f"distance_to_surface.bin:bin_is_the_angular_range_of_the_edge[{tag}]", fkey, list(p.pc) + dom, sp.Equivalent(mask, want),
                          replay=_replay_bins())
                d2 = sp.together(val**2) if not (val.is_Pow and val.exp == sp.Rational(1, 2)) else val.base
                d2 = d2.replace(lambda z: isinstance(z, sp.tan), lambda z: sp.sin(z.args[0]) / sp.cos(z.args[0]))
                if cname == "vertical":
                    goal = sp.together(d2 * C**2 - x0**2)
                else:
                    mm = m if cname == "general" else sp.Integer(0)
                    goal = sp.together(d2 * (S - mm * C)**2 - b**2)
                num = sp.expand(sp.numer(goal))
                num = sp.expand(num.subs(S**2, 1 - C**2))
                num = sp.expand(sp.rem(num, S**2 + C**2 - 1, S)) if num != 0 else num
                chk.record(f"distance_to_surface.bin:value_is_the_distance_to_the_edges_line_along_the_angle[{tag}]", fkey, "proved" if num == 0 else "refuted",
                           "sympy-trig-normal-form", detail=("d^2 (sin t - m cos t)^2 == b^2" if cname != "vertical" else "d^2 cos^2 t == x0^2") if num == 0 else f"remainder {str(num)[:200]}",
                           model={}, replay=_replay_bins(), abstracted=True)


def polygon_lines(chk, ld):
    """the statements of ConvexPolygon._distance_to_surface_from that compute slope and intercept of every edge (from `slopes = ...` up to
    `angles_shifted = ...`, extracted mechanically) on a symbolic number of edges with end points p1, p2: where the edge is not vertical,
    both end points lie on y = m x + b; a vertical edge (equal x) is marked by m = b = inf -- the convention the loop body relies on"""
    from pyvc import paths  # noqa: F401
    from . import mutators as M
    seg, params, text, sha = ld.extract_segment("coxeter.shapes.convex_polygon", "ConvexPolygon._distance_to_surface_from",
                                                lambda t_: t_.startswith("slopes = "), stop=lambda t_: t_.startswith("angles_shifted = "))
    fkey = chk.function("coxeter.shapes.convex_polygon", "ConvexPolygon._distance_to_surface_from")
    P1, P2 = sp.Function("P1", real=True), sp.Function("P2", real=True)
    k = M.NV.k

    def run():
        out = seg(**{"num_verts": M.NV.size, "p1": make("P1", (M.NV, 3)), "p2": make("P2", (M.NV, 3))})
        return out["slopes"], out["y_int"]
    for p in chk.explore(fkey, run, assumptions=M.NV.facts()):
        if p.kind != "return":
            chk.path_raised(fkey, p)
            continue
        sl, yi = p.value
        ok = all(isinstance(x, SymArr) and x.axes == (M.NV,) for x in (sl, yi))
        chk.record("distance_to_surface.lines:one_slope_and_intercept_per_edge", fkey, "proved" if ok else "refuted", "shape", model={}, replay=_replay_bins(), abstracted=True)
        if not ok:
            continue
        m_e, b_e = to_expr(sl.inner[()]), to_expr(yi.inner[()])
        x1, y1, x2, y2 = P1(k, 0), P1(k, 1), P2(k, 0), P2(k, 1)
        nonvert = sp.Ne(x1 - x2, 0)

        def on(cond, e):
            return e.xreplace({cond: sp.true}) if cond in e.atoms(sp.Ne) else sp.piecewise_fold(e).subs(cond, True)
        mf, bf = on(nonvert, m_e), on(nonvert, b_e)
        g1 = sp.simplify(y1 - (mf * x1 + bf)) == 0 and sp.simplify(y2 - (mf * x2 + bf)) == 0
        chk.record("distance_to_surface.lines:both_end_points_lie_on_the_line_y=mx+b", fkey, "proved" if g1 else "refuted", "sympy-normal-form",
                   detail="" if g1 else f"m = {str(mf)[:80]}, b = {str(bf)[:80]}", model={}, replay=_replay_bins(), abstracted=True)
        mv, bv = m_e.xreplace({nonvert: sp.false}), b_e.xreplace({nonvert: sp.false})
        g2 = mv == sp.oo and bv == sp.oo
        chk.record("distance_to_surface.lines:a_vertical_edge_is_marked_by_infinite_slope_and_intercept", fkey, "proved" if g2 else "refuted", "structure",
                   detail=f"m = {mv}, b = {bv}", model={}, replay=_replay_bins(), abstracted=True)


def _replay_bins():
    """real ConvexPolygon.distance_to_surface on polygons with horizontal, vertical and slanted edges against exact ray casting"""
    def replay(model):
        import math
        import numpy as np
        from .bounded_c14 import ray_polygon
        from .common import real_coxeter
        from bounded import oracle
        cox = real_coxeter()
        for P in ([(0.0, 0.0), (4.0, 0.0), (4.0, 3.0), (0.0, 3.0)], [(0.3, -0.4), (4.7, -0.4), (0.7, 2.6)], [(0.0, 0.0), (3.0, 1.0), (2.0, 3.0), (-1.0, 2.5)]):
            _, (cx, cy), _, _, _ = oracle.polygon_measures_2d(P)
            c = (float(cx), float(cy))
            ang = np.linspace(-7.0, 7.0, 141)
            try:
                got = np.asarray(cox.shapes.ConvexPolygon([[x, y, 0.0] for x, y in P]).distance_to_surface(ang.copy()), float)
            except Exception as e:  # noqa: BLE001
                return True, {"vertices": P, "raised": f"{type(e).__name__}: {e}"[:200]}
            for th_, g in zip(ang, got):
                want = ray_polygon(c, th_, P)
                if not abs(g - want) <= 1e-7 * max(1.0, want):
                    return True, {"vertices": P, "angle": float(th_), "distance_to_surface": float(g), "exact_distance_from_centroid": float(want)}
        return False, {}
    return replay


def run(chk):
    ld = chk.loader()
    shapes = ld.load("coxeter.shapes")
    chk.trusted += ["float64 arithmetic treated as exact real arithmetic",
                    "sin and cos are uninterpreted except for sin^2 + cos^2 = 1"]
    r, a, b = sp.symbols("r a b", real=True)
    S, C = sp.sin(theta), sp.cos(theta)
    oblig.RELATIONS[:] = [(S**2 + C**2 - 1, C)]
    try:
        for cls, (A, B) in (("Circle", (r, r)), ("Ellipse", (a, b))):
            mod = "coxeter.shapes.circle" if cls == "Circle" else "coxeter.shapes.ellipse"
            fkey = chk.function(mod, f"{cls}.distance_to_surface")

            def run_d():
                obj = make_curved(shapes, cls)
                return obj.distance_to_surface(make("theta", (TH,)))
            for p in chk.explore(fkey, run_d, assumptions=TH.facts()):
                if p.kind != "return":
                    chk.path_raised(fkey, p)
                    continue
                t = path_tag(p)
                res = p.value
                ok = isinstance(res, SymArr) and res.axes == (TH,)
                chk.record(f"{cls}.distance_to_surface:one_distance_per_angle[{t}]", fkey, "proved" if ok else "refuted", "shape", model={})
                if not ok:
                    continue
                d = to_expr(res.inner[()])
                # boundary equation, with d^2 taken from the radicand so that no root remains
                chk.prove_eq(f"{cls}.distance_to_surface:on_boundary[{t}]", fkey, p.pc,
                             sp.together((d * C / A)**2 + (d * S / B)**2), 1)
                if d.is_Pow and d.exp == sp.Rational(1, 2):
                    num, den = sp.fraction(sp.together(d.base))
                    chk.prove(f"{cls}.distance_to_surface:positive[{t}]", fkey, p.pc + [sp.Eq(S**2 + C**2, 1)],
                              sp.And(sp.Gt(num, 0), sp.Gt(den, 0)) if True else sp.true)
                else:
                    chk.prove(f"{cls}.distance_to_surface:positive[{t}]", fkey, p.pc, sp.Gt(d, 0))
    finally:
        oblig.RELATIONS[:] = []
    chk.section("ConvexPolygon.distance_to_surface:angle_bins", "coxeter.shapes.convex_polygon::ConvexPolygon._distance_to_surface_from",
                lambda: polygon_bins(chk, ld))
    chk.section("ConvexPolygon.distance_to_surface:edge_lines", "coxeter.shapes.convex_polygon::ConvexPolygon._distance_to_surface_from",
                lambda: polygon_lines(chk, ld))
    from .bounded_c14 import run_bounded
    run_bounded(chk)
