"""C14 -- distance_to_surface is the radial distance from the centre to the boundary.

Deductive: Circle and Ellipse for an array of angles of symbolic length and every real angle: the returned d is
positive and centre + d (cos t, sin t) satisfies the boundary equation (only sin^2 + cos^2 = 1 is used).
Bounded: ConvexPolygon and ConvexSpheropolygon (edge selection by angle bins, slope special cases, arcs) against an
exact ray-boundary computation from the (core) centroid, for angles in [-4 pi, 4 pi] incl. vertex directions.
"""
from __future__ import annotations

import sympy as sp

from pyvc import oblig
from pyvc.sym import to_expr
from pyvc.symarr import Dim, SymArr, make
from .common import make_curved, path_tag, ex

LEVEL = "other"
TH = Dim("Th", minimum=1)
theta = sp.Function("theta", real=True)(TH.k)


def run(chk):
    ld = chk.loader()
    shapes = ld.load("coxeter.shapes")
    chk.trusted += ["float64 arithmetic treated as exact real arithmetic",
                    "sin and cos are uninterpreted except for sin^2 + cos^2 = 1"]
    r, a, b = sp.symbols("r a b", real=True)
    S, C = sp.sin(theta), sp.cos(theta)
    oblig.RELATIONS[:] = [(S**2 + C**2 - 1, C)]
    try:
        for cls, (A, B) in (("Circle", (r, r)), ("Ellipse", (a, b))):
            mod = "coxeter.shapes.circle" if cls == "Circle" else "coxeter.shapes.ellipse"
            fkey = chk.function(mod, f"{cls}.distance_to_surface")

            def run_d():
                obj = make_curved(shapes, cls)
                return obj.distance_to_surface(make("theta", (TH,)))
            for p in chk.explore(fkey, run_d, assumptions=TH.facts()):
                if p.kind != "return":
                    chk.path_raised(fkey, p)
                    continue
                t = path_tag(p)
                res = p.value
                ok = isinstance(res, SymArr) and res.axes == (TH,)
                chk.record(f"{cls}.distance_to_surface:one_distance_per_angle[{t}]", fkey, "proved" if ok else "refuted", "shape", model={})
                if not ok:
                    continue
                d = to_expr(res.inner[()])
                # boundary equation, with d^2 taken from the radicand so that no root remains
                chk.prove_eq(f"{cls}.distance_to_surface:on_boundary[{t}]", fkey, p.pc,
                             sp.together((d * C / A)**2 + (d * S / B)**2), 1)
                if d.is_Pow and d.exp == sp.Rational(1, 2):
                    num, den = sp.fraction(sp.together(d.base))
                    chk.prove(f"{cls}.distance_to_surface:positive[{t}]", fkey, p.pc + [sp.Eq(S**2 + C**2, 1)],
                              sp.And(sp.Gt(num, 0), sp.Gt(den, 0)) if True else sp.true)
                else:
                    chk.prove(f"{cls}.distance_to_surface:positive[{t}]", fkey, p.pc, sp.Gt(d, 0))
    finally:
        oblig.RELATIONS[:] = []
    from .bounded_c14 import run_bounded
    run_bounded(chk)
