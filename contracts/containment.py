"""Shared pieces of C05 / C06: membership contracts for is_inside on a batch of Q points (Q symbolic)."""
from __future__ import annotations

import numpy as np
import sympy as sp

from pyvc import paths
from pyvc.sym import Sym, SymBool, to_expr
from pyvc.symarr import Dim, SymArr, make, DEFS, to_bool
from .common import CURVED, S, make_curved, path_tag, ex, curved_real, fval

Q = Dim("Q", minimum=1)
pq = [sp.Function("pt", real=True)(Q.k, sp.Integer(j)) for j in range(3)]


def batch_points(ncols=3):
    return make("pt", (Q, ncols))


def single_point():
    return np.array([Sym(sp.Symbol(f"p{j}", real=True)) for j in range(3)], dtype=object)


def curved_membership(cls, point, model_syms):
    """defining condition of the region for point (3 sympy expressions)"""
    cx, cy, cz = sp.symbols("cx cy cz", real=True)
    r, a, b, c = sp.symbols("r a b c", real=True)
    d = [point[0] - cx, point[1] - cy, point[2] - cz]
    flat = sp.Le(sp.Abs(d[2]), sp.Rational(1, 10**8))       # np.isclose(z, 0): |z| <= atol
    if cls == "Circle":
        # the code measures the 3-D distance; with |dz| <= 1e-8 this differs from the planar distance by at most
        # dz^2 <= 1e-16, i.e. only for points within rounding distance of the boundary (outside the property's scope):
        # (lower => code => upper) is demanded instead of an equivalence
        upper = sp.And(sp.Le(d[0]**2 + d[1]**2, r**2), flat)
        lower = sp.And(sp.Le(d[0]**2 + d[1]**2 + sp.Rational(1, 10**16), r**2), flat)
        return (lower, upper)
    if cls == "Ellipse":
        return sp.And(sp.Le((d[0] / a)**2 + (d[1] / b)**2, 1), flat)
    if cls == "Sphere":
        return sp.Le(d[0]**2 + d[1]**2 + d[2]**2, r**2)
    if cls == "Ellipsoid":
        return sp.Le((d[0] / a)**2 + (d[1] / b)**2 + (d[2] / c)**2, 1)
    raise KeyError(cls)


def elem_bool(result, single):
    """sympy boolean of the generic element of an is_inside result"""
    if isinstance(result, SymArr):
        if result.axes != (Q,):
            raise ValueError(f"result has axes {result.axes}, expected one entry per point")
        return to_bool(result.inner[()])
    arr = np.asarray(result, dtype=object).reshape(-1)
    if len(arr) != 1:
        raise ValueError(f"single point gave {len(arr)} results")
    return to_bool(arr[0])


def desqrt(cond):
    """sqrt(X) <= c  (c a non-negative number)  ->  X <= c**2, with the side obligation X >= 0;
    sqrt(X) <= r (r symbolic)  ->  r >= 0 and X <= r**2  (same side obligation)"""
    side = []

    def rec(e):
        if isinstance(e, (sp.Le, sp.Gt)) and e.lhs.is_Pow and e.lhs.exp == sp.Rational(1, 2):
            X, c = e.lhs.base, e.rhs
            side.append(sp.Ge(X, 0))
            if isinstance(e, sp.Le):
                if c.is_number and c >= 0:
                    return sp.Le(X, c**2)
                return sp.And(sp.Ge(c, 0), sp.Le(X, c**2))
            if c.is_number and c >= 0:
                return sp.Gt(X, c**2)
            return sp.Or(sp.Lt(c, 0), sp.Gt(X, c**2))
        if isinstance(e, (sp.And, sp.Or, sp.Not)):
            return e.func(*[rec(a) for a in e.args])
        return e
    return rec(cond), side


def curved_is_inside(chk, shapes, cls):
    mod = CURVED[cls][0]
    fkey = chk.function(mod, f"{cls}.is_inside")
    for mode in ("batch", "single"):
        def run():
            obj = make_curved(shapes, cls)
            pts = batch_points() if mode == "batch" else single_point()
            return obj.is_inside(pts)
        point = pq if mode == "batch" else [sp.Symbol(f"p{j}", real=True) for j in range(3)]
        spec = curved_membership(cls, point, None)
        n = 0
        for p in chk.explore(fkey, run, assumptions=Q.facts()):
            if p.kind != "return":
                chk.path_raised(fkey, p)
                continue
            n += 1
            t = f"{mode}:{path_tag(p)}"
            try:
                code = elem_bool(p.value, mode == "single")
            except ValueError as e:
                chk.record(f"{cls}.is_inside:one_result_per_point[{t}]", fkey, "refuted", "shape", detail=str(e), model={})
                continue
            chk.record(f"{cls}.is_inside:one_result_per_point[{t}]", fkey, "proved", "shape")
            code2, side = desqrt(code)
            for k, s_ in enumerate(side):
                chk.prove(f"{cls}.is_inside:norm_argument_nonnegative[{t}:{k}]", fkey, p.pc, s_)
            pc2 = []
            for cnd in p.pc:
                c2, side2 = desqrt(cnd)
                pc2.append(c2)
            if isinstance(spec, tuple):
                lower, upper = spec
                chk.prove(f"{cls}.is_inside:membership:complete_up_to_margin[{t}]", fkey, pc2, sp.Implies(lower, code2),
                          replay=_curved_replay(cls, mode))
                chk.prove(f"{cls}.is_inside:membership:sound[{t}]", fkey, pc2, sp.Implies(code2, upper),
                          replay=_curved_replay(cls, mode))
            else:
                chk.prove_equiv(f"{cls}.is_inside:membership[{t}]", fkey, pc2, code2, spec,
                                replay=_curved_replay(cls, mode))
            # element-wise: the generic element mentions the generic point only (no other row of the batch)
            if mode == "batch":
                from sympy.core.function import AppliedUndef
                others = [a for a in code.atoms(AppliedUndef) if a.func.__name__ == "pt" and a.args[0] != Q.k]
                chk.record(f"{cls}.is_inside:elementwise[{t}]", fkey, "proved" if not others else "refuted", "dependency",
                           detail=str(others[:3]), model={})
        if not n:
            chk.errors.append(f"{cls}.is_inside[{mode}]: no returning path")


def _curved_replay(cls, mode):
    def replay(model):
        obj, vals = curved_real(cls, model)
        if mode == "batch":
            pt = [fval(model, n, d) for n, d in (("pt(k_Q, 0)", 0.3), ("pt(k_Q, 1)", 0.2), ("pt(k_Q, 2)", 0.0))]
            # z3 names applications differently: look for any model entry mentioning pt
            cand = [v for k, v in model.items() if str(k).startswith("pt")]
        else:
            pt = [fval(model, f"p{j}", 0.1) for j in range(3)]
        # search a small grid around the model point for a disagreement with the defining condition
        import itertools
        import math
        axes = {"Circle": (vals.get("r"), vals.get("r"), None), "Sphere": (vals.get("r"),) * 3,
                "Ellipse": (vals.get("a"), vals.get("b"), None), "Ellipsoid": (vals.get("a"), vals.get("b"), vals.get("c"))}[cls]
        c = (vals["cx"], vals["cy"], vals["cz"])
        size = max(x for x in axes if x)
        grid = [-2.0, -1.2, -0.6, 0.0, 0.6, 1.2, 2.0]
        for gx, gy, gz in itertools.product(grid, grid, [0.0] if axes[2] is None else grid):
            p = (c[0] + gx * size, c[1] + gy * size, c[2] + gz * size)
            val = sum(((p[i] - c[i]) / axes[i])**2 for i in range(3) if axes[i])
            if abs(val - 1) < 1e-6:
                continue
            want = val <= 1
            got_b = bool(np.asarray(obj.is_inside([list(p)])).reshape(-1)[0])
            got_s = bool(np.asarray(obj.is_inside(list(p))).reshape(-1)[0])
            if got_b != want or got_s != want:
                return True, {"class": cls, "constructor_args": vals, "point": p, "expected_inside": want,
                              "is_inside_batch": got_b, "is_inside_single": got_s}
        return False, {"class": cls, "constructor_args": vals}
    return replay
