"""C05 -- 3-D point containment equals exact membership.

Deductive: Sphere, Ellipsoid (defining quadratic form) and ConvexPolyhedron (all stored half-spaces) for a batch
of Q points with Q symbolic and for a single (3,) point; element j of the result depends on point j only.
Bounded (never counted as proved): Polyhedron's winding-number code and the spheropolyhedron against exact
rational membership / exact distance on stated corpora.
"""
from __future__ import annotations

import numpy as np
import sympy as sp

from pyvc.sym import to_expr
from pyvc.symarr import SymArr, DEFS, to_bool
from . import polytope_state as PS
from . import containment as CT
from .common import path_tag

LEVEL = "other"


def convex_polyhedron(chk, shapes):
    fkey = chk.function("coxeter.shapes.convex_polyhedron", "ConvexPolyhedron.is_inside")
    fk2 = chk.function("coxeter.shapes.polyhedron", "Polyhedron._point_plane_distances")
    facts = PS.inv_facts() + CT.Q.facts() + PS.F.facts()
    for mode in ("batch", "single"):
        def run():
            o = PS.convex_polyhedron(shapes)
            pts = CT.batch_points() if mode == "batch" else CT.single_point()
            return o.is_inside(pts), o._equations
        point = CT.pq if mode == "batch" else [sp.Symbol(f"p{j}", real=True) for j in range(3)]
        for p in chk.explore(fkey, run, assumptions=facts):
            res, eqs = p.value
            t = f"{mode}:{path_tag(p)}"
            try:
                code = CT.elem_bool(res, mode == "single")
            except ValueError as e:
                chk.record(f"ConvexPolyhedron.is_inside:one_result_per_point[{t}]", fkey, "refuted", "shape", detail=str(e), model={})
                continue
            chk.record(f"ConvexPolyhedron.is_inside:one_result_per_point[{t}]", fkey, "proved", "shape")
            d = DEFS.get(code)
            ok = d is not None and d.kind == "forall" and d.dim is PS.F
            chk.record(f"ConvexPolyhedron.is_inside:is_conjunction_over_all_faces[{t}]", fkey, "proved" if ok else "refuted",
                       "structure", detail=str(code)[:200], model={}, replay=_replay_convex)
            if not ok:
                continue
            E = [to_expr(eqs.inner[j]) for j in range(4)]
            spec_f = sp.Le(E[0] * point[0] + E[1] * point[1] + E[2] * point[2] + E[3], 0)
            body = d.at(PS.F.k)
            chk.prove_equiv(f"ConvexPolyhedron.is_inside:membership_per_face[{t}]", fkey, p.pc, body, spec_f,
                            replay=_replay_convex)
            chk.record(f"Polyhedron._point_plane_distances:inlined[{t}]", fk2, "proved", "inlined")


def _replay_convex(model):
    from .polytope_state import stock_real
    from bounded import oracle
    obj = stock_real("ConvexPolyhedron")
    v = np.asarray(obj.vertices)
    faces = oracle.hull_facets(v.tolist())
    c = v.mean(axis=0)
    rng = np.random.default_rng(0)
    pts = np.vstack([c + rng.uniform(-1.5, 1.5, size=(400, 3)) * np.ptp(v, axis=0)])
    got = obj.is_inside(pts)
    for p, g in zip(pts, got):
        m = _inside_convex_exact(p, v, faces)
        if m is not None and bool(g) != m:
            return True, {"class": "ConvexPolyhedron", "vertices": v.tolist(), "point": p.tolist(), "expected_inside": m,
                          "is_inside": bool(g)}
    return False, {}


def _inside_convex_exact(p, v, faces, margin=1e-6):
    worst = -1e300
    for f in faces:
        a, b, c = v[f[0]], v[f[1]], v[f[2]]
        n = np.cross(b - a, c - a)
        n = n / np.linalg.norm(n)
        worst = max(worst, float(np.dot(n, p - a)))
    if abs(worst) < margin:
        return None
    return worst < 0


def run(chk):
    ld = chk.loader()
    shapes = ld.load("coxeter.shapes")
    chk.trusted += [
        "float64 arithmetic treated as exact real arithmetic (points within rounding distance of the boundary are outside "
        "the property's scope)",
        "a convex polyhedron is the intersection of the half-spaces of its facets; ConvexPolyhedron's stored equations are "
        "its facets' outward unit planes (Inv, C07)",
    ]
    tasks = [("Sphere", lambda c: CT.curved_is_inside(c, shapes, "Sphere")),
             ("Ellipsoid", lambda c: CT.curved_is_inside(c, shapes, "Ellipsoid")),
             ("ConvexPolyhedron", lambda c: convex_polyhedron(c, shapes))]
    from . import c05_winding as W
    chk.trusted += [
        "ray-crossing characterisation of the winding number: for a closed oriented triangulated surface, a point p off the surface and a "
        "line through p that meets no edge, the signed crossings of the line with the triangles sum to twice the winding number about p "
        "(+-1 inside, 0 outside a simple closed surface); a linear map of determinant 1 fixing p leaves it unchanged",
        "assumed contract of the surface triangulation handed to Polyhedron.is_inside (polytri, C02) and of the index map built from "
        "coordinate tuples: `triangles` lists every triangle of every face once, with the face's orientation",
    ]
    for mode in ("batch", "single"):
        tasks.append((f"Polyhedron-{mode}", lambda c, mode=mode: c.section(
            f"Polyhedron.is_inside[{mode}]", "coxeter.shapes.polyhedron::Polyhedron.is_inside", lambda: W.polyhedron_is_inside(c, shapes, ld, mode))))
    chk.run_parallel(tasks)
    from .bounded_c05 import run_bounded
    run_bounded(chk)
