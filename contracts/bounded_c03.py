"""Bounded stand-in for C03 (histories): every sequence of public mutators up to a stated depth, from stock
shapes of each vertex-based class; after every operation every observable is compared with a freshly
constructed shape that has the same current vertices (faces, normal, rounding radius).  Labelled bounded."""
from __future__ import annotations

import itertools
import math
import random

import numpy as np

from .common import real_coxeter
from .polytope_state import stock_real

CLASSES = ["Polygon", "ConvexPolygon", "ConvexSpheropolygon", "Polyhedron", "ConvexPolyhedron", "ConvexSpheropolyhedron"]


def fresh(obj):
    sh = real_coxeter().shapes
    name = type(obj).__name__
    if name == "Polygon":
        return sh.Polygon(obj.vertices.copy(), normal=obj.normal.copy())
    if name == "ConvexPolygon":
        return sh.ConvexPolygon(obj.vertices.copy(), normal=obj.normal.copy())
    if name == "ConvexSpheropolygon":
        return sh.ConvexSpheropolygon(obj.vertices.copy(), obj.radius, normal=obj.normal.copy())
    if name == "Polyhedron":
        return sh.Polyhedron(obj.vertices.copy(), [np.array(f).copy() for f in obj.faces], faces_are_convex=True)
    if name == "ConvexPolyhedron":
        return sh.ConvexPolyhedron(obj.vertices.copy())
    if name == "ConvexSpheropolyhedron":
        return sh.ConvexSpheropolyhedron(obj.vertices.copy(), obj.radius)
    raise KeyError(name)


def _canon_cycle(f):
    f = [int(x) for x in f]
    k = f.index(min(f))
    return tuple(f[k:] + f[:k])


def observables(obj):
    """name -> value (floats / arrays / hashable structures); members that legitimately raise are recorded by type"""
    out = {}
    name = type(obj).__name__
    scalar = ["area", "signed_area", "perimeter", "volume", "surface_area", "mean_curvature", "tau", "asphericity",
              "iq", "num_edges", "num_faces", "num_vertices", "radius", "minimal_centered_bounding_circle_radius",
              "maximal_centered_bounded_circle_radius", "minimal_centered_bounding_sphere_radius",
              "maximal_centered_bounded_sphere_radius", "minimal_bounding_circle_radius", "minimal_bounding_sphere_radius",
              "circumcircle_radius", "incircle_radius", "circumsphere_radius", "insphere_radius", "polar_moment_inertia"]
    vector = ["centroid", "center", "inertia_tensor", "planar_moments_inertia", "normal", "edge_lengths"]
    for m in scalar + vector:
        if not hasattr(type(obj), m):
            continue
        try:
            v = getattr(obj, m)
            if callable(v):
                continue
            out[m] = np.asarray(v, dtype=float)
        except (NotImplementedError, RuntimeError, ValueError) as e:
            out[m] = f"raises {type(e).__name__}"
        except AttributeError as e:
            out[m] = f"raises AttributeError"
    core = obj
    if name == "ConvexSpheropolyhedron":
        core = obj.polyhedron
    if name == "ConvexSpheropolygon":
        core = obj.polygon
    if core is not obj:
        # the core of a spheropolytope is public (.polygon / .polyhedron): its own measures must follow every operation too
        for m in ("centroid", "area", "perimeter", "volume", "surface_area", "signed_area", "inertia_tensor", "planar_moments_inertia"):
            if hasattr(type(core), m):
                try:
                    out[f"core.{m}"] = np.asarray(getattr(core, m), dtype=float)
                except (NotImplementedError, RuntimeError, ValueError) as e:
                    out[f"core.{m}"] = f"raises {type(e).__name__}"
    if hasattr(type(obj), "distance_to_surface"):
        try:
            out["distance_to_surface"] = np.asarray(obj.distance_to_surface(np.array([0.0, 0.7, 1.9, 3.3, 4.4, 5.9])), dtype=float)
        except (NotImplementedError, RuntimeError, ValueError) as e:
            out["distance_to_surface"] = f"raises {type(e).__name__}"
    if hasattr(core, "faces") and hasattr(core, "_equations"):
        eqs = {}
        for f, e in zip(core.faces, core._equations):
            eqs[frozenset(int(x) for x in f)] = np.asarray(e, dtype=float)
        out["equations_by_face"] = eqs
        out["faces"] = sorted(_canon_cycle(f) for f in core.faces)
        nb = {}
        for f, ns in zip(core.faces, core.neighbors):
            nb[frozenset(int(x) for x in f)] = sorted(sorted(int(x) for x in core.faces[int(j)]) for j in ns)
        out["neighbors_by_face"] = nb
        out["edges"] = sorted(tuple(int(x) for x in e) for e in core.edges)
        try:
            out["face_areas"] = np.sort(np.asarray(core.get_face_area(), dtype=float))
        except Exception as e:  # noqa: BLE001
            out["face_areas"] = f"raises {type(e).__name__}"
    if hasattr(core, "_simplex_equations"):
        # the triangulation of a face with more than three vertices is not unique, so the cached simplex planes are
        # checked for coherence with the current vertices (unit outward normal through the simplex), not by key
        v = np.asarray(core.vertices, float)
        cm = v.mean(axis=0)
        worst = 0.0
        for s, e in zip(core._simplices, core._simplex_equations):
            a, b_, c_ = v[s[0]], v[s[1]], v[s[2]]
            n = np.cross(b_ - a, c_ - a)
            n = n / np.linalg.norm(n)
            if np.dot(n, a - cm) < 0:
                n = -n
            want = np.append(n, -np.dot(n, a))
            worst = max(worst, float(np.abs(np.asarray(e, float) - want).max()))
        out["simplex_equations_coherent"] = worst <= 1e-7 * max(1.0, float(np.abs(v).max()))
    # containment of a fixed probe set expressed relative to the shape
    v = np.asarray(core.vertices, dtype=float)
    c = v.mean(axis=0)
    # probes well away from the boundary (scaled towards / beyond vertices from the vertex mean)
    probes = [c, c + 0.45 * (v[0] - c), c + 1.7 * (v[1] - c), c + 3.0 * (v[2] - c), v.min(axis=0) - 0.1 * np.ptp(v),
              c + 0.3 * (v[-1] - c)]
    try:
        out["is_inside"] = [bool(x) for x in obj.is_inside(np.asarray(probes))]
    except (NotImplementedError,):
        pass
    return out


def _close(a, b, size):
    if isinstance(a, str) or isinstance(b, str):
        return a == b
    if isinstance(a, dict):
        return a.keys() == b.keys() and all(_close(a[k], b[k], size) for k in a)
    if isinstance(a, np.ndarray) or isinstance(b, np.ndarray):
        a, b = np.asarray(a, float), np.asarray(b, float)
        if a.shape != b.shape:
            return False
        sc = max(1.0, float(np.abs(b).max()) if b.size else 1.0)
        return bool(np.all(np.abs(a - b) <= 1e-7 * sc))
    return a == b


def diff(obj):
    """names of observables that differ between obj and a fresh shape with the same geometry"""
    a, b = observables(obj), observables(fresh(obj))
    size = 1.0
    bad = []
    for k in sorted(set(a) | set(b)):
        if k in ("inertia_tensor", "planar_moments_inertia") and type(obj).__name__ in ("ConvexPolygon", "ConvexSpheropolygon"):
            pass
        if k not in a or k not in b or not _close(a[k], b[k], size):
            bad.append((k, _brief(a.get(k)), _brief(b.get(k))))
    return bad


def _brief(v):
    if isinstance(v, np.ndarray):
        return np.round(v, 6).tolist()
    if isinstance(v, dict):
        return f"<{len(v)} entries>"
    s = repr(v)
    return s if len(s) < 200 else s[:200] + "..."


def chirality(obj):
    core = getattr(obj, "polyhedron", obj)
    v = np.asarray(core.vertices, float)
    if v.shape[0] < 4 or not hasattr(core, "faces"):
        return 0
    size = float(np.ptp(v, axis=0).max()) or 1.0
    # first vertex quadruple (in index order) that is clearly non-coplanar; vertex order is kept by all mutators
    for q in itertools.combinations(range(min(len(v), 8)), 4):
        d = np.linalg.det(np.array([v[q[1]] - v[q[0]], v[q[2]] - v[q[0]], v[q[3]] - v[q[0]]]))
        if abs(d) > 1e-3 * size**3:
            return (q, int(np.sign(d)))
    return 0


def operations(obj):
    """operation alphabet for this object: name -> callable(obj); targets are relative to the current value"""
    ops = {}
    cls = type(obj)
    for name in dir(cls):
        attr = getattr(cls, name, None)
        if isinstance(attr, property) and attr.fset is not None:
            if name in ("centroid", "center"):
                def move(o, n=name):
                    t = np.array(_centre_target(o), dtype=np.float64)
                    setattr(o, n, t)
                    t += 1000.0           # the caller goes on using its array: the shape must not follow it
                ops[f"{name}=(1,-2,3)"] = move
                continue
            for fac in (0.5, 2.0, 1.00002):
                def op(o, n=name, fac=fac):
                    cur = getattr(o, n)
                    target = fac * cur if cur != 0 else 0.3
                    setattr(o, n, target)
                    got = getattr(o, n)
                    if not abs(float(got) - float(target)) <= 1e-9 * abs(float(target)):
                        raise MustRaise(f"{n} was assigned {float(target)!r} but reads back {float(got)!r}")
                ops[f"{name}*={fac}"] = op
            ops[f"{name}=-1 (must raise)"] = lambda o, n=name: _must_raise(o, n, -1.0)
    for m in ("diagonalize_inertia", "merge_faces", "sort_faces", "to_hoomd"):
        if hasattr(cls, m):
            ops[f"{m}()"] = lambda o, m=m: getattr(o, m)()
    return ops


def _centre_target(o):
    if type(o).__name__ in ("Polygon", "ConvexPolygon", "ConvexSpheropolygon"):
        c = np.asarray(getattr(o, "polygon", o).centroid, float)
        n = np.asarray(o.normal, float)
        t = np.array([1.0, -2.0, 3.0])
        return t          # a polygon may be moved off its plane: translation is still rigid
    return np.array([1.0, -2.0, 3.0])


class MustRaise(Exception):
    pass


def _must_raise(o, name, value):
    before = {k: (np.array(v, dtype=float).copy() if isinstance(v, np.ndarray) else v) for k, v in vars(getattr(o, "polyhedron", getattr(o, "polygon", o))).items()
              if isinstance(v, (np.ndarray, float, int))}
    try:
        getattr(o, name)
    except (NotImplementedError, RuntimeError, AttributeError):
        return
    try:
        setattr(o, name, value)
    except ValueError:
        core = getattr(o, "polyhedron", getattr(o, "polygon", o))
        for k, v in before.items():
            now = vars(core)[k]
            if isinstance(v, np.ndarray):
                if not np.array_equal(np.asarray(now, float), v):
                    raise MustRaise(f"{name}={value} raised ValueError but changed field {k}")
        return
    raise MustRaise(f"{name}={value} was accepted")


def run_sequence(cls_name, variant, seq_names):
    """apply the operations; returns None or a description of the first incoherence"""
    obj = stock_real(cls_name, variant)
    ch0 = chirality(obj)
    ops = operations(obj)
    done = []
    try:
        observables(obj)          # a first read of everything: memoised values exist before the first operation
    except Exception:  # noqa: BLE001
        pass
    for nm in seq_names:
        op = ops[nm]
        try:
            op(obj)
        except MustRaise as e:
            return {"after": done + [nm], "problem": str(e)}
        except (NotImplementedError, RuntimeError, AttributeError, ValueError) as e:
            # an operation this class does not support / no such ball exists: the shape must be unchanged
            pass
        done.append(nm)
        if chirality(obj) != ch0:
            return {"after": done, "problem": "the shape was mirrored (orientation of a fixed vertex quadruple flipped)"}
        try:
            bad = diff(obj)
        except Exception as e:  # noqa: BLE001
            return {"after": done, "problem": f"observables could not be compared: {type(e).__name__}: {e}"}
        if bad:
            return {"after": done, "problem": "observables differ from a freshly constructed shape", "differences": bad[:6]}
    return None


def _core_alphabet(names):
    """one representative per distinct mutator implementation (quick tier, pairs)"""
    keep = []
    for a in names:
        if a.endswith("()") or a.startswith(("centroid=", )):
            keep.append(a)
        elif (a.endswith("*=2.0") or (a.endswith("*=1.00002") and a.split("*")[0] in ("volume", "area"))) and a.split("*")[0] in ("volume", "surface_area", "area", "perimeter", "radius", "mean_curvature",
                                                           "circumsphere_radius", "circumcircle_radius",
                                                           "minimal_centered_bounding_sphere_radius",
                                                           "minimal_centered_bounding_circle_radius"):
            keep.append(a)
        elif a.startswith(("volume=-1", "area=-1")):
            keep.append(a)
    return keep


def run_bounded(chk, depth=None, only_setters=False):
    depth = depth or (2 if chk.bounded_tier == "quick" else 3)
    fkey = "history explorer over the public mutators of the six vertex-based classes"
    chk.functions.setdefault(fkey, {"sha": "-", "paths": 0, "lines": 0, "bounded_only": True})
    tasks = []
    results = []

    def explore_class(c, cls_name):
        n_seq = n_ops = 0
        failures = []
        for variant in (0, 1):
            names = sorted(operations(stock_real(cls_name, variant)))
            # depth-1 exhaustively, depth-2 exhaustively over a reduced alphabet in the quick tier
            alphabet = [a for a in names if not a.endswith("()")] if only_setters else names
            seqs = [(a,) for a in alphabet]
            if depth >= 2:
                red = _core_alphabet(alphabet) if chk.bounded_tier == "quick" else alphabet
                seqs += list(itertools.product(red, repeat=2))
            if depth >= 3:
                rnd = random.Random(chk.seed + variant)
                seqs += [tuple(rnd.choice(alphabet) for _ in range(3)) for _ in range(300)]
            for seq in seqs:
                n_seq += 1
                n_ops += len(seq)
                r = run_sequence(cls_name, variant, seq)
                if r:
                    failures.append((variant, seq, r))
                    if len(failures) >= 3:
                        break
        for variant, seq, r in failures[:3]:
            c.record(f"bounded:history[{cls_name}:{' ; '.join(r['after'])}]", fkey, "bounded-fail", "history-explorer",
                     detail=str(r)[:600], model={}, kind="bounded",
                     replay=lambda m, cls_name=cls_name, variant=variant, r=r: (True, {
                         "class": cls_name, "stock_variant": variant, "operations": r["after"], **{k: v for k, v in r.items() if k != "after"}}))
        if not failures:
            c.record(f"bounded:history[{cls_name}]", fkey, "bounded-pass", "history-explorer", kind="bounded",
                     detail=f"{n_seq} sequences, {n_ops} operations")
        c.bounded.append({"clause": f"{cls_name}: after every operation of every sequence all observables equal those of a "
                                    "fresh shape with the same geometry; reorientation keeps chirality; refused targets leave the state unchanged",
                          "bound": f"2 stock shapes; all sequences of length 1, all of length 2 "
                                   f"({'reduced alphabet' if chk.bounded_tier == 'quick' else 'full alphabet'})"
                                   + ("; 300 seeded sequences of length 3 per shape" if depth >= 3 else ""),
                          "evaluations": n_ops, "distinct_nontrivial": n_seq,
                          "rule": "distinct = different operation sequences; operations: every settable property x {0.5, 2} x current, "
                                  "-1 (must raise), centroid/center move, diagonalize_inertia, merge_faces, sort_faces, to_hoomd",
                          "samples": [{"class": cls_name, "sequence": list(s)} for s in seqs[:2]],
                          "failures": len(failures), "exhaustive": False})
    for cls_name in CLASSES:
        tasks.append((f"history/{cls_name}", lambda c, cls_name=cls_name: explore_class(c, cls_name)))
    chk.run_parallel(tasks)
