"""Bounded stand-in for C14: distance_to_surface of ConvexPolygon / ConvexSpheropolygon / Circle / Ellipse
against an exact ray-boundary computation from the (core) centroid."""
from __future__ import annotations

import math

import numpy as np

from bounded import corpus, oracle
from .common import real_coxeter


def ray_polygon(c, theta, pts):
    """distance from c along (cos t, sin t) to the boundary of the convex polygon pts (c strictly inside)"""
    dx, dy = math.cos(theta), math.sin(theta)
    best = math.inf
    n = len(pts)
    for k in range(n):
        (x0, y0), (x1, y1) = pts[k], pts[(k + 1) % n]
        ex, ey = x1 - x0, y1 - y0
        den = dx * ey - dy * ex
        if abs(den) < 1e-300:
            continue
        t = ((x0 - c[0]) * ey - (y0 - c[1]) * ex) / den
        u = ((x0 - c[0]) * dy - (y0 - c[1]) * dx) / den
        if t > 0 and -1e-12 <= u <= 1 + 1e-12:
            best = min(best, t)
    return best


def ray_spheropolygon(c, theta, pts, r):
    """distance from c to the boundary of the Minkowski sum of the convex polygon and a disc of radius r"""
    if r == 0:
        return ray_polygon(c, theta, pts)
    dx, dy = math.cos(theta), math.sin(theta)
    best = 0.0
    n = len(pts)
    A = sum(pts[k][0] * pts[(k + 1) % n][1] - pts[(k + 1) % n][0] * pts[k][1] for k in range(n))
    s = 1.0 if A > 0 else -1.0
    # the boundary point is the farthest intersection of the ray with the union of: the polygon, edge rectangles, vertex discs
    cand = [ray_polygon(c, theta, pts)]
    for k in range(n):
        (x0, y0), (x1, y1) = pts[k], pts[(k + 1) % n]
        ex, ey = x1 - x0, y1 - y0
        L = math.hypot(ex, ey)
        nx, ny = s * ey / L, -s * ex / L           # outward normal
        rect = [(x0, y0), (x1, y1), (x1 + r * nx, y1 + r * ny), (x0 + r * nx, y0 + r * ny)]
        t = _ray_exit_convex(c, (dx, dy), rect)
        if t is not None:
            cand.append(t)
        # disc around vertex k
        fx, fy = c[0] - x0, c[1] - y0
        b = fx * dx + fy * dy
        cc = fx * fx + fy * fy - r * r
        disc = b * b - cc
        if disc >= 0:
            t2 = -b + math.sqrt(disc)
            if t2 > 0:
                cand.append(t2)
    return max(x for x in cand if x != math.inf)


def _ray_exit_convex(c, d, poly):
    """largest t with c + t d inside the convex polygon poly (or None if the ray misses it)"""
    tmin, tmax = 0.0, math.inf
    n = len(poly)
    A = sum(poly[k][0] * poly[(k + 1) % n][1] - poly[(k + 1) % n][0] * poly[k][1] for k in range(n))
    s = 1.0 if A > 0 else -1.0
    for k in range(n):
        (x0, y0), (x1, y1) = poly[k], poly[(k + 1) % n]
        ex, ey = x1 - x0, y1 - y0
        nx, ny = s * ey, -s * ex                    # outward
        num = nx * (x0 - c[0]) + ny * (y0 - c[1])
        den = nx * d[0] + ny * d[1]
        if abs(den) < 1e-300:
            if num < 0:
                return None
            continue
        t = num / den
        if den > 0:
            tmax = min(tmax, t)
        else:
            tmin = max(tmin, t)
    if tmax < tmin or tmax <= 0:
        return None
    return tmax


def angle_set(pts, c, tier):
    base = list(np.linspace(-4 * math.pi, 4 * math.pi, 97 if tier == "quick" else 801))
    base += [k * math.pi / 4 for k in range(-8, 9)]
    # angles a rounding error away from 0 and 2 pi (np.mod maps tiny negative angles to exactly 2 pi)
    base += [-5e-324, -1e-17, -2e-16, -math.sin(math.pi), 5e-324, 1e-17, 2 * math.pi - 4e-16, 2 * math.pi, 2 * math.pi + 4e-16,
             -2 * math.pi, math.nextafter(0.0, -1.0), math.nextafter(2 * math.pi, 0.0)]
    for (x, y) in pts:                      # directions of the vertices, and their floating-point neighbours
        a = math.atan2(y - c[1], x - c[0])
        base += [a, a + 2 * math.pi, a - 2 * math.pi, math.nextafter(a, 10.0), math.nextafter(a, -10.0)]
    return base


def run_bounded(chk):
    cox = real_coxeter()
    fkey = "distance_to_surface of ConvexPolygon / ConvexSpheropolygon / Circle / Ellipse end-to-end"
    chk.functions.setdefault(fkey, {"sha": "-", "paths": 0, "lines": 0, "bounded_only": True})
    fails = []
    n_eval = n_cases = 0
    polys = {k: v for k, v in corpus.polygons_2d().items()
             if k in ("triangle", "unit_square", "rect", "quad_irregular", "pentagon_irregular", "regular5", "regular7", "regular12")}
    # shapes whose centroid does not project orthogonally onto every edge (the foot of the perpendicular lies outside the edge)
    polys["sheared_parallelogram"] = [(0, 0), (1, 0), (4, 1), (3, 1)]
    polys["obtuse_triangle"] = [(0, 0), (6, 0), (5, 1)]
    polys["long_trapezoid"] = [(0, 0), (8, 0), (7.5, 1), (6.5, 1)]
    for name, pts in polys.items():
        pts = [(float(x), float(y)) for x, y in pts]
        for rot in (0.0, 0.37):
            cr, sr = math.cos(rot), math.sin(rot)
            P = [(cr * x - sr * y + 1.5, sr * x + cr * y - 2.0) for x, y in pts]
            _, (cx, cy), _, _, _ = oracle.polygon_measures_2d([(float(a), float(b)) for a, b in P])
            c = (float(cx), float(cy))
            size = max(math.dist(c, p) for p in P)
            angles = np.array(angle_set(P, c, chk.bounded_tier))
            for order in ("ccw", "cw", "shuffled"):
              # the vertex order is the caller's business: clockwise input gives a polygon with normal -z, which is the same point set
              import random as _random
              idx = list(range(len(P)))
              if order == "cw":
                  idx = idx[::-1]
              elif order == "shuffled":
                  _random.Random(len(P) + int(100 * rot)).shuffle(idx)
              v3 = [[P[i][0], P[i][1], 0.0] for i in idx]
              for r in ((None, 0.0, 1e-3 * size, 0.1 * size, size, 10 * size) if order == "ccw" else (None, 0.1 * size, size)):
                  n_cases += 1
                  try:
                      shape = cox.shapes.ConvexPolygon(v3) if r is None else cox.shapes.ConvexSpheropolygon(v3, r)
                      got = np.asarray(shape.distance_to_surface(angles.copy()), dtype=float)
                  except Exception as e:  # noqa: BLE001
                      fails.append((f"{name}/rot={rot}/r={r}", {"exception": f"{type(e).__name__}: {e}"}))
                      continue
                  n_eval += len(angles)
                  worst = None
                  for th, g in zip(angles, got):
                      want = ray_polygon(c, th, P) if r is None else ray_spheropolygon(c, th, P, r)
                      # skip directions that hit a vertex / arc junction within rounding (tiny margin of the boundary is immaterial)
                      if not (abs(g - want) <= 1e-6 * max(size, want)):
                          worst = (float(th), float(g), float(want))
                          break
                  if worst:
                      fails.append((f"{'ConvexPolygon' if r is None else 'ConvexSpheropolygon'}:{name}/{order}/rot={rot}/r={r if r is None else round(r, 6)}",
                                    {"vertices": v3, "radius": r, "angle": worst[0], "distance_to_surface": worst[1],
                                     "exact_distance_from_centroid": worst[2]}))
    for cls, args in (("Circle", (1.7,)), ("Ellipse", (1.2, 2.9)), ("Ellipse", (3.0, 0.4))):
        shape = getattr(cox.shapes, cls)(*args, (2.0, -1.0, 0.0))
        angles = np.array(angle_set([], (0, 0), chk.bounded_tier))
        got = np.asarray(shape.distance_to_surface(angles), float)
        n_eval += len(angles)
        n_cases += 1
        a, b = (args[0], args[0]) if cls == "Circle" else args
        for th, g in zip(angles, got):
            val = (g * math.cos(th) / a)**2 + (g * math.sin(th) / b)**2
            if not (g > 0 and abs(val - 1) < 1e-9):
                fails.append((f"{cls}{args}", {"angle": float(th), "distance": float(g), "ellipse_equation_value": val}))
                break
    # the same object after public moves / resizes: distances equal those of a fresh shape with the current vertices
    from . import stale
    ang = np.array(angle_set([], (0, 0), "quick"))

    def dist(shape):
        return {"distance_to_surface": np.asarray(shape.distance_to_surface(ang.copy()), float)}
    pent = [[x + 1.5, y - 2.0, 0.0] for x, y in corpus.polygons_2d()["pentagon_irregular"]]
    quad = [[x - 3.0, y + 0.5, 0.0] for x, y in corpus.polygons_2d()["quad_irregular"]]
    for label, obj in (("ConvexPolygon:pentagon", cox.shapes.ConvexPolygon(pent)), ("ConvexSpheropolygon:pentagon", cox.shapes.ConvexSpheropolygon(pent, 0.4)),
                       ("ConvexSpheropolygon:quad", cox.shapes.ConvexSpheropolygon(quad, 1.5)), ("ConvexPolygon:quad", cox.shapes.ConvexPolygon(quad))):
        n_cases += 1
        muts = stale.standard_mutators(obj)
        if hasattr(obj, "polygon"):
            muts = muts + [("polygon.centroid+=(1,-2,0)", lambda o: setattr(o.polygon, "centroid", np.asarray(o.polygon.centroid, float) + np.array([1.0, -2.0, 0.0])))]
        n_eval += len(ang) * stale.read_mutate_read(obj, dist, f"history:{label}", fails, mutators=muts)
    for name, info in fails[:5]:
        chk.record(f"bounded:distance_to_surface[{name}]", fkey, "bounded-fail", "exact-ray", detail=str(info)[:500], model={},
                   kind="bounded", replay=lambda m, info=info, name=name: (True, {"case": name, **info}))
    if not fails:
        chk.record("bounded:distance_to_surface", fkey, "bounded-pass", "exact-ray", kind="bounded", detail=f"{n_eval} angles")
    chk.bounded.append({"clause": "centre + d(theta)(cos theta, sin theta) lies on the boundary, centre = centroid (core centroid for spheropolygons)",
                        "bound": "8 convex polygons (regular and irregular, axis-aligned edges) x 2 in-plane rotations, off-origin; radii "
                                 "{none, 0, 1e-3, 0.1, 1, 10} x size; theta: 97 (quick) / 801 points of [-4pi, 4pi], multiples of pi/4, vertex "
                                 "directions +- 2pi; tolerance 1e-6 size; 4 objects read, then moved / resized through their public setters and re-read "
                                 "against a fresh construction",
                        "evaluations": n_eval, "distinct_nontrivial": n_cases, "rule": "distinct = (polygon, rotation, radius)",
                        "samples": [{"polygon": "quad_irregular", "radius": 0.5}], "failures": len(fails), "exhaustive": False})
