"""C01 -- ConvexPolyhedron volume, area, centroid, inertia tensor equal the exact integrals over the
solid bounded by its stored oriented triangulation (for every number of vertices / simplices).

Spec: M[h] = sum_k  int_{tet(0; a_k, b_k, c_k)} h   (signed tetrahedra; specs.moments.integrate_tet).
Surface-integral formulas of the code are related to M[h] by *edge-cancellation certificates*
(pyvc.sigma.edge_certificate): the difference of the row bodies must be g(a,b)+g(b,c)+g(c,a) with g
antisymmetric, which sums to zero over a closed oriented surface (ghost invariant Comb).
"""
from __future__ import annotations

import numpy as np
import sympy as sp

from pyvc import sigma, paths
from pyvc.sym import Sym, to_expr, wrap
from pyvc.symarr import SymArr, sum_over
from specs.moments import X, Y, Z, integrate_tet
from . import polytope_state as PS
from .common import path_tag, ex

COORD = (X, Y, Z)
MODC = "coxeter.shapes.convex_polyhedron"


def _cert(chk, name, fkey, pc, code_expr, spec_expr, replay=None):
    from .certs import surface_cert
    return surface_cert(chk, name, fkey, pc, code_expr, spec_expr, PS.K, PS.row_atoms(), replay=replay)


def _concretise(chk, name, fk, expr, reference, volume=False):
    """cross-check of the engine (pyvc.concrete): the symbolic value with the vertex / simplex arrays of a real, placed pyramid against the same
    method run by CPython on that object"""
    from pyvc import concrete
    from .common import real_coxeter
    cox = real_coxeter()
    P = np.array([[0.0, 0, 0], [2, 0, 0], [2, 2, 0], [0, 2, 0], [0.5, 0.75, 3]]) + np.array([1.5, -0.5, 0.25])
    o = cox.shapes.ConvexPolyhedron(P)
    V, Sx = np.asarray(o._vertices, float), np.asarray(o._simplices, int)
    env = concrete.Env(sizes={PS.N: len(V), PS.K: len(Sx)}, arrays={"V": V, "S": Sx})
    # the cached fields of the symbolic pre-state are those of the real object (class invariant)
    want = reference(o)
    concrete.cross_check(chk, name, fk, expr, env, (), np.asarray(want))


def run(chk):
    ld = chk.loader()
    shapes = ld.load("coxeter.shapes")
    chk.trusted += [
        "float64 arithmetic treated as exact real arithmetic",
        "the integral over the solid bounded by a closed oriented triangulated surface is the sum of signed "
        "tetrahedra from any apex; in such a surface antisymmetric edge terms cancel (edge-cancellation lemma)",
        "ghost invariant Comb(V,S): the stored simplices form a closed, consistently outward triangulation of the "
        "boundary of conv(V) -- established by Qhull + _sort_simplices (assumed, bounded stand-in), preserved by "
        "orientation-preserving similarities",
        "Dirichlet formula for monomial integrals over simplices (specs/moments.py)",
    ]
    chk.assumed += ["scipy.spatial.ConvexHull returns the hull's vertices, a triangulation of its boundary, volume and area"]
    A, B, C = PS.row_atoms()
    facts = PS.inv_facts()
    from .bounded_c01 import replay_measure

    Nv = PS.raw_normal(A, B, C)
    tri_area = sp.sqrt(PS.radicand(Nv)) / 2
    c = [sp.Symbol(f"c{i}", real=True) for i in range(3)]
    r2 = X**2 + Y**2 + Z**2

    _tasks = []

    def sec_0():
        fk = chk.function(MODC, "ConvexPolyhedron._calculate_signed_volume")

        def run_sv():
            o = PS.convex_polyhedron(shapes)
            r = o._calculate_signed_volume()
            return r, o._volume
        for p in chk.explore(fk, run_sv, assumptions=facts):
            r, vol = p.value
            _cert(chk, "signed_volume:post", fk, p.pc, ex(r), PS.solid_moment(1), replay=replay_measure("volume"))
            _concretise(chk, "ConvexPolyhedron._calculate_signed_volume", fk, ex(r), lambda o: o._calculate_signed_volume())
            chk.prove_eq("signed_volume:caches_abs", fk, p.pc, ex(vol), sp.Abs(ex(r)))
    _tasks.append(("calculate_signed_volume", lambda c_, f_=sec_0: f_()))

    def sec_1():
        fk = chk.function(MODC, "ConvexPolyhedron._find_triangle_array_area")

        def run_ta(sum_result):
            o = PS.convex_polyhedron(shapes)
            return o._find_triangle_array_area(o._vertices[o._simplices], sum_result=sum_result)
        for p in chk.explore(fk, lambda: run_ta(False), assumptions=facts):
            row = to_expr(p.value.inner[()])
            chk.prove_eq("tri_area:row", fk, p.pc, row, tri_area)
        for p in chk.explore(fk, lambda: run_ta(True), assumptions=facts):
            chk.record("tri_area:sum", fk, "proved" if sigma.is_zero(ex(p.value) - sum_over(PS.K, tri_area)) else "refuted",
                       "sigma-normal-form", model={}, replay=replay_measure("surface_area"))
        fk = chk.function(MODC, "ConvexPolyhedron._calculate_surface_area")

        def run_sa():
            o = PS.convex_polyhedron(shapes)
            r = o._calculate_surface_area()
            return r, o._area
        for p in chk.explore(fk, run_sa, assumptions=facts):
            r, area = p.value
            ok = sigma.is_zero(ex(r) - sum_over(PS.K, tri_area)) and sigma.is_zero(ex(area) - ex(r))
            chk.record("surface_area:post", fk, "proved" if ok else "refuted", "sigma-normal-form", model={},
                       replay=replay_measure("surface_area"))
    _tasks.append(("triangle_areas_surface_area", lambda c_, f_=sec_1: f_()))

    def sec_2():
        for member, field, spec in (("volume", "_volume", PS.solid_moment(1)),
                                    ("surface_area", "_area", sum_over(PS.K, tri_area))):
            fk = chk.function(MODC, f"ConvexPolyhedron.{member}[get]")

            def run_g(member=member):
                o = PS.convex_polyhedron(shapes)
                return getattr(o, member)
            for p in chk.explore(fk, run_g, assumptions=facts):
                chk.record(f"{member}[get]:post", fk, "proved" if sigma.is_zero(ex(p.value) - spec) else "refuted",
                           "sigma-normal-form", model={}, replay=replay_measure(member))
        fk = chk.function(MODC, "ConvexPolyhedron.centroid[get]")
        fkc = chk.function("coxeter.shapes.base_classes", "Shape.center[get]")
        for member, fkk in (("centroid", fk), ("center", fkc)):
            def run_c(member=member):
                o = PS.convex_polyhedron(shapes)
                return getattr(o, member)
            for p in chk.explore(fkk, run_c, assumptions=facts):
                for i in range(3):
                    spec = PS.solid_moment(COORD[i]) / PS.solid_moment(1)
                    chk.record(f"{member}[get]:post[{'xyz'[i]}]", fkk,
                               "proved" if sigma.is_zero(ex(p.value[i]) - spec) else "refuted", "sigma-normal-form",
                               model={}, replay=replay_measure("centroid"))
    _tasks.append(("getters_return_the_cached_fields_inv", lambda c_, f_=sec_2: f_()))

    def sec_3():
        fk = chk.function(MODC, "ConvexPolyhedron._centroid_from_triangulated_surface")

        def run_cs():
            o = PS.convex_polyhedron(shapes)
            o._centroid = None
            o._centroid_from_triangulated_surface()
            return o._centroid, o._volume
        for p in chk.explore(fk, run_cs, assumptions=facts):
            cen, vol = p.value
            for i in range(3):
                def ref(o, i=i):
                    o._centroid_from_triangulated_surface()
                    return o._centroid[i]
                _concretise(chk, f"ConvexPolyhedron._centroid_from_triangulated_surface[{'xyz'[i]}]", fk, ex(cen[i]), ref, volume=True)
            for i in range(3):
                # centroid_i * volume  ==  M[x_i]      (volume is the cached M[1] by Inv)
                _cert(chk, f"centroid:stokes[{'xyz'[i]}]", fk, p.pc, sigma.cancel_sums(ex(cen[i]) * ex(vol)),
                      PS.solid_moment(COORD[i]), replay=replay_measure("centroid"))
    _tasks.append(("centroid_from_the_surface_curl_formula", lambda c_, f_=sec_3: f_()))

    def sec_4():
        fk = chk.function(MODC, "ConvexPolyhedron._compute_inertia_tensor")

        def run_it():
            o = PS.convex_polyhedron(shapes)
            o._centroid = np.array([Sym(x) for x in c], dtype=object)     # any row-independent centre
            return o._compute_inertia_tensor()
        for p in chk.explore(fk, run_it, assumptions=facts):
            it = p.value
            for i in range(3):
                for j in range(i, 3):
                    h = (r2 if i == j else 0) - COORD[i] * COORD[j]
                    spec = PS.solid_moment(h, shift=c)
                    _cert(chk, f"inertia:stokes[{'xyz'[i]}{'xyz'[j]}]", fk, p.pc, ex(it[i, j]), spec,
                          replay=replay_measure("inertia_tensor"))
                    if i != j:
                        chk.prove_eq(f"inertia:symmetric[{'xyz'[i]}{'xyz'[j]}]", fk, p.pc, ex(it[i, j]), ex(it[j, i]))
    _tasks.append(("inertia_tensor_about_the_centroid", lambda c_, f_=sec_4: f_()))

    def sec_5():
        fk = chk.function("coxeter.shapes.utils", "translate_inertia_tensor")
        utils = ld.load("coxeter.shapes.utils")
        d = [sp.Symbol(f"d{i}", real=True) for i in range(3)]
        J = [[sp.Symbol(f"J{min(i, j)}{max(i, j)}", real=True) for j in range(3)] for i in range(3)]
        m = sp.Symbol("m", real=True)

        def run_tr():
            disp = np.array([Sym(x) for x in d], dtype=object)
            ten = np.array([[Sym(J[i][j]) for j in range(3)] for i in range(3)], dtype=object)
            return utils.translate_inertia_tensor(disp, ten, Sym(m))
        for p in chk.explore(fk, run_tr):
            out = p.value
            dd = sum(x * x for x in d)
            for i in range(3):
                for j in range(3):
                    spec = J[i][j] + m * ((dd if i == j else 0) - d[i] * d[j])
                    chk.prove_eq(f"translate_inertia_tensor:post[{i}{j}]", fk, p.pc, ex(out[i, j]), spec)
    _tasks.append(("translate_inertia_tensor_parallel_axis", lambda c_, f_=sec_5: f_()))

    def sec_6():
        # callee contracts: _compute_inertia_tensor returns M[h_ij(. - c)] with c = self.centroid;
        # Inv: centroid_i = M[x_i]/M[1], volume = M[1].  All in abstract moment symbols m_pqr.
        fk = chk.function(MODC, "ConvexPolyhedron.inertia_tensor[get]")
        mom = {}

        def msym(pw):
            return mom.setdefault(pw, sp.Symbol("m_%d%d%d" % pw, real=True))

        def abstract(h):
            """M[h] as a linear combination of moment symbols (S2)"""
            poly = sp.Poly(sp.expand(h), X, Y, Z)
            return sum(coef * msym(tuple(mon)) for mon, coef in poly.terms())
        m0 = msym((0, 0, 0))
        cen = [msym(tuple(1 if k == i else 0 for k in range(3))) / m0 for i in range(3)]

        def run_full():
            o = PS.convex_polyhedron(shapes)
            o._volume = Sym(m0)
            o._centroid = np.array([wrap(x) for x in cen], dtype=object)

            def stub(centered=True):
                out = np.empty((3, 3), dtype=object)
                for i in range(3):
                    for j in range(3):
                        h = (r2 if i == j else 0) - COORD[i] * COORD[j]
                        hs = h.subs({X: X - cen[0], Y: Y - cen[1], Z: Z - cen[2]}, simultaneous=True)
                        out[i, j] = wrap(abstract(hs))
                return out
            o._compute_inertia_tensor = stub
            return o.inertia_tensor
        for p in chk.explore(fk, run_full, assumptions=[sp.Gt(m0, 0)]):
            out = p.value
            for i in range(3):
                for j in range(3):
                    h = (r2 if i == j else 0) - COORD[i] * COORD[j]
                    chk.prove_eq(f"inertia_tensor:post[{i}{j}]", fk, p.pc, ex(out[i, j]), abstract(h),
                                 replay=replay_measure("inertia_tensor"))
    _tasks.append(("inertia_tensor_about_the_origin", lambda c_, f_=sec_6: f_()))

    def sec_7():
        fk = chk.function(MODC, "ConvexPolyhedron._find_simplex_equations")

        def run_se():
            o = PS.convex_polyhedron(shapes)
            o._simplex_equations = None
            o._find_simplex_equations()
            return o._simplex_equations
        for p in chk.explore(fk, run_se, assumptions=facts):
            E = [to_expr(p.value.inner[j]) for j in range(4)]
            rad = PS.radicand(Nv)
            nrm = sp.sqrt(rad)
            for j in range(3):
                chk.prove_eq(f"simplex_equations:normal[{j}]", fk, p.pc, E[j] * nrm, Nv[j])
            chk.prove_eq("simplex_equations:offset", fk, p.pc, E[3] * nrm, -PS.dot(Nv, A))
            chk.prove_eq("simplex_equations:unit", fk, p.pc, E[0]**2 + E[1]**2 + E[2]**2, 1)
            for nm, P in (("a", A), ("b", B), ("c", C)):
                chk.prove_eq(f"simplex_equations:contains[{nm}]", fk, p.pc, PS.dot(E[:3], P) + E[3], 0)
    _tasks.append(("plane_equations_of_the_simplices", lambda c_, f_=sec_7: f_()))

    def sec_8():
        """face_centroids: for every face (a symbolic number of them, each with a symbolic number of simplices) the reported point is the
        area-weighted mean of the centroids of exactly the simplices listed for that face -- the centroid of the polygon they tile"""
        fk = chk.function(MODC, "ConvexPolyhedron._find_face_centroids")

        def run_fc():
            o = PS.convex_polyhedron(shapes)
            o._find_face_centroids()
            return o._face_centroids
        Gf = sp.Function("G", integer=True)
        sub = {PS.K.k: Gf(PS.F.k, PS.LG.k)}
        a_t = tri_area.xreplace(sub)
        cen_t = [((A[j] + B[j] + C[j]) / 3).xreplace(sub) for j in range(3)]
        den = sum_over(PS.LG, a_t)
        from .bounded_c01 import replay_measure as _rm
        for p in chk.explore(fk, run_fc, assumptions=facts + PS.F.facts() + PS.LG.facts()):
            if p.kind != "return":
                chk.path_raised(fk, p)
                continue
            fc = p.value
            ok = isinstance(fc, SymArr) and tuple(fc.axes) == (PS.F, 3)
            chk.record("face_centroids:one_point_per_face", fk, "proved" if ok else "refuted", "shape", model={}, replay=_rm("face_centroids"), abstracted=True)
            if not ok:
                continue
            for j in range(3):
                got = ex(fc.inner[j])
                want = sum_over(PS.LG, a_t * cen_t[j]) / den
                z = sigma.is_zero(got * den - sum_over(PS.LG, a_t * cen_t[j])) or sigma.is_zero(got - want)
                chk.record(f"face_centroids:area_weighted_mean_of_the_faces_simplex_centroids[{'xyz'[j]}]", fk, "proved" if z else "refuted", "sigma-normal-form",
                           detail="c_f = sum_{t in f} A_t (a_t + b_t + c_t)/3 / sum_{t in f} A_t", model={}, replay=_rm("face_centroids"), abstracted=True)
    _tasks.append(("face_centroids", lambda c_, f_=sec_8: f_()))

    def sec_9():
        """ConvexPolyhedron.get_face_area: one area per face, in the order of the faces, each the sum of the areas of exactly the simplices listed
        for that face; "total" is the sum over all simplices; a single index gives that face's area"""
        from pyvc.symarr import SymSeq
        fk = chk.function(MODC, "ConvexPolyhedron.get_face_area")
        Gf = sp.Function("G", integer=True)
        a_t = tri_area.xreplace({PS.K.k: Gf(PS.F.k, PS.LG.k)})
        want_face = sum_over(PS.LG, a_t)
        from .bounded_c01 import replay_measure as _rm
        for mode in ("all", "total", "single"):
            def run_fa(mode=mode):
                o = PS.convex_polyhedron(shapes)
                if mode == "all":
                    return o.get_face_area()
                if mode == "total":
                    return o.get_face_area("total")
                return o.get_face_area(Sym(PS.F.k))
            for p in chk.explore(fk, run_fa, assumptions=facts + PS.F.facts() + PS.LG.facts()):
                if p.kind != "return":
                    chk.path_raised(fk, p)
                    continue
                v = p.value
                if mode == "all":
                    seq = getattr(v, "sym", v)
                    ok = isinstance(seq, SymSeq) and seq.dim is PS.F
                    chk.record("get_face_area:one_area_per_face_in_order", fk, "proved" if ok else "refuted", "shape", model={}, replay=_rm("face_area"), abstracted=True)
                    if not ok:
                        continue
                    z = sigma.is_zero(ex(seq.elem) - want_face)
                elif mode == "total":
                    z = sigma.is_zero(ex(v) - sum_over(PS.K, tri_area))
                else:
                    z = sigma.is_zero(ex(v) - want_face)
                chk.record(f"get_face_area:{'each_area' if mode == 'all' else mode}_is_the_sum_of_the_areas_of_the_listed_simplices", fk, "proved" if z else "refuted",
                           "sigma-normal-form", model={}, replay=_rm("face_area"), abstracted=True)
    _tasks.append(("get_face_area", lambda c_, f_=sec_9: f_()))

    chk.run_parallel(_tasks)

    # ---------------------------------------------------------------- canaries
    fk = chk.function(MODC, "ConvexPolyhedron._centroid_from_triangulated_surface")
    Dbad, j = sigma.row_body(sum_over(PS.K, PS.tet_row(X, A, B, C)) - sum_over(PS.K, 2 * PS.tet_row(X, A, B, C)), PS.K.n)
    sub = {PS.K.k: j}
    okc, _, _ = sigma.edge_certificate(Dbad, [a.xreplace(sub) for a in A], [a.xreplace(sub) for a in B],
                                       [a.xreplace(sub) for a in C])
    chk.canaries.append({"name": "canary:edge_certificate(M[x] vs 2M[x])", "function": fk,
                         "result": "accepted" if okc else "rejected", "ok": not okc})
    if okc:
        chk.errors.append("edge certificate accepted a false identity")
    chk.reachable("Inv_ConvexPolyhedron facts", fk, facts)

    from .bounded_c01 import run_bounded
    run_bounded(chk)
