"""Bounded stand-in for C01 (labelled bounded, never counted as proved): the real ConvexPolyhedron on an
enumerated corpus against the exact rational oracle; also the replay source for refuted C01 obligations."""
from __future__ import annotations

import itertools
import random

import numpy as np

from bounded import oracle, corpus
from .common import real_coxeter

TOL = 1e-9


def _oracle_for(points, base=None):
    # facets are computed exactly on the un-placed (rational / lattice) coordinates, where coplanarity is exact;
    # a rigid placement does not change the combinatorics
    faces = oracle.hull_facets(base if base is not None else points) if len(points) <= 14 else None
    if faces is None:
        # larger sets: facets from Qhull, measures still from the exact formulas (labelled in the evidence)
        from scipy.spatial import ConvexHull
        h = ConvexHull(np.asarray(points))
        c = np.mean(points, axis=0)
        tris = []
        for s in h.simplices:
            a, b, cc = (np.asarray(points[i]) for i in s)
            if np.dot(np.cross(b - a, cc - a), a - c) < 0:
                s = s[::-1]
            tris.append(tuple(int(i) for i in s))
        return None, tris
    return faces, oracle.fan_triangles(faces)


def compare(points, what=("volume", "surface_area", "centroid", "inertia_tensor", "face_area", "face_centroids"), base=None):
    """list of (quantity, observed, exact) mismatches for ConvexPolyhedron(points)"""
    cox = real_coxeter()
    poly = cox.shapes.ConvexPolyhedron(points)
    faces, tris = _oracle_for(points, base)
    vol, cen, inertia = oracle.mesh_measures(points, tris)
    size = float(max(max(abs(c) for c in p) for p in points)) or 1.0
    bad = []
    if "volume" in what and not oracle.close(poly.volume, vol, TOL):
        bad.append(("volume", float(poly.volume), float(vol)))
    if "centroid" in what:
        for i in range(3):
            if not oracle.close(poly.centroid[i], cen[i], TOL, scale=size):
                bad.append((f"centroid[{i}]", float(poly.centroid[i]), float(cen[i])))
        for i in range(3):
            if not oracle.close(poly.center[i], cen[i], TOL, scale=size):
                bad.append((f"center[{i}]", float(poly.center[i]), float(cen[i])))
    if "inertia_tensor" in what:
        it = poly.inertia_tensor
        sc = max(abs(float(x)) for row in inertia for x in row)
        for i in range(3):
            for j in range(3):
                if not oracle.close(it[i, j], inertia[i][j], TOL, scale=sc):
                    bad.append((f"inertia_tensor[{i}{j}]", float(it[i, j]), float(inertia[i][j])))
    if faces is not None:
        total, per = oracle.mesh_area(points, faces)
        if "surface_area" in what and not oracle.close(poly.surface_area, total, TOL):
            bad.append(("surface_area", float(poly.surface_area), total))
        if "face_area" in what:
            got = sorted(float(a) for a in poly.get_face_area())
            if len(got) != len(per) or any(not oracle.close(g, e, 1e-8, scale=total) for g, e in zip(got, sorted(per))):
                bad.append(("get_face_area()", got, sorted(per)))
            if not oracle.close(poly.get_face_area("total"), total, TOL):
                bad.append(("get_face_area('total')", float(poly.get_face_area("total")), total))
        if "face_centroids" in what:
            exp = sorted(tuple(round(float(c), 9) for c in oracle.face_centroid(points, f)) for f in faces)
            got = sorted(tuple(round(float(c), 9) for c in fc) for fc in poly.face_centroids)
            if len(exp) != len(got) or any(max(abs(a - b) for a, b in zip(g, e)) > 1e-7 * max(1.0, size) for g, e in zip(got, exp)):
                bad.append(("face_centroids", got, exp))
    return bad


def cases(tier, seed):
    named = corpus.named_convex()
    out = []
    for name, pts in named.items():
        places = corpus.placements()
        if name.startswith(("flat_", "needle_")):
            places = places[:1] + corpus.far_placements()      # ill-conditioned: rotated and 5-9 diameters off the origin
        for pname, R, t in places:
            out.append((f"{name}/{pname}", corpus.place(pts, R, t), pts))
    lat = corpus.lattice_convex_sets(limit=25 if tier == "quick" else 150, seed=0)
    for i, pts in enumerate(lat):
        out.append((f"lattice{i}", pts, pts))
        out.append((f"lattice{i}/offset", corpus.place(pts, [[1, 0, 0], [0, 1, 0], [0, 0, 1]], (20.0, -13.0, 7.0)), pts))
    n_rand = 6 if tier == "quick" else 60
    for i in range(n_rand):
        n = 4 + (i * 7) % 40
        pts = corpus.ellipsoid_points(n, 1000 * seed + i)
        out.append((f"ellipsoid{n}#{i}", pts, pts))
    return out


def run_bounded(chk):
    cs = cases(chk.bounded_tier, chk.seed)
    fkey = "coxeter.shapes.convex_polyhedron::ConvexPolyhedron.__init__ (+_consume_hull,_combine_simplices,_sort_simplices,sort_faces)"
    chk.functions.setdefault(fkey, {"sha": "-", "paths": 0, "lines": 0, "bounded_only": True})
    n_bad = 0
    perm_checked = 0
    rnd = random.Random(chk.seed)
    distinct = set()
    samples = []
    for name, pts, base in cs:
        distinct.add(tuple(sorted(tuple(round(c, 9) for c in p) for p in pts)))
        idx = list(range(len(pts)))
        orders = [idx]
        if len(pts) <= 5 and chk.bounded_tier == "thorough":
            orders = [list(p) for p in itertools.permutations(idx)][:120]
        else:
            for _ in range(2 if chk.bounded_tier == "quick" else 8):
                q = idx[:]
                rnd.shuffle(q)
                orders.append(q)
        for perm in orders:
            perm_checked += 1
            o = [pts[i] for i in perm]
            try:
                bad = compare(o, base=[base[i] for i in perm])
            except Exception as e:  # noqa: BLE001
                bad = [("exception", f"{type(e).__name__}: {e}", "a ConvexPolyhedron")]
            if bad:
                n_bad += 1
                if n_bad > 5:
                    break
                chk.record(f"bounded:measures_exact[{name}]", fkey, "bounded-fail", "exact-oracle",
                           detail=str(bad[:3]), model={"points": o},
                           replay=lambda m, o=o, bad=bad: (True, {"constructor": "ConvexPolyhedron", "points": o, "mismatches": bad[:6]}),
                           kind="bounded")
                break
        if len(samples) < 3:
            samples.append({"case": name, "n_points": len(pts), "orders_checked": len(orders)})
    # the same object: every measure read twice, then again after each public move / resize / reorientation
    from . import stale
    from .common import real_coxeter
    import numpy as np
    cox = real_coxeter()
    hfails = []

    def measures(s):
        out = {"volume": s.volume, "surface_area": s.surface_area, "centroid": np.asarray(s.centroid, float),
               "inertia_tensor": np.asarray(s.inertia_tensor, float), "face_areas": np.sort(np.asarray(s.get_face_area(), float))}
        again = np.asarray(s.inertia_tensor, float)          # a second read of the same member must agree with the first
        out["inertia_tensor_read_twice"] = bool(np.allclose(again, out["inertia_tensor"], rtol=1e-12, atol=0))
        return out
    named = corpus.named_convex()
    for nm in ("box", "frustum", "chiral5"):
        P = np.asarray(named[nm], float) + np.array([10.0, -7.0, 4.0])
        obj = cox.shapes.ConvexPolyhedron(P)
        first = measures(obj)
        if not first["inertia_tensor_read_twice"]:
            hfails.append((f"history:{nm}:inertia_tensor_read_twice", {"points": P.tolist(), "note": "two consecutive reads differ"}))
            continue
        perm_checked += stale.read_mutate_read(obj, measures, f"history:ConvexPolyhedron:{nm}", hfails)
    for nm, info in hfails[:3]:
        n_bad += 1
        chk.record(f"bounded:measures_exact[{nm}]", fkey, "bounded-fail", "fresh-construction", detail=str(info)[:400], model={},
                   replay=lambda m, info=info, nm=nm: (True, {"case": nm, **info}), kind="bounded")
    if n_bad == 0:
        chk.record("bounded:measures_exact", fkey, "bounded-pass", "exact-oracle", kind="bounded",
                   detail=f"{len(cs)} vertex sets, {perm_checked} vertex orders")
    chk.bounded.append({
        "clause": "ConvexPolyhedron(points).{volume,surface_area,centroid,center,inertia_tensor,get_face_area,face_centroids} "
                  "== exact rational oracle (tolerance 1e-9 relative), independent of vertex order",
        "bound": "named solids x 4 rigid placements (offset up to ~10 diameters, exact rational rotations); random subsets of "
                 "{0,1,2}^3 in convex position with <=8 points; seeded points on ellipsoids (4..43 points; facets from Qhull, "
                 "measures from exact formulas); 3 (quick) / 9 (thorough) vertex orders each, all permutations for <=5 points (thorough); "
                 "3 off-origin objects read twice, then moved / resized / reoriented through their public mutators and re-read against a fresh construction",
        "evaluations": perm_checked, "distinct_nontrivial": len(distinct),
        "rule": "distinct = different vertex sets after rounding to 1e-9; every case has >= 4 non-coplanar points",
        "samples": samples, "failures": n_bad, "exhaustive": False,
    })


def replay_measure(kind):
    """replay for a refuted deductive obligation: search the stock corpus for an input on which the real
    code disagrees with the exact oracle for this quantity"""
    what = {"volume": ("volume",), "surface_area": ("surface_area", "face_area"), "centroid": ("centroid",),
            "inertia_tensor": ("inertia_tensor",)}.get(kind, (kind,))

    def replay(model):
        for name, pts, base in cases("quick", 0):
            try:
                bad = compare(pts, what, base=base)
            except Exception as e:  # noqa: BLE001
                bad = [("exception", f"{type(e).__name__}: {e}", "")]
            if bad:
                return True, {"constructor": "ConvexPolyhedron", "case": name, "points": pts, "mismatches": bad[:6]}
        return False, {"searched": "stock corpus of bounded_c01.cases('quick')"}
    return replay
