"""C08 -- size setters hit their target by pure similarity; bad targets are refused.

Setters are enumerated by reflection over the freshly compiled classes (a new setter without a
contract row is a checker error, not a silent gap).  For each (class, setter) the real setter is
executed on a symbolic instance with a symbolic target v (no assumption on v) and, separately,
with v = NaN:

  readback              on every returning path  get_p(new state) == v
  similarity/translate  on every returning path  new state = s * old state with one s > 0
                        (centroid setters: same axes, centre == v; single semi-axis setters: only
                        that axis changes)
  rejects_nonpositive   returning path  =>  v > 0
  raises ValueError     every exceptional path raises ValueError (nothing else)
  state_unchanged_on_raise  exceptional path => every field equals its old value
  rejects_nan           v = NaN raises ValueError and leaves the state unchanged
"""
from __future__ import annotations

import sympy as sp

from pyvc import paths
from pyvc.sym import Sym, to_expr
from .common import CURVED, S, make_curved, path_tag, ex, curved_real, fval, rel_err
from . import polytope_state as PS

LEVEL = "proof"

AXES = {"Circle": ["_radius"], "Sphere": ["_radius"], "Ellipse": ["_a", "_b"], "Ellipsoid": ["_a", "_b", "_c"]}
SINGLE_AXIS = {"a": "_a", "b": "_b", "c": "_c"}
CENTRE_SETTERS = ("centroid", "center")


def setters_of(cls):
    out = []
    for name in dir(cls):
        for k in cls.__mro__:
            if name in k.__dict__:
                attr = k.__dict__[name]
                if isinstance(attr, property) and attr.fset is not None:
                    out.append((name, k))
                break
    return sorted(out)


def _state(obj):
    st = {}
    for f in AXES[type(obj).__name__]:
        st[f] = to_expr(obj.__dict__[f])
    c = obj.__dict__["_centroid"]
    st["_centroid"] = [to_expr(x) for x in c]
    return st


DEGREE = {"area": 2, "perimeter": 1, "circumference": 1, "radius": 1, "diameter": 1, "volume": 3,
          "surface_area": 2, "a": 1, "b": 1, "c": 1, "mean_curvature": 1}


def degree(name):
    return 1 if name.endswith("_radius") else DEGREE[name]


def _same(before, after, cls_name, centre=True):
    eqs = [sp.Eq(before[f], after[f]) for f in AXES[cls_name]]
    if centre:
        eqs += [sp.Eq(x, y) for x, y in zip(before["_centroid"], after["_centroid"])]
    return sp.And(*eqs)


def _rescale_contract(chk, shapes, cls_name):
    """the real _rescale:  s > 0 -> every axis multiplied by s, centre untouched;
    otherwise ValueError with the state unchanged (this is the contract setters are verified against)"""
    mod = CURVED[cls_name][0]
    fkey = chk.function(mod, f"{cls_name}._rescale")
    s = sp.Symbol("s", real=True)

    def run(scale=None):
        obj = make_curved(shapes, cls_name)
        before = _state(obj)
        try:
            obj._rescale(Sym(s) if scale is None else scale)
        except Exception as e:  # noqa: BLE001
            return "raise", e, before, _state(obj)
        return "ok", None, before, _state(obj)
    n_ok = 0
    for p in chk.explore(fkey, run):
        if p.kind == "raise":
            continue
        kind, exc, before, after = p.value
        t = path_tag(p)
        if kind == "raise":
            chk.record(f"{cls_name}._rescale:raises_ValueError[{t}]", fkey,
                       "proved" if isinstance(exc, ValueError) else "refuted", "type-check",
                       detail=f"{type(exc).__name__}: {exc}", model={})
            chk.prove(f"{cls_name}._rescale:state_unchanged_on_raise[{t}]", fkey, p.pc, _same(before, after, cls_name))
            chk.prove(f"{cls_name}._rescale:raises_only_if_nonpositive[{t}]", fkey, p.pc, sp.Le(s, 0))
        else:
            n_ok += 1
            chk.prove(f"{cls_name}._rescale:returns_only_if_positive[{t}]", fkey, p.pc, sp.Gt(s, 0))
            chk.prove(f"{cls_name}._rescale:scales_every_axis[{t}]", fkey, p.pc,
                      sp.And(*[sp.Eq(after[f], s * before[f]) for f in AXES[cls_name]],
                             *[sp.Eq(x, y) for x, y in zip(before["_centroid"], after["_centroid"])]))
    if not n_ok:
        chk.errors.append(f"{cls_name}._rescale: no returning path")
    for p in chk.explore(fkey, lambda: run(float("nan"))):
        if p.kind == "raise":
            continue
        kind, exc, before, after = p.value
        chk.record(f"{cls_name}._rescale:rejects_nan[{path_tag(p)}]", fkey,
                   "proved" if kind == "raise" and isinstance(exc, ValueError) else "refuted", "concrete-nan", model={})
        chk.prove(f"{cls_name}._rescale:nan_state_unchanged[{path_tag(p)}]", fkey, p.pc, _same(before, after, cls_name))
    return fkey


def _rescale_stub(cls_name, calls):
    """contract of _rescale as proved by _rescale_contract, used in place of its body"""
    def _rescale(self, scale):
        calls.append(scale)
        if scale > 0:
            for f in AXES[cls_name]:
                self.__dict__[f] = self.__dict__[f] * scale
        else:
            raise ValueError("_rescale contract: non-positive or NaN scale is refused, state unchanged")
    return _rescale


def _homogeneity(chk, shapes, cls_name, name, owner):
    """lemma: getter(t * shape) == t**d * getter(shape) for every t > 0"""
    fkey = chk.function(owner.__module__, f"{owner.__name__}.{name}[get]")
    t = sp.Symbol("t", positive=True)
    d = degree(name)
    cls = getattr(shapes, cls_name)

    def run():
        obj = make_curved(shapes, cls_name)
        g1 = getattr(obj, name)
        params = [obj.__dict__[f] * Sym(t) for f in AXES[cls_name]]
        obj2 = cls(*params, tuple(obj.__dict__["_centroid"]))
        g2 = getattr(obj2, name)
        return g1, g2
    n = 0
    for p in chk.explore(fkey, run):
        if p.kind != "return":
            chk.path_raised(fkey, p)
            continue
        n += 1
        g1, g2 = (to_expr(x) for x in p.value)
        chk.prove_eq(f"{cls_name}.{name}[get]:homogeneous_degree_{d}[{path_tag(p)}]", fkey, p.pc, g2, t**d * g1)
    return n


def _curved(chk, shapes, cls_name):
    cls = getattr(shapes, cls_name)
    v = sp.Symbol("v", real=True)
    _rescale_contract(chk, shapes, cls_name)
    real_rescale = cls._rescale
    for name, owner in setters_of(cls):
        owner_mod = owner.__module__
        fkey = chk.function(owner_mod, f"{owner.__name__}.{name}[set]")
        tag = f"{cls_name}.{name}[set]"
        calls = []
        cls._rescale = _rescale_stub(cls_name, calls)

        def run(name=name, target=None):
            calls.clear()
            obj = make_curved(shapes, cls_name)
            before = _state(obj)
            if name in CENTRE_SETTERS:
                tgt = (S("v0"), S("v1"), S("v2"))
                g0 = None
            else:
                tgt = Sym(v) if target is None else target
                try:
                    g0 = getattr(obj, name)
                except NotImplementedError as e:
                    return "nogetter", e, before, before
            try:
                setattr(obj, name, tgt)
            except Exception as e:  # noqa: BLE001 - classified below
                return "raise", e, before, _state(obj)
            after = _state(obj)
            back = None if calls else getattr(obj, name)
            return "ok", before, after, back, tgt, g0, list(calls)
        try:
            res = chk.explore(fkey, run)
            res_nan = [] if name in CENTRE_SETTERS else chk.explore(fkey, lambda: run(target=float("nan")))
        finally:
            cls._rescale = real_rescale
        n_ret = 0
        used_rescale = False
        for p in res:
            t = path_tag(p)
            if p.kind == "raise":
                continue        # the constructor refused the symbolic instance: C15's business
            if p.value[0] == "nogetter":
                chk.record(f"{tag}:getter_exists", fkey, "refuted", "type-check", detail=str(p.value[1]), model={},
                           goal="the property can be read", replay=_replay_getter(cls_name, name))
                n_ret += 1
                break
            if p.value[0] == "raise":
                _, exc, before, after = p.value
                ok_type = isinstance(exc, ValueError)
                chk.record(f"{tag}:raises_ValueError[{t}]", fkey, "proved" if ok_type else "refuted", "type-check",
                           detail=f"{type(exc).__name__}: {exc}", model={}, goal="exception type is ValueError")
                chk.prove(f"{tag}:state_unchanged_on_raise[{t}]", fkey, p.pc, _same(before, after, cls_name))
                continue
            n_ret += 1
            _, before, after, back, target, g0, scales = p.value
            if name in CENTRE_SETTERS:
                back = getattr_centroid(after)
                goal = sp.And(*[sp.Eq(x, to_expr(y)) for x, y in zip(after["_centroid"], target)])
                chk.prove(f"{tag}:readback[{t}]", fkey, p.pc, goal)
                chk.prove(f"{tag}:translation_only[{t}]", fkey, p.pc, _same(before, after, cls_name, centre=False))
                continue
            chk.prove(f"{tag}:rejects_nonpositive[{t}]", fkey, p.pc, sp.Gt(v, 0),
                      replay=_replay_nonpositive(cls_name, name))
            centre_same = sp.And(*[sp.Eq(x, y) for x, y in zip(before["_centroid"], after["_centroid"])])
            if scales:
                used_rescale = True
                if len(scales) != 1:
                    chk.errors.append(f"{tag}: _rescale called {len(scales)} times on one path")
                sc = to_expr(scales[0])
                d = degree(name)
                # read-back = scale_equation + homogeneity lemma of the getter + contract of _rescale
                chk.prove_eq(f"{tag}:scale_equation[{t}]", fkey, p.pc, sc**d * to_expr(g0), v,
                             replay=_replay_readback(cls_name, name))
                chk.prove(f"{tag}:rescale_argument_positive[{t}]", fkey, p.pc, sp.Gt(sc, 0))
                chk.prove(f"{tag}:centre_untouched[{t}]", fkey, p.pc, centre_same)
                continue
            chk.prove_eq(f"{tag}:readback[{t}]", fkey, p.pc, to_expr(back), v,
                         replay=_replay_readback(cls_name, name))
            if name in SINGLE_AXIS:
                others = [f for f in AXES[cls_name] if f != SINGLE_AXIS[name]]
                chk.prove(f"{tag}:only_this_axis_changes[{t}]", fkey, p.pc,
                          sp.And(centre_same, *[sp.Eq(before[f], after[f]) for f in others],
                                 sp.Gt(after[SINGLE_AXIS[name]], 0)))
            else:
                ax = AXES[cls_name]
                f0 = ax[0]
                sim = [sp.Gt(after[f0], 0)]
                for f in ax[1:]:
                    sim.append(sp.Eq(sp.expand(after[f] * before[f0] - before[f] * after[f0]), 0))
                    sim.append(sp.Gt(after[f], 0))
                chk.prove(f"{tag}:similarity[{t}]", fkey, p.pc, sp.And(centre_same, *sim),
                          replay=_replay_similarity(cls_name, name))
        if n_ret == 0:
            chk.record(f"{tag}:has_an_accepting_path", fkey, "unknown", "path-enumeration", detail="no path of the setter returns under the contract's pre-state", model={})
        if used_rescale:
            if not _homogeneity(chk, shapes, cls_name, name, _getter_owner(cls, name)):
                chk.errors.append(f"{tag}: homogeneity lemma has no path")

        # ---------------------------------------------------------------- NaN target
        for p in res_nan:
            if p.kind != "return" or p.value[0] == "nogetter":
                continue
            t = path_tag(p)
            if p.value[0] == "raise":
                _, exc, before, after = p.value
                ok = isinstance(exc, ValueError)
            else:
                _, before, after = p.value[:3]
                ok = False
            chk.record(f"{tag}:rejects_nan[{t}]", fkey, "proved" if ok else "refuted",
                       "concrete-nan", detail="ValueError" if ok else "accepted", model={},
                       goal="NaN target raises ValueError", replay=_replay_nan(cls_name, name))
            chk.prove(f"{tag}:nan_state_unchanged[{t}]", fkey, p.pc, _same(before, after, cls_name))


def getattr_centroid(state):
    return state["_centroid"]


def _getter_owner(cls, name):
    for k in cls.__mro__:
        if name in k.__dict__:
            return k
    raise KeyError(name)


def _replay_getter(cls_name, name):
    def replay(model):
        obj, vals = curved_real(cls_name, model)
        try:
            getattr(obj, name)
        except NotImplementedError as e:
            return True, {"class": cls_name, "constructor_args": vals, "member": name, "raised": f"NotImplementedError: {e}"}
        return False, {}
    return replay


# ------------------------------------------------------------------------------ replays on the real code
def _replay_nonpositive(cls_name, name):
    def replay(model):
        obj, vals = curved_real(cls_name, model)
        v = fval(model, "v", -1.0)
        try:
            setattr(obj, name, v)
        except ValueError as e:
            return False, {"constructor_args": vals, "target": v, "raised": str(e)}
        return True, {"class": cls_name, "constructor_args": vals, "setter": name, "target": v,
                      "observed": "accepted without ValueError", "state_after": repr(obj)}
    return replay


def _replay_readback(cls_name, name):
    def replay(model):
        obj, vals = curved_real(cls_name, model)
        v = fval(model, "v", 2.0)
        setattr(obj, name, v)
        got = getattr(obj, name)
        err = rel_err(got, v)
        return err > 1e-9, {"class": cls_name, "constructor_args": vals, "setter": name, "target": v,
                            "readback": repr(got), "relative_error": err}
    return replay


def _replay_similarity(cls_name, name):
    def replay(model):
        obj, vals = curved_real(cls_name, model)
        v = fval(model, "v", 2.0)
        before = {f: float(obj.__dict__[f]) for f in AXES[cls_name]}
        setattr(obj, name, v)
        after = {f: float(obj.__dict__[f]) for f in AXES[cls_name]}
        ratios = [after[f] / before[f] for f in AXES[cls_name]]
        bad = any(r <= 0 for r in ratios) or max(ratios) - min(ratios) > 1e-9 * max(abs(r) for r in ratios)
        return bad, {"class": cls_name, "constructor_args": vals, "setter": name, "target": v, "axis_ratios": ratios}
    return replay


def _replay_nan(cls_name, name):
    def replay(model):
        obj, vals = curved_real(cls_name, model)
        try:
            setattr(obj, name, float("nan"))
        except ValueError:
            return False, {}
        return True, {"class": cls_name, "setter": name, "target": "nan", "state_after": repr(obj)}
    return replay


def run(chk):
    ld = chk.loader()
    shapes = ld.load("coxeter.shapes")
    chk.trusted += [
        "float64 arithmetic treated as exact real arithmetic; NaN modelled only as the setter target "
        "(comparisons with NaN are False, arithmetic with NaN is NaN)",
        "scipy elliptic integrals are uninterpreted function symbols (Ellipse.perimeter, Ellipsoid.surface_area read-back "
        "needs only that they are functions of scale-free arguments)",
    ]
    for cls_name in ("Circle", "Ellipse", "Sphere", "Ellipsoid"):
        _curved(chk, shapes, cls_name)
    PS.c08_polytopes(chk, ld)
    # _rescale contracts, centre setters and rounding-radius setters of the vertex-based classes (shared with C03)
    from . import c03
    c03.run(chk, bounded=False)
    # bounded stand-in: read everything - assign through one setter - read everything, against a freshly constructed shape with
    # the current vertices (a memoised value that the class invariant of the contracts does not know about shows up here)
    from .bounded_c03 import run_bounded
    run_bounded(chk, depth=1 if chk.bounded_tier == "quick" else 2, only_setters=True)
