"""Symbolic abstract states of the vertex-based classes and their class invariants.

A state is built *from the abstract data* (vertices V, simplices S, faces ...) so that it satisfies the
class invariant by construction: every cached field holds the spec expression of V and S.  Getters are
verified starting from such a state; constructors and mutators are verified to produce such a state
(field by field).  Extents N (vertices), K (simplices), F (faces) never receive values.
"""
from __future__ import annotations

import numpy as np
import sympy as sp

from pyvc import sym
from pyvc.sym import Sym, to_expr, wrap
from pyvc.symarr import Dim, SymArr, SymSeq, make, sum_over, gather
from specs.moments import integrate_tet, X, Y, Z

# one set of extents / array symbols per process: contracts refer to them by name
N = Dim("N", minimum=4)
K = Dim("K", minimum=4)
F = Dim("F", minimum=4)
LG = Dim("LG", minimum=1)       # simplices per face (ragged; modelled with one extent symbol)
LF = Dim("LF", minimum=3)       # vertices per face (ragged)

COORD = (X, Y, Z)


def V_arr():
    return make("V", (N, 3))


def S_arr():
    return make("S", (K, 3), integer=True)


def row_atoms(V=None, S=None):
    """the 9 row atoms a,b,c of the generic simplex  (sympy expressions V(S(k,i), j))"""
    V = V if V is not None else V_arr()
    S = S if S is not None else S_arr()
    abc = V[S]
    A = [to_expr(abc.inner[0, j]) for j in range(3)]
    B = [to_expr(abc.inner[1, j]) for j in range(3)]
    C = [to_expr(abc.inner[2, j]) for j in range(3)]
    return A, B, C


def cross(u, v):
    return [u[1] * v[2] - u[2] * v[1], u[2] * v[0] - u[0] * v[2], u[0] * v[1] - u[1] * v[0]]


def dot(u, v):
    return sum(x * y for x, y in zip(u, v))


def raw_normal(A, B, C):
    return cross([B[i] - A[i] for i in range(3)], [C[i] - A[i] for i in range(3)])


def radicand(Nv):
    return sp.factor_terms(sp.expand(dot(Nv, Nv)))


def tet_row(h, A, B, C, shift=None):
    """row body of the solid integral of h: signed tetrahedron (0; a,b,c) (or apex `shift`, integrand h(r-shift))"""
    if shift is not None:
        A = [A[i] - shift[i] for i in range(3)]
        B = [B[i] - shift[i] for i in range(3)]
        C = [C[i] - shift[i] for i in range(3)]
    return integrate_tet(h, A, B, C)


def solid_moment(h, shift=None):
    """M[h] = sum over simplices of the signed tetrahedral integrals (the spec integral over the solid)"""
    A, B, C = row_atoms()
    return sum_over(K, tet_row(h, A, B, C, shift))


def convex_polyhedron(shapes, centred_fields=True):
    """symbolic ConvexPolyhedron satisfying Inv_ConvexPolyhedron by construction"""
    CP = shapes.ConvexPolyhedron
    o = object.__new__(CP)
    V, S = V_arr(), S_arr()
    A, B, C = row_atoms(V, S)
    Nv = raw_normal(A, B, C)
    nrm = sp.sqrt(radicand(Nv))
    o._vertices = V
    o._ndim = 3
    o._simplices = S
    eq = np.empty((4,), dtype=object)
    for j in range(3):
        eq[j] = wrap(Nv[j] / nrm)
    eq[3] = wrap(-dot(Nv, A) / nrm)
    o._simplex_equations = SymArr((K, 4), eq)
    m0 = solid_moment(1)
    o._volume = wrap(m0)
    o._area = wrap(sum_over(K, nrm / 2))
    o._centroid = np.array([wrap(solid_moment(COORD[i]) / m0) for i in range(3)], dtype=object)
    o._faces_are_convex = True
    # faces: F ragged integer arrays; equations: unit normal of the first three vertices of each face
    Fc = make("Fc", (F, LF), integer=True)
    o._faces = SymSeq(F, SymArr((LF,), Fc.inner))
    p0 = [to_expr(V.inner[j]).subs(N.k, to_expr(Fc.inner[()]).subs(LF.k, i)) for i in range(3) for j in range(3)]
    P0, P1, P2 = p0[0:3], p0[3:6], p0[6:9]
    Nf = cross([P2[i] - P1[i] for i in range(3)], [P0[i] - P1[i] for i in range(3)])
    nf = sp.sqrt(radicand(Nf))
    feq = np.empty((4,), dtype=object)
    for j in range(3):
        feq[j] = wrap(Nf[j] / nf)
    feq[3] = wrap(-dot(Nf, P0) / nf)
    o._equations = SymArr((F, 4), feq)
    G = make("G", (F, LG), integer=True)
    o._coplanar_simplices = SymSeq(F, SymArr((LG,), G.inner))
    return o


def inv_facts():
    """facts of the invariant that are not equalities of fields: non-degenerate simplices, outward
    orientation (positive signed volume)"""
    A, B, C = row_atoms()
    Nv = raw_normal(A, B, C)
    return [sp.Gt(radicand(Nv), 0), sp.Gt(solid_moment(1), 0)] + K.facts() + N.facts()


def stock_real(cls_name, variant=0):
    """a concrete off-origin instance of a vertex-based class built by the real constructor
    (variant 0: chiral / irregular; variant 1: box / rectangle, which has circum- and in-balls)"""
    from .common import real_coxeter
    cox = real_coxeter()
    sh = cox.shapes
    pts3 = [[0.0, 0, 0], [3, 0, 0], [1, 2, 0], [0.5, 0.5, 1.5], [2, 1, -1]]
    if variant == 1:
        import itertools
        pts3 = [[2.0 * x, 2.0 * y, 2.0 * z] for x, y, z in itertools.product((0, 1), repeat=3)]
    pts3 = [[x + 4.0, y - 2.5, z + 1.25] for x, y, z in pts3]
    quad = [[0.0, 0, 0], [3, 0, 0], [3, 1, 0], [0, 2, 0]]
    if variant == 1:
        quad = [[0.0, 0, 0], [2, 0, 0], [2, 2, 0], [0, 2, 0]]
    quad = [[x + 1.5, y + 2.0, z] for x, y, z in quad]
    lpoly = [[0.0, 0, 0], [3, 0, 0], [3, 1, 0], [1, 1, 0], [1, 3, 0], [0, 3, 0]]
    if cls_name == "Polygon":
        return sh.Polygon([[x + 2.0, y - 1.0, z] for x, y, z in lpoly])
    if cls_name == "ConvexPolygon":
        return sh.ConvexPolygon(quad)
    if cls_name == "ConvexSpheropolygon":
        return sh.ConvexSpheropolygon(quad, 0.5)
    if cls_name == "ConvexPolyhedron":
        return sh.ConvexPolyhedron(pts3)
    if cls_name == "ConvexSpheropolyhedron":
        return sh.ConvexSpheropolyhedron(pts3, 0.25)
    if cls_name == "Polyhedron":
        cp = sh.ConvexPolyhedron(pts3)
        return sh.Polyhedron(cp.vertices.copy(), [list(map(int, f)) for f in cp.faces])
    raise KeyError(cls_name)


_stock = stock_real


def setter_replay(cls_name, name, kind):
    """replay of a refuted setter obligation on the real code"""
    import math

    def replay(model):
        for variant in (0, 1):
            r = replay_variant(model, variant)
            if r[0] or "getter_raised" not in r[1]:
                return r
        return r

    def replay_variant(model, variant):
        def stock_real(c):
            return _stock(c, variant)
        obj = stock_real(cls_name)
        try:
            before = float(getattr(obj, name))
        except Exception as e:  # noqa: BLE001
            return False, {"class": cls_name, "member": name, "getter_raised": f"{type(e).__name__}: {e}"}
        verts0 = obj.vertices.copy()
        if kind == "nan":
            targets = [float("nan")]
        elif kind == "nonpositive":
            targets = [-1.0, 0.0]
        else:
            targets = [2.5 * before]
        for tv in targets:
            obj = stock_real(cls_name)
            try:
                setattr(obj, name, tv)
            except ValueError:
                # a refused target must leave the shape as it was
                v_after = np.asarray(obj.vertices, float)
                if kind in ("nan", "nonpositive") and (v_after.shape != verts0.shape or not np.array_equal(v_after, np.asarray(verts0, float))):
                    return True, {"class": cls_name, "setter": name, "target": repr(tv), "observed": "ValueError raised, but the shape was changed",
                                  "vertices_before": np.asarray(verts0, float).tolist(), "vertices_after": v_after.tolist()}
                continue
            except Exception as e:  # noqa: BLE001
                return True, {"class": cls_name, "setter": name, "target": tv, "raised": f"{type(e).__name__}: {e}"}
            v1 = obj.vertices
            if kind in ("nan", "nonpositive"):
                return True, {"class": cls_name, "setter": name, "target": repr(tv), "observed": "accepted without ValueError",
                              "vertices_before": verts0.tolist(), "vertices_after": v1.tolist()}
            got = float(getattr(obj, name))
            if not math.isfinite(got) or abs(got - tv) > 1e-9 * abs(tv):
                return True, {"class": cls_name, "setter": name, "target": tv, "readback": got}
        return False, {"class": cls_name, "setter": name, "targets": [repr(t) for t in targets]}
    return replay


def c08_polytopes(chk, ld):
    from . import mutators as M
    shapes = ld.load("coxeter.shapes")
    tasks = []
    for cls_name in M.POLY_CLASSES:
        tasks.append((f"setters/{cls_name}", lambda c, cls_name=cls_name: M.size_setters(c, shapes, cls_name, setter_replay)))
    chk.run_parallel(tasks)
