"""symbolic states of the vertex-based classes (filled in below)"""
def c08_polytopes(chk, ld):
    pass
