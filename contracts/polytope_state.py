"""Symbolic abstract states of the vertex-based classes and their class invariants.

A state is built *from the abstract data* (vertices V, simplices S, faces ...) so that it satisfies the
class invariant by construction: every cached field holds the spec expression of V and S.  Getters are
verified starting from such a state; constructors and mutators are verified to produce such a state
(field by field).  Extents N (vertices), K (simplices), F (faces) never receive values.
"""
from __future__ import annotations

import numpy as np
import sympy as sp

from pyvc import sym
from pyvc.sym import Sym, to_expr, wrap
from pyvc.symarr import Dim, SymArr, SymSeq, make, sum_over, gather
from specs.moments import integrate_tet, X, Y, Z

# one set of extents / array symbols per process: contracts refer to them by name
N = Dim("N", minimum=4)
K = Dim("K", minimum=4)
F = Dim("F", minimum=4)
LG = Dim("LG", minimum=1)       # simplices per face (ragged; modelled with one extent symbol)
LF = Dim("LF", minimum=3)       # vertices per face (ragged)

COORD = (X, Y, Z)


def V_arr():
    return make("V", (N, 3))


def S_arr():
    return make("S", (K, 3), integer=True)


def row_atoms(V=None, S=None):
    """the 9 row atoms a,b,c of the generic simplex  (sympy expressions V(S(k,i), j))"""
    V = V if V is not None else V_arr()
    S = S if S is not None else S_arr()
    abc = V[S]
    A = [to_expr(abc.inner[0, j]) for j in range(3)]
    B = [to_expr(abc.inner[1, j]) for j in range(3)]
    C = [to_expr(abc.inner[2, j]) for j in range(3)]
    return A, B, C


def cross(u, v):
    return [u[1] * v[2] - u[2] * v[1], u[2] * v[0] - u[0] * v[2], u[0] * v[1] - u[1] * v[0]]


def dot(u, v):
    return sum(x * y for x, y in zip(u, v))


def raw_normal(A, B, C):
    return cross([B[i] - A[i] for i in range(3)], [C[i] - A[i] for i in range(3)])


def radicand(Nv):
    return sp.factor_terms(sp.expand(dot(Nv, Nv)))


def tet_row(h, A, B, C, shift=None):
    """row body of the solid integral of h: signed tetrahedron (0; a,b,c) (or apex `shift`, integrand h(r-shift))"""
    if shift is not None:
        A = [A[i] - shift[i] for i in range(3)]
        B = [B[i] - shift[i] for i in range(3)]
        C = [C[i] - shift[i] for i in range(3)]
    return integrate_tet(h, A, B, C)


def solid_moment(h, shift=None):
    """M[h] = sum over simplices of the signed tetrahedral integrals (the spec integral over the solid)"""
    A, B, C = row_atoms()
    return sum_over(K, tet_row(h, A, B, C, shift))


def convex_polyhedron(shapes, centred_fields=True):
    """symbolic ConvexPolyhedron satisfying Inv_ConvexPolyhedron by construction"""
    CP = shapes.ConvexPolyhedron
    o = object.__new__(CP)
    V, S = V_arr(), S_arr()
    A, B, C = row_atoms(V, S)
    Nv = raw_normal(A, B, C)
    nrm = sp.sqrt(radicand(Nv))
    o._vertices = V
    o._ndim = 3
    o._simplices = S
    eq = np.empty((4,), dtype=object)
    for j in range(3):
        eq[j] = wrap(Nv[j] / nrm)
    eq[3] = wrap(-dot(Nv, A) / nrm)
    o._simplex_equations = SymArr((K, 4), eq)
    m0 = solid_moment(1)
    o._volume = wrap(m0)
    o._area = wrap(sum_over(K, nrm / 2))
    o._centroid = np.array([wrap(solid_moment(COORD[i]) / m0) for i in range(3)], dtype=object)
    o._faces_are_convex = True
    # faces: F ragged integer arrays; equations: unit normal of the first three vertices of each face
    Fc = make("Fc", (F, LF), integer=True)
    o._faces = SymSeq(F, SymArr((LF,), Fc.inner))
    p0 = [to_expr(V.inner[j]).subs(N.k, to_expr(Fc.inner[()]).subs(LF.k, i)) for i in range(3) for j in range(3)]
    P0, P1, P2 = p0[0:3], p0[3:6], p0[6:9]
    Nf = cross([P2[i] - P1[i] for i in range(3)], [P0[i] - P1[i] for i in range(3)])
    nf = sp.sqrt(radicand(Nf))
    feq = np.empty((4,), dtype=object)
    for j in range(3):
        feq[j] = wrap(Nf[j] / nf)
    feq[3] = wrap(-dot(Nf, P0) / nf)
    o._equations = SymArr((F, 4), feq)
    G = make("G", (F, LG), integer=True)
    o._coplanar_simplices = SymSeq(F, SymArr((LG,), G.inner))
    return o


def inv_facts():
    """facts of the invariant that are not equalities of fields: non-degenerate simplices, outward
    orientation (positive signed volume)"""
    A, B, C = row_atoms()
    Nv = raw_normal(A, B, C)
    return [sp.Gt(radicand(Nv), 0), sp.Gt(solid_moment(1), 0)] + K.facts() + N.facts()


def c08_polytopes(chk, ld):
    pass
