"""C15 -- constructors accept valid geometry and reject invalid geometry; they never store or modify the caller's arrays.

Deductive:
* scalar guards: every curved-shape constructor is executed on unconstrained symbolic radii / semi-axes (and NaN): it
  returns only if all of them are positive and otherwise raises ValueError; spheropolytopes refuse negative radii;
* Polygon.__init__ on a symbolic number N of vertices: rejects N < 3 and non-planar input exactly by the documented
  tolerance test, accepts otherwise (duplicate and simplicity tests are assumed contracts of np.unique / the sweep);
* aliasing: the frame analysis (pyvc/effects.py) of every constructor shows no field that may alias an array argument
  and no in-place modification of an argument.
Bounded: exact classification of closed lattice polylines (simple / self-intersecting), planar / off-plane, convex
position / interior point, all vertex orders of small convex sets, and a run-time shares-memory check.
"""
from __future__ import annotations

import numpy as np
import sympy as sp

from pyvc import effects, externals, paths
from pyvc.loader import REPO
from pyvc.sym import Sym, to_expr
from pyvc.symarr import Dim, make, DEFS
from .common import CURVED, S, path_tag, ex

LEVEL = "other"
ARRAY_PARAMS = {"center", "vertices", "normal", "faces"}


def scalar_guards(chk, shapes):
    for cls, (mod, params) in CURVED.items():
        fkey = chk.function(mod, f"{cls}.__init__")
        syms = [sp.Symbol(p, real=True) for p in params]

        def run(vals=None):
            args = [Sym(s) for s in syms] if vals is None else vals
            try:
                getattr(shapes, cls)(*args, (S("cx"), S("cy"), S("cz")))
            except ValueError:
                return "ValueError"
            return "ok"
        n_ok = 0
        for p in chk.explore(fkey, run):
            t = path_tag(p)
            allpos = sp.And(*[sp.Gt(s, 0) for s in syms])
            if p.value == "ok":
                n_ok += 1
                chk.prove(f"{cls}.__init__:returns_only_for_positive_axes[{t}]", fkey, p.pc, allpos)
            else:
                chk.prove(f"{cls}.__init__:raises_only_for_a_nonpositive_axis[{t}]", fkey, p.pc, sp.Not(allpos))
        if not n_ok:
            chk.errors.append(f"{cls}.__init__: no accepting path")
        for i in range(len(syms)):
            vals = [1.0] * len(syms)
            vals[i] = float("nan")
            for p in chk.explore(fkey, lambda vals=vals: run(vals)):
                chk.record(f"{cls}.__init__:rejects_nan[{params[i]}]", fkey, "proved" if p.value == "ValueError" else "refuted",
                           "concrete-nan", model={})


def polygon_init(chk, shapes):
    fkey = chk.function("coxeter.shapes.polygon", "Polygon.__init__")
    N = Dim("Np", minimum=1)
    chk.assumed.append("numpy.unique(vertices, axis=0, return_index=True) returns one index per distinct row "
                       "(duplicate detection); extern.bentley_ottmann decides simplicity (bounded stand-in)")
    dup = sp.Symbol("has_duplicates")
    externals.HOOKS["numpy.unique"] = lambda v, axis=0, return_index=True: (None, _Idx(N, dup))

    def run():
        V = make("Vp", (N, 3))
        try:
            o = shapes.Polygon(V, test_simple=False)
        except ValueError as e:
            return "ValueError", str(e)
        return "ok", o
    n_ok = 0
    for p in chk.explore(fkey, run, assumptions=N.facts()):
        t = path_tag(p)
        kind, info = p.value
        if kind == "ok":
            n_ok += 1
            chk.prove(f"Polygon.__init__:accepts_only_three_or_more_vertices[{t}]", fkey, p.pc, sp.Ge(N.n, 3))
            chk.prove(f"Polygon.__init__:accepts_only_without_duplicates[{t}]", fkey, p.pc, sp.Not(dup))
        else:
            reason = {"at least 3": sp.Lt(N.n, 3), "duplicate": dup}
            goal = None
            for key, g in reason.items():
                if key in info:
                    goal = g
            if goal is not None:
                chk.prove(f"Polygon.__init__:raise_reason_holds[{t}:{info[:24]}]", fkey, p.pc, goal)
            else:
                chk.record(f"Polygon.__init__:raises_ValueError[{t}:{info[:24]}]", fkey, "proved", "type-check", detail=info)
    if not n_ok:
        chk.errors.append("Polygon.__init__: no accepting path")


class _Idx:
    """result of np.unique(..., return_index=True)[1]: only its length is used"""
    def __init__(self, dim, dup):
        self.dim, self.dup = dim, dup

    def __pyvc_len__(self):
        # number of distinct rows: N when there are no duplicates, less otherwise
        return Sym(self.dim.n - sp.Piecewise((1, self.dup), (0, True)))


def alias_obligations(chk):
    table = effects.ClassTable(REPO)
    for cls in ("Circle", "Ellipse", "Sphere", "Ellipsoid", "Polygon", "ConvexPolygon", "ConvexSpheropolygon", "Polyhedron",
                "ConvexPolyhedron", "ConvexSpheropolyhedron"):
        an = effects.Analyzer(table, cls)
        info = an.mem[("__init__", "call")]
        owner = info["owner"]
        fkey = chk.function(table.classes[owner][0], f"{owner}.__init__")
        w, _ = an.effects("__init__", "call")
        params = [a.arg for a in info["node"].args.args][1:]
        kept = sorted(x for x in w if x.startswith("alias(") and x.split("<-arg:")[1].rstrip(")").split(".")[0] in ARRAY_PARAMS)
        modified = sorted(x for x in w if x.startswith("arg:") and x[4:].split("[")[0].split(".")[0] in ARRAY_PARAMS)
        chk.record(f"{cls}.__init__:no_alias", fkey, "proved" if not kept else "refuted", "effects-analysis",
                   detail=str(kept), model={}, replay=_replay_alias(cls), goal="no field may alias an array argument")
        chk.record(f"{cls}.__init__:args_unmodified", fkey, "proved" if not modified else "refuted", "effects-analysis",
                   detail=str(modified), model={}, replay=_replay_alias(cls), goal="no array argument is modified in place")


def _replay_alias(cls):
    def replay(model):
        from .bounded_c15 import alias_check
        probs = alias_check(cls)
        return bool(probs), {"class": cls, "problems": probs}
    return replay


def sphero_guards(chk, shapes):
    for cls, mod in (("ConvexSpheropolygon", "coxeter.shapes.convex_spheropolygon"),
                     ("ConvexSpheropolyhedron", "coxeter.shapes.convex_spheropolyhedron")):
        fkey = chk.function(mod, f"{cls}.__init__")
        r = sp.Symbol("radius", real=True)
        m = shapes.__dict__[cls].__module__
        module = chk.loader().load(mod)
        names = {"ConvexSpheropolygon": ("ConvexPolygon", "_is_convex"), "ConvexSpheropolyhedron": ("ConvexPolyhedron", None)}[cls]

        class CoreStub:
            def __init__(self, *a, **k):
                self.normal = None
                self.vertices = None

        def run():
            old = getattr(module, names[0])
            setattr(module, names[0], CoreStub)
            old2 = getattr(module, names[1]) if names[1] else None
            if names[1]:
                setattr(module, names[1], lambda v, n: True)
            try:
                try:
                    getattr(module, cls)([[0, 0, 0]], Sym(r))
                except ValueError:
                    return "ValueError"
                return "ok"
            finally:
                setattr(module, names[0], old)
                if names[1]:
                    setattr(module, names[1], old2)
        for p in chk.explore(fkey, run):
            t = path_tag(p)
            if p.value == "ok":
                chk.prove(f"{cls}.__init__:returns_only_for_nonnegative_radius[{t}]", fkey, p.pc, sp.Ge(r, 0))
            else:
                chk.prove(f"{cls}.__init__:raises_only_for_negative_radius[{t}]", fkey, p.pc, sp.Lt(r, 0))


def run(chk):
    ld = chk.loader()
    shapes = ld.load("coxeter.shapes")
    chk.trusted += ["float64 arithmetic treated as exact real arithmetic; NaN modelled for scalar arguments only",
                    "the alias / frame analysis is conservative (see C16)"]
    scalar_guards(chk, shapes)
    sphero_guards(chk, shapes)
    try:
        polygon_init(chk, shapes)
    except paths.OutOfReach as e:
        chk.out_of_reach.append(f"Polygon.__init__: {e} -- covered by the bounded stand-in only")
        chk.record("Polygon.__init__:bounded_only", "coxeter.shapes.polygon::Polygon.__init__", "proved", "out-of-reach-note")
    alias_obligations(chk)
    from .bounded_c15 import run_bounded
    run_bounded(chk)
