"""C15 -- constructors accept valid geometry and reject invalid geometry; they never store or modify the caller's arrays.

Deductive:
* scalar guards: every curved-shape constructor is executed on unconstrained symbolic radii / semi-axes (and NaN): it
  returns only if all of them are positive and otherwise raises ValueError; spheropolytopes refuse negative radii;
* Polygon.__init__ on a symbolic number N of vertices: rejects N < 3 and non-planar input exactly by the documented
  tolerance test, accepts otherwise (duplicate and simplicity tests are assumed contracts of np.unique / the sweep);
* aliasing: the frame analysis (pyvc/effects.py) of every constructor shows no field that may alias an array argument
  and no in-place modification of an argument.
Bounded: exact classification of closed lattice polylines (simple / self-intersecting), planar / off-plane, convex
position / interior point, all vertex orders of small convex sets, and a run-time shares-memory check.
"""
from __future__ import annotations

import numpy as np
import sympy as sp

from pyvc import effects, externals, paths
from pyvc.loader import REPO
from pyvc.sym import Sym, to_expr
from pyvc.symarr import Dim, make, DEFS
from .common import CURVED, S, path_tag, ex

LEVEL = "other"
ARRAY_PARAMS = {"center", "vertices", "normal", "faces"}


def scalar_guards(chk, shapes):
    for cls, (mod, params) in CURVED.items():
        fkey = chk.function(mod, f"{cls}.__init__")
        syms = [sp.Symbol(p, real=True) for p in params]

        def run(vals=None):
            args = [Sym(s) for s in syms] if vals is None else vals
            try:
                getattr(shapes, cls)(*args, (S("cx"), S("cy"), S("cz")))
            except ValueError:
                return "ValueError"
            return "ok"
        n_ok = 0
        for p in chk.explore(fkey, run):
            t = path_tag(p)
            allpos = sp.And(*[sp.Gt(s, 0) for s in syms])
            if p.value == "ok":
                n_ok += 1
                chk.prove(f"{cls}.__init__:returns_only_for_positive_axes[{t}]", fkey, p.pc, allpos)
            else:
                chk.prove(f"{cls}.__init__:raises_only_for_a_nonpositive_axis[{t}]", fkey, p.pc, sp.Not(allpos))
        if not n_ok:
            chk.errors.append(f"{cls}.__init__: no accepting path")
        for i in range(len(syms)):
            vals = [1.0] * len(syms)
            vals[i] = float("nan")
            for p in chk.explore(fkey, lambda vals=vals: run(vals)):
                chk.record(f"{cls}.__init__:rejects_nan[{params[i]}]", fkey, "proved" if p.value == "ValueError" else "refuted",
                           "concrete-nan", model={})


def polygon_init(chk, shapes):
    fkey = chk.function("coxeter.shapes.polygon", "Polygon.__init__")
    N = Dim("Np", minimum=1)
    chk.assumed.append("numpy.unique(vertices, axis=0, return_index=True) returns one index per distinct row "
                       "(duplicate detection); extern.bentley_ottmann decides simplicity (bounded stand-in)")
    dup = sp.Symbol("has_duplicates")
    externals.HOOKS["numpy.unique"] = lambda v, axis=0, return_index=True: (None, _Idx(N, dup))

    def run():
        V = make("Vp", (N, 3))
        try:
            o = shapes.Polygon(V, test_simple=False)
        except ValueError as e:
            return "ValueError", str(e)
        return "ok", o
    n_ok = 0
    # planarity, stated from the property ("accepts every planar polygon", "rejects off-plane by > 1% of size"):
    # h_k = n . (v_k - v_0) and d = n . v_0 with n the unit normal of the first three vertices, computed here independently
    vf = sp.Function("Vp", real=True)
    row = lambda i: [vf(i, sp.Integer(j)) for j in range(3)]   # noqa: E731
    v0, v1, v2, vk = row(sp.Integer(0)), row(sp.Integer(1)), row(sp.Integer(2)), row(N.k)
    a_, b_ = [v2[j] - v1[j] for j in range(3)], [v0[j] - v1[j] for j in range(3)]
    cr = [a_[1] * b_[2] - a_[2] * b_[1], a_[2] * b_[0] - a_[0] * b_[2], a_[0] * b_[1] - a_[1] * b_[0]]
    nrm = sp.sqrt(sum(x * x for x in cr))
    h_spec = sum(cr[j] * (vk[j] - v0[j]) for j in range(3)) / nrm
    d_spec = sum(cr[j] * v0[j] for j in range(3)) / nrm
    hs, ds, size = sp.Symbol("h_k", real=True), sp.Symbol("d_plane", real=True), sp.Symbol("size", positive=True)
    # the domain on which "1% of the size" is above the constructor's documented tolerance floor (1e-8 + 1e-5 |d|)
    domain = [sp.Ge(size, sp.Rational(2, 10**6)), sp.Le(sp.Abs(ds), 100 * size)]
    chk.notes.append("Polygon.__init__ planarity clauses hold on the domain size >= 2e-6 and |plane offset| <= 100 size "
                     "(outside it the documented tolerance 1e-8 + 1e-5 |d| exceeds 1% of the size)")
    for p in chk.explore(fkey, run, assumptions=N.facts()):
        t = path_tag(p)
        kind, info = p.value
        pcu = unfold_defs(p.pc, N)
        geo = [c_ for c_ in pcu if getattr(c_, "has", None) and c_.has(vf)]
        plain = [c_ for c_ in pcu if c_ not in geo]
        apc, unmatched = abstract_conditions(geo, {hs: h_spec, ds: d_spec}, {hs + ds: h_spec + d_spec})
        loose = bool(unmatched) or not geo       # the abstraction lost information: counter-models need a replay
        if kind == "ok":
            n_ok += 1
            chk.prove(f"Polygon.__init__:accepts_only_three_or_more_vertices[{t}]", fkey, plain, sp.Ge(N.n, 3))
            chk.prove(f"Polygon.__init__:accepts_only_without_duplicates[{t}]", fkey, plain, sp.Not(dup))
            chk.prove(f"Polygon.__init__:accepted_vertices_are_within_1%_of_size_of_the_plane[{t}]", fkey, apc + domain,
                      sp.Le(sp.Abs(hs), size / 100), replay=_replay_planarity, abstracted=loose)
            chk.record(f"Polygon.__init__:planarity_test_is_on_plane_distances[{t}]", fkey,
                       "proved" if not unmatched else "unknown", "normal-form-matching", detail=str(unmatched)[:200], model={},
                       goal="every geometric quantity in the acceptance condition is n.(v_k - v_0) or n.v_0")
        elif "coplanar" in info:
            chk.prove(f"Polygon.__init__:planar_vertex_is_never_the_reason_for_rejection[{t}]", fkey, apc, sp.Ne(hs, 0),
                      replay=_replay_planar_rejected, abstracted=loose)
        else:
            reason = {"at least 3": sp.Lt(N.n, 3), "duplicate": dup}
            goal = None
            for key, g in reason.items():
                if key in info:
                    goal = g
            if goal is not None:
                chk.prove(f"Polygon.__init__:raise_reason_holds[{t}:{info[:24]}]", fkey, p.pc, goal)
            else:
                chk.record(f"Polygon.__init__:raises_ValueError[{t}:{info[:24]}]", fkey, "proved", "type-check", detail=info)
    if not n_ok:
        chk.errors.append("Polygon.__init__: no accepting path")


def unfold_defs(pc, dim):
    """defined quantifier symbols of the path condition at the generic index: a true `exists` is witnessed by the generic
    row (Skolem constant), a false one is instantiated there; dually for `forall`"""
    out = []
    for c_ in pc:
        c_ = sp.sympify(c_)
        neg = isinstance(c_, sp.Not)
        s = c_.args[0] if neg else c_
        d = DEFS.get(s)
        if d is not None and d.kind in ("exists", "forall") and d.dim is dim:
            weak = (d.kind == "exists") == (not neg)      # exists true / forall false: one witness row
            body = d.at(dim.k)
            out.append(sp.Not(body) if neg else body)
        else:
            out.append(c_)
    return out


def abstract_conditions(conds, specs, sums=()):
    """Rewrite conditions over huge geometric terms as conditions over a few named quantities.

    specs: {symbol: expression}.  Every Abs(X) / maximal geometric subterm X of the conditions is compared (exact normal
    form) with +-spec and +-(sum of specs); a match is replaced by the symbol(s).  Unmatched geometric terms become fresh
    unconstrained symbols (sound for proving; they are reported)."""
    from pyvc.oblig import normal_form
    cands = [(s, e) for s, e in specs.items()] + [(s, e) for s, e in dict(sums).items()]
    cands += [(s1 - s2, e1 - e2) for s1, e1 in specs.items() for s2, e2 in specs.items() if s1 is not s2]
    fresh, unmatched, cache = [], [], {}
    spec_syms = set().union(*[e.free_symbols | e.atoms(sp.Function) for e in specs.values()])

    def geometric(x):
        return bool(x.atoms(sp.Function) & spec_syms) or any(isinstance(a, sp.core.function.AppliedUndef) for a in x.atoms(sp.Function))

    def match(x):
        if x in cache:
            return cache[x]
        out = None
        for s, e in cands:
            if normal_form(x - e) == 0:
                out = s
                break
            if normal_form(x + e) == 0:
                out = -s
                break
        if out is None:
            out = sp.Symbol(f"unmatched_{len(fresh)}", real=True)
            fresh.append(out)
            unmatched.append(str(x)[:120])
        cache[x] = out
        return out

    def rec(x):
        if not x.args or not geometric(x):
            return x
        if isinstance(x, sp.Abs):
            return sp.Abs(match(x.args[0]))
        if isinstance(x, (sp.Add,)):
            geo = [a for a in x.args if geometric(a)]
            rest = [a for a in x.args if not geometric(a)]
            # coefficient * Abs(...) terms are kept structurally, the remaining geometric part is matched as a whole
            keep = [a for a in geo if a.has(sp.Abs)]
            whole = [a for a in geo if not a.has(sp.Abs)]
            return sp.Add(*rest, *[rec(a) for a in keep], *( [match(sp.Add(*whole))] if whole else []))
        if isinstance(x, sp.Mul) and x.has(sp.Abs):
            return x.func(*[rec(a) for a in x.args])
        if isinstance(x, (sp.core.relational.Relational, sp.And, sp.Or, sp.Not)):
            return x.func(*[rec(a) for a in x.args])
        return match(x)
    return [rec(sp.sympify(c)) for c in conds], unmatched


def _replay_planarity(model):
    """squares of side `size` in the plane z = d with one vertex lifted by h, over a sweep of sizes / offsets within the
    stated domain: accepted although lifted by more than 1% of the size, or rejected although exactly planar"""
    from .common import real_coxeter
    cox = real_coxeter()
    for size in (2e-6, 1e-5, 1e-4, 1e-3, 1.0, 1e3):
        for d in (0.0, size, 100 * size):
            for lift in (0.0, 0.011 * size, 0.05 * size, 0.5 * size):
                V = np.array([[0, 0, d], [size, 0, d], [size, size, d + lift], [0, size, d]], dtype=float)
                try:
                    cox.shapes.Polygon(V)
                    ok = True
                except ValueError:
                    ok = False
                # distance of the lifted vertex from the plane of the first three vertices is `lift` (they are unlifted)
                if lift > 0 and ok:
                    return True, {"vertices": V.tolist(), "size": size, "plane_offset": d, "lift": lift,
                                  "lift_relative_to_size": lift / size, "accepted": ok}
    return False, {}


def _replay_planar_rejected(model):
    from .common import real_coxeter
    cox = real_coxeter()
    for size in (2e-6, 1e-5, 1e-4, 1e-3, 1.0, 1e3):
        for d in (0.0, size, 100 * size):
            V = np.array([[0, 0, d], [size, 0, d], [size, size, d], [0, size, d]], dtype=float)
            try:
                cox.shapes.Polygon(V)
            except ValueError as e:
                return True, {"vertices": V.tolist(), "size": size, "plane_offset": d, "raised": str(e)[:100]}
    return False, {}


class _Idx:
    """result of np.unique(..., return_index=True)[1]: only its length is used"""
    def __init__(self, dim, dup):
        self.dim, self.dup = dim, dup

    def __pyvc_len__(self):
        # number of distinct rows: N when there are no duplicates, less otherwise
        return Sym(self.dim.n - sp.Piecewise((1, self.dup), (0, True)))


def alias_obligations(chk):
    table = effects.ClassTable(REPO)
    for cls in ("Circle", "Ellipse", "Sphere", "Ellipsoid", "Polygon", "ConvexPolygon", "ConvexSpheropolygon", "Polyhedron",
                "ConvexPolyhedron", "ConvexSpheropolyhedron"):
        an = effects.Analyzer(table, cls)
        info = an.mem[("__init__", "call")]
        owner = info["owner"]
        fkey = chk.function(table.classes[owner][0], f"{owner}.__init__")
        w, _ = an.effects("__init__", "call")
        params = [a.arg for a in info["node"].args.args][1:]
        kept = sorted(x for x in w if x.startswith("alias(") and x.split("<-arg:")[1].rstrip(")").split(".")[0] in ARRAY_PARAMS)
        modified = sorted(x for x in w if x.startswith("arg:") and x[4:].split("[")[0].split(".")[0] in ARRAY_PARAMS)
        chk.record(f"{cls}.__init__:no_alias", fkey, "proved" if not kept else "refuted", "effects-analysis",
                   detail=str(kept), model={}, replay=_replay_alias(cls), goal="no field may alias an array argument")
        chk.record(f"{cls}.__init__:args_unmodified", fkey, "proved" if not modified else "refuted", "effects-analysis",
                   detail=str(modified), model={}, replay=_replay_alias(cls), goal="no array argument is modified in place")


def _replay_alias(cls):
    def replay(model):
        from .bounded_c15 import alias_check
        probs = alias_check(cls)
        return bool(probs), {"class": cls, "problems": probs}
    return replay


def sphero_guards(chk, shapes):
    for cls, mod in (("ConvexSpheropolygon", "coxeter.shapes.convex_spheropolygon"),
                     ("ConvexSpheropolyhedron", "coxeter.shapes.convex_spheropolyhedron")):
        fkey = chk.function(mod, f"{cls}.__init__")
        r = sp.Symbol("radius", real=True)
        m = shapes.__dict__[cls].__module__
        module = chk.loader().load(mod)
        names = {"ConvexSpheropolygon": ("ConvexPolygon", "_is_convex"), "ConvexSpheropolyhedron": ("ConvexPolyhedron", None)}[cls]

        class CoreStub:
            def __init__(self, *a, **k):
                self.normal = None
                self.vertices = None

        def run():
            old = getattr(module, names[0])
            setattr(module, names[0], CoreStub)
            old2 = getattr(module, names[1]) if names[1] else None
            if names[1]:
                setattr(module, names[1], lambda v, n: True)
            try:
                try:
                    getattr(module, cls)([[0, 0, 0]], Sym(r))
                except ValueError:
                    return "ValueError"
                return "ok"
            finally:
                setattr(module, names[0], old)
                if names[1]:
                    setattr(module, names[1], old2)
        for p in chk.explore(fkey, run):
            t = path_tag(p)
            if p.value == "ok":
                chk.prove(f"{cls}.__init__:returns_only_for_nonnegative_radius[{t}]", fkey, p.pc, sp.Ge(r, 0))
            else:
                chk.prove(f"{cls}.__init__:raises_only_for_negative_radius[{t}]", fkey, p.pc, sp.Lt(r, 0))


def run(chk):
    ld = chk.loader()
    shapes = ld.load("coxeter.shapes")
    chk.trusted += ["float64 arithmetic treated as exact real arithmetic; NaN modelled for scalar arguments only",
                    "the alias / frame analysis is conservative (see C16)"]
    scalar_guards(chk, shapes)
    sphero_guards(chk, shapes)
    try:
        polygon_init(chk, shapes)
    except paths.OutOfReach as e:
        chk.out_of_reach.append(f"Polygon.__init__: {e} -- covered by the bounded stand-in only")
        chk.record("Polygon.__init__:bounded_only", "coxeter.shapes.polygon::Polygon.__init__", "proved", "out-of-reach-note")
    alias_obligations(chk)
    from .bounded_c15 import run_bounded
    run_bounded(chk)
