"""C13 -- bounding, bounded, circum- and in-spheres / circles satisfy their definitions.

Deductive:
* curved shapes: the four balls (and their *_radius getters) exist on every class and are centred at the centroid
  with the largest / smallest semi-axis;
* centred balls of ConvexPolyhedron / ConvexPolygon: radius is the max (min) over all vertices (faces / edges) of
  the distance from the centroid -- so the ball contains everything (lies inside) and touches the extremal element;
* circum-/in-balls (least squares): the linear system handed to lstsq states exactly "equidistant from every
  vertex" / "tangent to every face", the returned ball is (|x|, x + v0) resp. (x[3], x[:3]), a ball is returned only
  if the residual test passes whenever the system is over-determined, and that test is invariant under scaling
  of the shape (the absolute-tolerance defect of the unchanged tree failed exactly this clause).
Bounded: miniball-based minimal bounding balls (containment, minimality by support points) and existence /
non-existence on tangential, cyclic and generic shapes at scales 1e-3 .. 1e3.
"""
from __future__ import annotations

import numpy as np
import sympy as sp

from pyvc import externals, paths, symnp
from pyvc.sym import Sym, to_expr, wrap
from pyvc.symarr import SymArr, Dim, DEFS, make
from . import polytope_state as PS
from . import polyhedron_state as H
from . import mutators as M
from .common import CURVED, make_curved, path_tag, ex

LEVEL = "other"
C_VEC = [sp.Symbol(f"cc{i}", real=True) for i in range(3)]


def curved(chk, shapes):
    r, a, b, c = sp.symbols("r a b c", real=True)
    axes = {"Circle": (r,), "Sphere": (r,), "Ellipse": (a, b), "Ellipsoid": (a, b, c)}
    cen = sp.symbols("cx cy cz", real=True)
    for cls, (mod, _) in CURVED.items():
        kind = "circle" if cls in ("Circle", "Ellipse") else "sphere"
        for ball, pick in ((f"minimal_bounding_{kind}", sp.Max), (f"minimal_centered_bounding_{kind}", sp.Max),
                           (f"maximal_bounded_{kind}", sp.Min), (f"maximal_centered_bounded_{kind}", sp.Min)):
            klass = getattr(shapes, cls)
            owner = next((k for k in klass.__mro__ if ball in k.__dict__), None)
            fkey = chk.function(owner.__module__, f"{owner.__name__}.{ball}[get]")

            def run(ball=ball):
                obj = make_curved(shapes, cls)
                try:
                    s = getattr(obj, ball)
                    rad = getattr(obj, ball + "_radius")
                except NotImplementedError as e:
                    return "missing", str(e), None, None
                return "ok", s.radius, s.centroid, rad
            for p in chk.explore(fkey, run):
                if p.kind != "return":
                    continue
                t = path_tag(p)
                if p.value[0] == "missing":
                    chk.record(f"{cls}.{ball}:exists", fkey, "refuted", "reflection", detail=p.value[1], model={})
                    break
                _, rad, centre, rad2 = p.value
                want = pick(*axes[cls]) if len(axes[cls]) > 1 else axes[cls][0]
                chk.prove(f"{cls}.{ball}:radius[{t}]", fkey, p.pc, sp.Eq(ex(rad), want))
                chk.prove(f"{cls}.{ball}_radius:agrees[{t}]", fkey, p.pc, sp.Eq(ex(rad2), want))
                chk.prove(f"{cls}.{ball}:centre[{t}]", fkey, p.pc,
                          sp.And(*[sp.Eq(ex(centre[i]), cen[i]) for i in range(3)]))


def centred(chk, shapes):
    # ---------------------------------------------------------------- ConvexPolyhedron
    MOD = "coxeter.shapes.convex_polyhedron"
    fk = chk.function(MOD, "ConvexPolyhedron.minimal_centered_bounding_sphere[get]")
    sub = type("cp", (shapes.ConvexPolyhedron,), {"center": property(lambda self: np.array([Sym(x) for x in C_VEC], dtype=object))})

    def run_b():
        o = PS.convex_polyhedron(shapes)
        o.__class__ = sub
        s = o.minimal_centered_bounding_sphere
        return s.radius, s.centroid
    Vrow = [sp.Function("V", real=True)(PS.N.k, sp.Integer(j)) for j in range(3)]
    for p in chk.explore(fk, run_b, assumptions=PS.N.facts()):
        if p.kind != "return":
            continue
        rad, centre = p.value
        d = DEFS.get(ex(rad))
        ok = d is not None and d.kind == "max" and d.dim is PS.N
        chk.record("ConvexPolyhedron.minimal_centered_bounding_sphere:radius_is_max_over_vertices", fk,
                   "proved" if ok else "refuted", "structure", model={}, detail=str(ex(rad))[:100])
        if ok:
            want = sp.sqrt(sp.factor_terms(sp.expand(sum((Vrow[j] - C_VEC[j])**2 for j in range(3)))))
            chk.prove_eq("ConvexPolyhedron.minimal_centered_bounding_sphere:distance_to_centroid", fk, p.pc, d.at(PS.N.k), want)
        chk.prove("ConvexPolyhedron.minimal_centered_bounding_sphere:centred_at_centroid", fk, p.pc,
                  sp.And(*[sp.Eq(ex(centre[i]), C_VEC[i]) for i in range(3)]))
    fk = chk.function(MOD, "ConvexPolyhedron.maximal_centered_bounded_sphere[get]")

    def run_i():
        o = PS.convex_polyhedron(shapes)
        o.__class__ = sub
        eqs = o._equations
        try:
            s = o.maximal_centered_bounded_sphere
        except ValueError:
            return "ValueError", None, None, eqs
        return "ok", s.radius, s.centroid, eqs
    for p in chk.explore(fk, run_i, assumptions=PS.F.facts()):
        if p.kind != "return":
            continue
        t = path_tag(p)
        kind, rad, centre, eqs = p.value
        E = [to_expr(eqs.inner[j]) for j in range(4)]
        dist = E[0] * C_VEC[0] + E[1] * C_VEC[1] + E[2] * C_VEC[2] + E[3]
        if kind == "ValueError":
            # raised only if some face has the centroid on its outer side
            ex_syms = [c for c in p.pc if c in DEFS and DEFS[c].kind == "exists"]
            ok = any(_same_body(DEFS[c].at(PS.F.k), sp.Gt(dist, 0)) for c in ex_syms)
            # ... or the centroid lies on a face: the largest signed distance is 0 and Sphere(0, .) refuses radius 0
            for c in p.pc:
                if isinstance(c, sp.Le) and c.rhs == 0 and (-c.lhs) in DEFS and DEFS[-c.lhs].kind == "max" \
                        and _same_body(sp.Gt(DEFS[-c.lhs].at(PS.F.k), 0), sp.Gt(dist, 0)):
                    ok = True
            chk.record(f"ConvexPolyhedron.maximal_centered_bounded_sphere:raises_only_if_centroid_not_strictly_inside[{t}]", fk,
                       "proved" if ok else "refuted", "structure", model={})
            continue
        neg = sp.expand(-ex(rad))
        d = DEFS.get(neg)
        ok = d is not None and d.kind == "max" and d.dim is PS.F
        chk.record(f"ConvexPolyhedron.maximal_centered_bounded_sphere:radius_is_min_face_distance[{t}]", fk,
                   "proved" if ok else "refuted", "structure", model={}, detail=str(ex(rad))[:100])
        if ok:
            chk.prove_eq(f"ConvexPolyhedron.maximal_centered_bounded_sphere:signed_face_distance[{t}]", fk, p.pc, d.at(PS.F.k), dist)
        chk.prove(f"ConvexPolyhedron.maximal_centered_bounded_sphere:centred_at_centroid[{t}]", fk, p.pc,
                  sp.And(*[sp.Eq(ex(centre[i]), C_VEC[i]) for i in range(3)]))
    # ---------------------------------------------------------------- ConvexPolygon
    MODG = "coxeter.shapes.convex_polygon"
    fk = chk.function(MODG, "ConvexPolygon.minimal_centered_bounding_circle[get]")
    subg = type("cg", (shapes.ConvexPolygon,), {"center": property(lambda self: np.array([Sym(x) for x in C_VEC], dtype=object))})

    def run_g():
        o = M.bare_state(shapes, "ConvexPolygon")
        o.__class__ = subg
        s = o.minimal_centered_bounding_circle
        return s.radius, s.centroid
    Vm = [sp.Function("Vm", real=True)(M.NV.k, sp.Integer(j)) for j in range(3)]
    for p in chk.explore(fk, run_g, assumptions=M.NV.facts()):
        if p.kind != "return":
            continue
        rad, centre = p.value
        d = DEFS.get(ex(rad))
        ok = d is not None and d.kind == "max" and d.dim is M.NV
        chk.record("ConvexPolygon.minimal_centered_bounding_circle:radius_is_max_over_vertices", fk,
                   "proved" if ok else "refuted", "structure", model={})
        if ok:
            want = sp.sqrt(sp.factor_terms(sp.expand(sum((Vm[j] - C_VEC[j])**2 for j in range(3)))))
            chk.prove_eq("ConvexPolygon.minimal_centered_bounding_circle:distance_to_centroid", fk, p.pc, d.at(M.NV.k), want)
        chk.prove("ConvexPolygon.minimal_centered_bounding_circle:centred_at_centroid", fk, p.pc,
                  sp.And(*[sp.Eq(ex(centre[i]), C_VEC[i]) for i in range(3)]))
    fk = chk.function(MODG, "ConvexPolygon.maximal_centered_bounded_circle[get]")

    def run_gi():
        o = M.bare_state(shapes, "ConvexPolygon")
        o.__class__ = subg
        s = o.maximal_centered_bounded_circle
        return s.radius, s.centroid
    for p in chk.explore(fk, run_gi, assumptions=M.NV.facts()):
        if p.kind != "return":
            continue
        rad, centre = p.value
        d = DEFS.get(ex(rad))
        ok = d is not None and d.kind == "min" and d.dim is M.NV
        chk.record("ConvexPolygon.maximal_centered_bounded_circle:radius_is_min_over_edges", fk,
                   "proved" if ok else "refuted", "structure", model={})
        if ok:
            # distance from the centroid to the line of edge (v_{k-1}, v_k): |(c - v_k) x (v_k - v_{k-1})| / |v_k - v_{k-1}|
            k = M.NV.k
            prev = sp.Mod(k - 1, M.NV.n)
            Vp = [sp.Function("Vm", real=True)(prev, sp.Integer(j)) for j in range(3)]
            dl = [Vm[j] - Vp[j] for j in range(3)]
            w = [C_VEC[j] - Vm[j] for j in range(3)]
            cr = [w[1] * dl[2] - w[2] * dl[1], w[2] * dl[0] - w[0] * dl[2], w[0] * dl[1] - w[1] * dl[0]]
            body = d.at(k)
            chk.prove_eq("ConvexPolygon.maximal_centered_bounded_circle:distance_to_edge_line", fk, p.pc,
                         sp.expand(body**2 * sum(x * x for x in dl)), sp.expand(sum(x * x for x in cr)))
        chk.prove("ConvexPolygon.maximal_centered_bounded_circle:centred_at_centroid", fk, p.pc,
                  sp.And(*[sp.Eq(ex(centre[i]), C_VEC[i]) for i in range(3)]))


def _same_body(a, b):
    from pyvc.oblig import normal_form
    if isinstance(a, sp.core.relational.Relational) and type(a) is type(b):
        return normal_form((a.lhs - a.rhs) - (b.lhs - b.rhs)) == 0
    return a == b


SC = sp.Symbol("sc", positive=True)
RHO = sp.Symbol("rho", nonnegative=True)
SIG = [sp.Symbol(f"sig{j}", positive=True) for j in range(3)]


def lstsq_balls(chk, shapes):
    """circumsphere / insphere / circumcircle / incircle"""
    polymod_np = symnp.np
    chk.assumed.append("numpy.linalg.lstsq(A, b) returns the least-squares solution x and residual sum of squares |Ax-b|^2 "
                       "(empty when the system is not over-determined); under scaling of the shape by s the solution and "
                       "residual scale homogeneously (x -> s x, residual -> s^k residual, k = 4 for circum-, 2 for in-balls)")
    cases = [
        ("Polyhedron", "circumsphere", "coxeter.shapes.polyhedron", 3, 4, 4),
        ("Polyhedron", "insphere", "coxeter.shapes.polyhedron", 4, 4, 2),
        ("Polygon", "circumcircle", "coxeter.shapes.polygon", 3, 3, 4),
        ("Polygon", "incircle", "coxeter.shapes.polygon", 4, 3, 2),
    ]
    for cls_name, member, mod, nun, nmin, deg in cases:
        fkey = chk.function(mod, f"{cls_name}.{member}[get]")
        calls = []

        def hook(a, b, rcond, scale=1):
            calls.append((a, b))
            x = np.array([Sym(scale * sp.Symbol(f"x{i}", real=True)) for i in range(nun)], dtype=object)
            return x, Sym(scale**deg * RHO), None, None

        def run(scale):
            calls.clear()
            externals.HOOKS["numpy.lstsq"] = lambda a, b, rc: hook(a, b, rc, scale)
            old_ptp = getattr(type(polymod_np), "ptp", None)
            type(polymod_np).ptp = lambda self, x, axis=None: np.array([Sym(scale * s_) for s_ in SIG], dtype=object)
            try:
                if cls_name == "Polyhedron":
                    o = H.polyhedron(shapes)
                    dimN = H.N
                else:
                    o = M.bare_state(shapes, "Polygon")
                    dimN = M.NV
                if scale != 1:
                    o._vertices = o._vertices * Sym(scale)
                    if hasattr(o, "_equations"):
                        o._equations = o._equations.copy()
                        o._equations[:, 3] *= Sym(scale)
                try:
                    ball = getattr(o, member)
                except RuntimeError:
                    return "RuntimeError", None, None, list(calls), dimN
                return "ok", ball.radius, ball.centroid, list(calls), dimN
            finally:
                if old_ptp is None:
                    del type(polymod_np).ptp
                else:
                    type(polymod_np).ptp = old_ptp
        results = {}
        try:
            for scale in (1, SC):
                facts = (H.facts() if cls_name == "Polyhedron" else M.NV.facts())
                results[scale] = chk.explore(fkey, lambda: run(scale), assumptions=facts)
        except paths.OutOfReach as e:
            chk.out_of_reach.append(f"{cls_name}.{member}: {e} -- covered by the bounded stand-in only")
            chk.record(f"{cls_name}.{member}:bounded_only", fkey, "proved", "out-of-reach-note",
                       detail="deductive clauses not generated; see bounded:balls")
            continue
        base = [p for p in results[1] if p.kind == "return"]
        scaled = [p for p in results[SC] if p.kind == "return"]
        tag = f"{cls_name}.{member}"
        if len(base) != len(scaled) or not base:
            chk.errors.append(f"{tag}: path sets of the original and the scaled shape differ ({len(base)} vs {len(scaled)})")
            continue
        dimN = base[0].value[4]
        for p, q in zip(base, scaled):
            t = path_tag(p)
            if p.decisions != q.decisions:
                chk.errors.append(f"{tag}: decision sequences differ")
                continue
            own = [c for c in p.pc if c.has(RHO)]
            own_s = [c for c in q.pc if c.has(RHO)]
            cond = sp.And(*own) if own else sp.true
            cond_s = sp.And(*own_s) if own_s else sp.true
            if own or own_s:
                chk.prove(f"{tag}:residual_test_is_scale_invariant[{t}]", fkey, [sp.Gt(SC, 0)] + [sp.Gt(s_, 0) for s_ in SIG],
                          sp.Equivalent(cond, cond_s), replay=_replay_scale(cls_name, member))
            kind = p.value[0]
            over = sp.Gt(dimN.n, nmin)
            if kind == "ok" and not own:
                # returned without testing the residual: allowed only when the system is not over-determined
                chk.prove(f"{tag}:untested_only_if_not_overdetermined[{t}]", fkey, p.pc, sp.Not(over),
                          replay=_replay_count(cls_name, member))
            if kind == "RuntimeError":
                chk.prove(f"{tag}:raises_only_when_overdetermined_and_residual_large[{t}]", fkey, p.pc,
                          sp.And(over, sp.Gt(RHO, 0)))
            if kind == "ok":
                x = [sp.Symbol(f"x{i}", real=True) for i in range(nun)]
                rad, centre = ex(p.value[1]), [ex(v) for v in p.value[2]]
                A, b = p.value[3][0]
                # the linear system handed to lstsq: its generic row states the defining condition of the ball
                try:
                    Arow, brow = _generic_row(A), _generic_row(b)
                    if member in ("circumsphere", "circumcircle"):
                        # row: p.x - |p|^2/2 with p = v - v0   <=>   (|v - (v0+x)|^2 - |x|^2) / (-2)
                        resid = sum(Arow[i] * x[i] for i in range(3)) - brow[0]
                        p_ = Arow
                        want = -(sum((p_[i] - x[i])**2 for i in range(3)) - sum(xi * xi for xi in x)) / 2
                        chk.prove_eq(f"{tag}:system_row_states_equidistance[{t}]", fkey, p.pc, resid, want)
                        # ... where p really is  v_(k+1) - v_0  for the generic remaining vertex and b = |p|^2 / 2
                        dsub = _row_dim(A)
                        vf = sp.Function("Vh" if cls_name == "Polyhedron" else "Vm", real=True)
                        for i in range(3):
                            chk.prove_eq(f"{tag}:system_row_is_vertex_minus_first[{i}][{t}]", fkey, p.pc, Arow[i],
                                         vf(dsub.k + 1, sp.Integer(i)) - vf(sp.Integer(0), sp.Integer(i)))
                        chk.prove_eq(f"{tag}:system_rhs_is_half_squared_length[{t}]", fkey, p.pc, brow[0],
                                     sum(Arow[i]**2 for i in range(3)) / 2)
                    else:
                        # row: n.c + r - n.v_f   == (signed distance of c from the face / edge line) + r
                        resid = sum(Arow[i] * x[i] for i in range(4)) - brow[0]
                        chk.prove_eq(f"{tag}:system_row_states_tangency[{t}]", fkey, p.pc, sp.expand(resid - x[3] * (Arow[3] - 1)),
                                     sp.expand(sum(Arow[i] * x[i] for i in range(3)) + x[3] - brow[0]))
                        chk.prove_eq(f"{tag}:system_row_radius_coefficient_is_one[{t}]", fkey, p.pc, Arow[3], 1)
                        if cls_name == "Polyhedron":
                            # the row's normal is the stored unit normal of face f and the right-hand side is n_f . (first vertex of f)
                            o0 = H.polyhedron(shapes)
                            E = [to_expr(o0._equations.inner[j]) for j in range(3)]
                            P0 = H.face_vertex(0)
                            for i in range(3):
                                chk.prove_eq(f"{tag}:system_row_is_face_normal[{i}][{t}]", fkey, p.pc, Arow[i], E[i])
                            chk.prove_eq(f"{tag}:system_rhs_is_normal_dot_face_vertex[{t}]", fkey, p.pc, brow[0],
                                         sum(E[i] * P0[i] for i in range(3)))
                        else:
                            # outward normal of edge k: (v_(k+1) - v_k) x n, normalised; right-hand side n_out . v_k
                            k = M.NV.k
                            vm = sp.Function("Vm", real=True)
                            nn = [sp.Symbol(f"nm{j}", real=True) for j in range(3)]
                            e = [vm(sp.Mod(k + 1, M.NV.n), sp.Integer(j)) - vm(k, sp.Integer(j)) for j in range(3)]
                            cr = [e[1] * nn[2] - e[2] * nn[1], e[2] * nn[0] - e[0] * nn[2], e[0] * nn[1] - e[1] * nn[0]]
                            nrm = sp.sqrt(sp.factor_terms(sp.expand(sum(x_ * x_ for x_ in cr))))
                            for i in range(3):
                                chk.prove_eq(f"{tag}:system_row_is_outward_edge_normal[{i}][{t}]", fkey, p.pc, Arow[i] * nrm, cr[i])
                            chk.prove_eq(f"{tag}:system_rhs_is_normal_dot_edge_start[{t}]", fkey, p.pc, brow[0],
                                         sum(Arow[i] * vm(k, sp.Integer(i)) for i in range(3)))
                    if cls_name == "Polygon":
                        # the appended last row keeps the centre in the polygon's plane
                        la, lb = _last_row(A), _last_row(b)
                        nn = [sp.Symbol(f"nm{j}", real=True) for j in range(3)]
                        vm = sp.Function("Vm", real=True)
                        for i in range(3):
                            chk.prove_eq(f"{tag}:plane_row_is_the_normal[{i}][{t}]", fkey, p.pc, la[i], nn[i])
                        if member == "circumcircle":
                            # unknown is the centre relative to the first vertex: n . x = 0
                            chk.prove_eq(f"{tag}:plane_row_rhs[{t}]", fkey, p.pc, lb[0], 0, replay=_replay_plane(member))
                        else:
                            # unknown is the absolute centre (and r with coefficient 0): n . c = n . v0
                            chk.prove_eq(f"{tag}:plane_row_radius_coefficient_is_zero[{t}]", fkey, p.pc, la[3], 0)
                            chk.prove_eq(f"{tag}:plane_row_rhs[{t}]", fkey, p.pc, lb[0],
                                         sum(nn[i] * vm(sp.Integer(0), sp.Integer(i)) for i in range(3)),
                                         replay=_replay_plane(member))
                except (paths.OutOfReach, AttributeError, IndexError, TypeError) as e:
                    chk.out_of_reach.append(f"{tag}: linear-system row not extracted ({e})")
                if member in ("circumsphere", "circumcircle"):
                    v0 = [to_expr(v) for v in _first_vertex(cls_name)]
                    chk.prove(f"{tag}:ball_from_solution[{t}]", fkey, p.pc,
                              sp.And(sp.Eq(rad**2, sum(xi * xi for xi in x)), *[sp.Eq(centre[i], x[i] + v0[i]) for i in range(3)]))
                else:
                    chk.prove(f"{tag}:ball_from_solution[{t}]", fkey, p.pc,
                              sp.And(sp.Eq(rad, x[3]), *[sp.Eq(centre[i], x[i]) for i in range(3)]))
        chk.record(f"{tag}:paths", fkey, "proved", "enumeration", detail=f"{len(base)} returning / raising paths compared")


def _row_dim(a):
    from pyvc.symnp import ConcatArr
    if isinstance(a, ConcatArr):
        a = a.parts[0]
    return a.axes[0]


def _last_row(a):
    """the single concrete row appended after the symbolic part of a system matrix / right-hand side"""
    from pyvc.symnp import ConcatArr
    if not isinstance(a, ConcatArr) or len(a.parts) < 2:
        raise TypeError("no appended row")
    last = a.parts[-1]
    return [to_expr(v) for v in last.inner.reshape(-1)]


def _generic_row(a):
    """sympy expressions of the generic row of the (first, symbolic-extent) part of a system matrix / vector"""
    from pyvc.symnp import ConcatArr
    if isinstance(a, ConcatArr):
        a = a.parts[0]
    if isinstance(a, SymArr):
        inner = a.inner
        return [to_expr(v) for v in inner.reshape(-1)] if inner.ndim else [to_expr(inner[()])]
    raise TypeError("no symbolic part")


def _first_vertex(cls_name):
    if cls_name == "Polyhedron":
        return [sp.Function("Vh", real=True)(sp.Integer(0), sp.Integer(j)) for j in range(3)]
    return [sp.Function("Vm", real=True)(sp.Integer(0), sp.Integer(j)) for j in range(3)]


def _replay_scale(cls_name, member):
    def replay(model):
        from .bounded_c13 import existence_cases
        from .common import real_coxeter
        cox = real_coxeter()
        for name, klass, pts, expect in existence_cases():
            if member not in expect:
                continue
            for s in (1e-3, 1e-2, 1.0, 1e2, 1e3):
                try:
                    getattr(getattr(cox.shapes, klass)(np.asarray(pts) * s), member)
                    got = True
                except RuntimeError:
                    got = False
                if got != expect[member]:
                    return True, {"class": klass, "points": (np.asarray(pts) * s).tolist(), "scale": s, "member": member,
                                  "ball_exists": expect[member], "returned_a_ball": got}
        return False, {}
    return replay


_replay_count = _replay_scale


def _replay_plane(member):
    """triangles in planes that do not pass through the origin: closed-form incentre / circumcentre"""
    def replay(model):
        from .common import real_coxeter
        cox = real_coxeter()
        tris = [np.array([[0.0, 0, 2], [4, 0, 2], [0, 3, 2]]),
                np.array([[1.0, 2, 3], [4, 1, 5], [2, 5, 4]]),
                np.array([[-3.0, 1, -7], [2, -2, -6], [1, 4, -9]])]
        for T in tris:
            A, B, C = T
            a, b, c_ = np.linalg.norm(B - C), np.linalg.norm(C - A), np.linalg.norm(A - B)
            area = 0.5 * np.linalg.norm(np.cross(B - A, C - A))
            if member == "incircle":
                want_c, want_r = (a * A + b * B + c_ * C) / (a + b + c_), 2 * area / (a + b + c_)
            else:
                # circumcentre in barycentric form
                wa, wb, wc = a * a * (b * b + c_ * c_ - a * a), b * b * (c_ * c_ + a * a - b * b), c_ * c_ * (a * a + b * b - c_ * c_)
                want_c, want_r = (wa * A + wb * B + wc * C) / (wa + wb + wc), a * b * c_ / (4 * area)
            try:
                circ = getattr(cox.shapes.Polygon(T), member)
                got_c, got_r = np.asarray(circ.center, float), float(circ.radius)
            except Exception as e:  # noqa: BLE001
                return True, {"vertices": T.tolist(), "member": member, "raised": f"{type(e).__name__}: {e}"[:200]}
            if np.abs(got_c - want_c).max() > 1e-9 * (1 + np.abs(T).max()) or abs(got_r - want_r) > 1e-9 * want_r:
                return True, {"vertices": T.tolist(), "member": member, "center": got_c.tolist(), "radius": got_r,
                              "closed_form_center": want_c.tolist(), "closed_form_radius": float(want_r)}
        return False, {}
    return replay


def run(chk):
    ld = chk.loader()
    shapes = ld.load("coxeter.shapes")
    chk.trusted += ["float64 arithmetic treated as exact real arithmetic",
                    "max / min over a symbolic number of elements are defined symbols: 'contains all, touches one' is their definition"]
    chk.run_parallel([("curved", lambda c: curved(c, shapes)), ("centred", lambda c: centred(c, shapes)),
                      ("lstsq", lambda c: lstsq_balls(c, shapes)),
                      ("miniball", lambda c: c.section("minimal_bounding_balls", "coxeter.shapes.polygon::Polygon.minimal_bounding_circle[get]",
                                                       lambda: minimal_balls(c, shapes)))])
    from .bounded_c13 import run_bounded
    run_bounded(chk)


def minimal_balls(chk, shapes):
    """minimal_bounding_circle / minimal_bounding_sphere delegate to miniball.get_bounding_ball (assumed contract: centre and
    squared radius of the smallest ball containing the rows it is given).  On the path where the solver succeeds at once
    the result must be exactly that ball of *all* the vertices: Circle / Sphere(sqrt(r2), centre).  (The retry path rotates
    the vertices by a random quaternion after a LinAlgError; it needs miniball to fail and is left to the bounded part.)"""
    from pyvc import externals as ext
    from pyvc.symarr import SymArr
    mb = [sp.Symbol(f"mb{j}", real=True) for j in range(3)]
    r2 = sp.Symbol("mb_r2", positive=True)
    for cls_name, member, state in (("Polygon", "minimal_bounding_circle", "polygon"),
                                    ("Polyhedron", "minimal_bounding_sphere", "polyhedron")):
        klass = getattr(shapes, cls_name)
        owner = next(k for k in klass.__mro__ if member in k.__dict__)
        fkey = chk.function(owner.__module__, f"{owner.__name__}.{member}[get]")
        calls = []

        def hook(v, calls=calls):
            calls.append(v)
            return np.array([Sym(x) for x in mb], dtype=object), Sym(r2)

        def is_identity(q):
            try:
                return [float(to_expr(x)) for x in np.asarray(q, dtype=object).reshape(-1)] == [1.0, 0.0, 0.0, 0.0]
            except (TypeError, ValueError):
                return False

        def rotate(q, v):
            if is_identity(q):
                return v
            raise paths.OutOfReach("rotation by a non-identity quaternion (retry path of the miniball loop)")

        def conj(q):
            if is_identity(q):
                return q
            raise paths.OutOfReach("conjugate of a non-identity quaternion")

        def run():
            calls.clear()
            ext.HOOKS["miniball.get_bounding_ball"] = hook
            ext.HOOKS["rowan.rotate"] = rotate
            ext.HOOKS["rowan.conjugate"] = conj
            if state == "polygon":
                o = object.__new__(klass)
                o._vertices = make("Vm", (M.NV, 3))
                o._normal = np.array([Sym(sp.Symbol(f"nm{j}", real=True)) for j in range(3)], dtype=object)
            else:
                o = H.polyhedron(shapes)
            verts = o._vertices
            # modular: the other ball getters are known here only as "some ball" (their own contracts are proved elsewhere)
            others = {}
            for k in type(o).__mro__:
                for nm, v in k.__dict__.items():
                    if isinstance(v, property) and nm != member and nm not in others and \
                            any(s in nm for s in ("circumcircle", "incircle", "circumsphere", "insphere", "bounded_", "centered_bounding")) \
                            and not nm.endswith("_radius"):
                        others[nm] = property(lambda self, nm=nm: _OpaqueBall(nm))
            o.__class__ = type(type(o).__name__, (type(o),), others)
            try:
                ball = getattr(o, member)
            except RuntimeError as e:
                return "RuntimeError", str(e), None, None, None
            return "ok", type(ball).__name__, ball.radius, ball.centroid, (list(calls), verts)
        dim = M.NV if state == "polygon" else None
        for p in chk.explore(fkey, run, assumptions=(M.NV.facts() if state == "polygon" else H.facts() if hasattr(H, "facts") else [])):
            if p.kind != "return":
                continue
            t = path_tag(p)
            kind, tname, rad, cen, extra = p.value
            tag = f"{cls_name}.{member}"
            if kind != "ok":
                chk.record(f"{tag}:returns_a_ball[{t}]", fkey, "refuted", "path-enumeration", detail=str(tname)[:120], model={},
                           replay=_replay_min_ball(cls_name, member), goal="the first-attempt path returns a ball")
                continue
            got_calls, verts = extra
            same = len(got_calls) == 1 and (got_calls[0] is verts or (isinstance(got_calls[0], SymArr) and isinstance(verts, SymArr)
                                                                      and got_calls[0].axes == verts.axes
                                                                      and all(to_expr(a) == to_expr(b) for a, b in
                                                                              zip(got_calls[0].inner.reshape(-1), verts.inner.reshape(-1)))))
            chk.record(f"{tag}:is_the_miniball_of_all_vertices[{t}]", fkey, "proved" if same else "refuted", "call-trace",
                       detail=f"{len(got_calls)} calls of miniball.get_bounding_ball", model={}, replay=_replay_min_ball(cls_name, member),
                       goal="miniball.get_bounding_ball is called once, with the shape's vertex array", abstracted=True)
            chk.record(f"{tag}:returns_{'Circle' if state == 'polygon' else 'Sphere'}[{t}]", fkey,
                       "proved" if tname in ("Circle" if state == "polygon" else "Sphere", "_OpaqueBall") else "refuted", "type",
                       detail=tname, model={})
            chk.prove(f"{tag}:radius_is_sqrt_of_miniball_r2[{t}]", fkey, p.pc, sp.Eq(ex(rad)**2, r2), replay=_replay_min_ball(cls_name, member),
                      abstracted=True)
            chk.prove(f"{tag}:centre_is_miniball_centre[{t}]", fkey, p.pc, sp.And(*[sp.Eq(ex(cen[j]), mb[j]) for j in range(3)]),
                      replay=_replay_min_ball(cls_name, member), abstracted=True)


class _OpaqueBall:
    """result of another ball getter: a ball about which nothing but its own contract is known"""

    def __init__(self, name):
        self.radius = Sym(sp.Symbol(f"{name}_r", positive=True))
        self.centroid = np.array([Sym(sp.Symbol(f"{name}_c{j}", real=True)) for j in range(3)], dtype=object)
        self.center = self.centroid


def _replay_min_ball(cls_name, member):
    def replay(model):
        from .bounded_c13 import _brute_min_ball
        from .common import real_coxeter
        cox = real_coxeter()
        if cls_name == "Polygon":
            cases = [np.array([[0.0, 0, 0], [4, 0, 0], [1, 0.5, 0]]), np.array([[0.0, 0, 1], [4, 0, 1], [3.5, 1, 1], [0.2, 0.8, 1]]),
                     np.array([[0.0, 0, 0], [1, 0, 0], [0.2, 0.9, 0]])]
            build = [lambda P: cox.shapes.Polygon(P), lambda P: cox.shapes.ConvexPolygon(P)]
        else:
            cases = [np.array([[0.0, 0, 0], [4, 0, 0], [1, 0.5, 0], [2, 0.2, 0.4]]), np.array([[0.0, 0, 0], [1, 0, 0], [0, 1, 0], [0, 0, 1]])]
            build = [lambda P: cox.shapes.ConvexPolyhedron(P)]
        for P in cases:
            best = _brute_min_ball(P)
            for b in build:
                try:
                    ball = getattr(b(P), member)
                except Exception as e:  # noqa: BLE001
                    return True, {"points": P.tolist(), "member": member, "raised": f"{type(e).__name__}: {e}"[:160]}
                r, c = float(ball.radius), np.asarray(ball.centroid, float)
                far = float(np.linalg.norm(P - c, axis=1).max())
                if abs(r - best) > 1e-7 * best or far > r * (1 + 1e-9):
                    return True, {"points": P.tolist(), "member": member, "radius": r, "smallest_enclosing_radius": best,
                                  "farthest_vertex": far}
        return False, {}
    return replay
