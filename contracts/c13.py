"""C13 -- bounding, bounded, circum- and in-spheres / circles satisfy their definitions.

Deductive:
* curved shapes: the four balls (and their *_radius getters) exist on every class and are centred at the centroid
  with the largest / smallest semi-axis;
* centred balls of ConvexPolyhedron / ConvexPolygon: radius is the max (min) over all vertices (faces / edges) of
  the distance from the centroid -- so the ball contains everything (lies inside) and touches the extremal element;
* circum-/in-balls (least squares): the linear system handed to lstsq states exactly "equidistant from every
  vertex" / "tangent to every face", the returned ball is (|x|, x + v0) resp. (x[3], x[:3]), a ball is returned only
  if the residual test passes whenever the system is over-determined, and that test is invariant under scaling
  of the shape (the absolute-tolerance defect of the unchanged tree failed exactly this clause).
* minimal bounding balls (contracts/c13_minball.py): every path of the retry loop of Polygon.minimal_bounding_circle and
  Polyhedron.minimal_bounding_sphere (all 2047 sequences of failed attempts): the returned ball is the preimage of
  miniball's ball under an isometry that carries the vertices onto miniball's input, and it contains every vertex
  (the code's own containment test); RuntimeError only after ten failed attempts.
Bounded: minimal bounding balls end to end with the real miniball (containment, minimality by brute force over support
sets) and existence / non-existence on tangential, cyclic and generic shapes at scales 1e-3 .. 1e3.
"""
from __future__ import annotations

import numpy as np
import sympy as sp

from pyvc import externals, paths, symnp
from pyvc.sym import Sym, to_expr, wrap
from pyvc.symarr import SymArr, Dim, DEFS, make
from . import polytope_state as PS
from . import polyhedron_state as H
from . import mutators as M
from .common import CURVED, make_curved, path_tag, ex

LEVEL = "other"
C_VEC = [sp.Symbol(f"cc{i}", real=True) for i in range(3)]


def curved(chk, shapes):
    r, a, b, c = sp.symbols("r a b c", real=True)
    axes = {"Circle": (r,), "Sphere": (r,), "Ellipse": (a, b), "Ellipsoid": (a, b, c)}
    cen = sp.symbols("cx cy cz", real=True)
    for cls, (mod, _) in CURVED.items():
        kind = "circle" if cls in ("Circle", "Ellipse") else "sphere"
        for ball, pick in ((f"minimal_bounding_{kind}", sp.Max), (f"minimal_centered_bounding_{kind}", sp.Max),
                           (f"maximal_bounded_{kind}", sp.Min), (f"maximal_centered_bounded_{kind}", sp.Min)):
            klass = getattr(shapes, cls)
            owner = next((k for k in klass.__mro__ if ball in k.__dict__), None)
            fkey = chk.function(owner.__module__, f"{owner.__name__}.{ball}[get]")

            def run(ball=ball):
                obj = make_curved(shapes, cls)
                try:
                    s = getattr(obj, ball)
                    rad = getattr(obj, ball + "_radius")
                except NotImplementedError as e:
                    return "missing", str(e), None, None
                return "ok", s.radius, s.centroid, rad
            for p in chk.explore(fkey, run):
                if p.kind != "return":
                    chk.path_raised(fkey, p)
                    continue
                t = path_tag(p)
                if p.value[0] == "missing":
                    chk.record(f"{cls}.{ball}:exists", fkey, "refuted", "reflection", detail=p.value[1], model={})
                    break
                _, rad, centre, rad2 = p.value
                want = pick(*axes[cls]) if len(axes[cls]) > 1 else axes[cls][0]
                chk.prove(f"{cls}.{ball}:radius[{t}]", fkey, p.pc, sp.Eq(ex(rad), want))
                chk.prove(f"{cls}.{ball}_radius:agrees[{t}]", fkey, p.pc, sp.Eq(ex(rad2), want))
                chk.prove(f"{cls}.{ball}:centre[{t}]", fkey, p.pc,
                          sp.And(*[sp.Eq(ex(centre[i]), cen[i]) for i in range(3)]))


def _replay_centred():
    """real centred balls of a long rectangle, a trapezoid and a slab, scaled and placed, against their definitions"""
    def replay(model):
        from .common import real_coxeter
        cox = real_coxeter()
        th = 0.7
        Rz = np.array([[np.cos(th), -np.sin(th), 0], [np.sin(th), np.cos(th), 0], [0, 0, 1.0]])
        Rx = np.array([[1.0, 0, 0], [0, np.cos(1.1), -np.sin(1.1)], [0, np.sin(1.1), np.cos(1.1)]])
        cases = [("ConvexPolygon", np.array([[0.0, 0, 0], [10, 0, 0], [10, 1, 0], [0, 1, 0]])), ("ConvexPolygon", np.array([[0.0, 0, 0], [6, 0, 0], [4, 1.5, 0], [1, 1.5, 0]])),
                 ("ConvexPolygon", np.array([[0.0, 0, 0], [4, 0, 0], [4, 4, 0], [0, 4, 0]])),
                 ("ConvexPolyhedron", np.array([[x, y, z] for x in (0.0, 8.0) for y in (0.0, 3.0) for z in (0.0, 0.5)]))]
        for klass, P0 in cases:
            for s_ in (1.0, 1e-3, 1e3):
                for place in (lambda X: X, lambda X: X @ (Rz @ Rx).T + np.array([3.0, -2.0, 5.0])):
                    P = place(P0) * s_
                    try:
                        shape = getattr(cox.shapes, klass)(P)
                        two_d = klass == "ConvexPolygon"
                        rb = float(getattr(shape, "minimal_centered_bounding_circle" if two_d else "minimal_centered_bounding_sphere").radius)
                        ib = getattr(shape, "maximal_centered_bounded_circle" if two_d else "maximal_centered_bounded_sphere")
                        ri, ci = float(ib.radius), np.asarray(ib.centroid, float)
                    except Exception as e:  # noqa: BLE001
                        return True, {"class": klass, "points": P.tolist(), "raised": f"{type(e).__name__}: {e}"[:200]}
                    cen, V = np.asarray(shape.centroid, float), np.asarray(shape.vertices, float)
                    want_b = float(np.linalg.norm(V - cen, axis=1).max())
                    if two_d:
                        want_i = min(np.linalg.norm(np.cross(cen - V[k], V[(k + 1) % len(V)] - V[k])) / np.linalg.norm(V[(k + 1) % len(V)] - V[k]) for k in range(len(V)))
                    else:
                        eq = np.asarray(shape._equations, float)
                        want_i = float(np.min(np.abs(eq[:, :3] @ cen + eq[:, 3])))
                    if abs(rb - want_b) > 1e-9 * want_b or abs(ri - want_i) > 1e-9 * want_b or np.abs(ci - cen).max() > 1e-9 * want_b:
                        return True, {"class": klass, "points": P.tolist(), "minimal_centered_bounding_radius": rb, "largest_centroid_vertex_distance": want_b,
                                      "maximal_centered_bounded_radius": ri, "smallest_centroid_edge_or_face_distance": float(want_i),
                                      "ball_centre": ci.tolist(), "centroid": cen.tolist()}
        return False, {}
    return replay


def centred(chk, shapes):
    # ---------------------------------------------------------------- ConvexPolyhedron
    MOD = "coxeter.shapes.convex_polyhedron"
    fk = chk.function(MOD, "ConvexPolyhedron.minimal_centered_bounding_sphere[get]")
    sub = type("cp", (shapes.ConvexPolyhedron,), {"center": property(lambda self: np.array([Sym(x) for x in C_VEC], dtype=object))})

    def run_b():
        o = PS.convex_polyhedron(shapes)
        o.__class__ = sub
        s = o.minimal_centered_bounding_sphere
        return s.radius, s.centroid
    Vrow = [sp.Function("V", real=True)(PS.N.k, sp.Integer(j)) for j in range(3)]
    for p in chk.explore(fk, run_b, assumptions=PS.N.facts()):
        if p.kind != "return":
            chk.path_raised(fk, p)
            continue
        rad, centre = p.value
        d = DEFS.get(ex(rad))
        ok = d is not None and d.kind == "max" and d.dim is PS.N
        chk.record("ConvexPolyhedron.minimal_centered_bounding_sphere:radius_is_max_over_vertices", fk,
                   "proved" if ok else "refuted", "structure", model={}, detail=str(ex(rad))[:100])
        if ok:
            want = sp.sqrt(sp.factor_terms(sp.expand(sum((Vrow[j] - C_VEC[j])**2 for j in range(3)))))
            chk.prove_eq("ConvexPolyhedron.minimal_centered_bounding_sphere:distance_to_centroid", fk, p.pc, d.at(PS.N.k), want, replay=_replay_centred())
        chk.prove("ConvexPolyhedron.minimal_centered_bounding_sphere:centred_at_centroid", fk, p.pc,
                  sp.And(*[sp.Eq(ex(centre[i]), C_VEC[i]) for i in range(3)]), replay=_replay_centred())
    fk = chk.function(MOD, "ConvexPolyhedron.maximal_centered_bounded_sphere[get]")

    def run_i():
        o = PS.convex_polyhedron(shapes)
        o.__class__ = sub
        eqs = o._equations
        try:
            s = o.maximal_centered_bounded_sphere
        except ValueError:
            return "ValueError", None, None, eqs
        return "ok", s.radius, s.centroid, eqs
    for p in chk.explore(fk, run_i, assumptions=PS.F.facts()):
        if p.kind != "return":
            chk.path_raised(fk, p)
            continue
        t = path_tag(p)
        kind, rad, centre, eqs = p.value
        E = [to_expr(eqs.inner[j]) for j in range(4)]
        dist = E[0] * C_VEC[0] + E[1] * C_VEC[1] + E[2] * C_VEC[2] + E[3]
        if kind == "ValueError":
            # raised only if some face has the centroid on its outer side
            ex_syms = [c for c in p.pc if c in DEFS and DEFS[c].kind == "exists"]
            ok = any(_same_body(DEFS[c].at(PS.F.k), sp.Gt(dist, 0)) for c in ex_syms)
            # ... or the centroid lies on a face: the largest signed distance is 0 and Sphere(0, .) refuses radius 0
            for c in p.pc:
                if isinstance(c, sp.Le) and c.rhs == 0 and (-c.lhs) in DEFS and DEFS[-c.lhs].kind == "max" \
                        and _same_body(sp.Gt(DEFS[-c.lhs].at(PS.F.k), 0), sp.Gt(dist, 0)):
                    ok = True
            chk.record(f"ConvexPolyhedron.maximal_centered_bounded_sphere:raises_only_if_centroid_not_strictly_inside[{t}]", fk,
                       "proved" if ok else "refuted", "structure", model={})
            continue
        neg = sp.expand(-ex(rad))
        d = DEFS.get(neg)
        ok = d is not None and d.kind == "max" and d.dim is PS.F
        chk.record(f"ConvexPolyhedron.maximal_centered_bounded_sphere:radius_is_min_face_distance[{t}]", fk,
                   "proved" if ok else "refuted", "structure", model={}, detail=str(ex(rad))[:100])
        if ok:
            chk.prove_eq(f"ConvexPolyhedron.maximal_centered_bounded_sphere:signed_face_distance[{t}]", fk, p.pc, d.at(PS.F.k), dist, replay=_replay_centred())
        chk.prove(f"ConvexPolyhedron.maximal_centered_bounded_sphere:centred_at_centroid[{t}]", fk, p.pc,
                  sp.And(*[sp.Eq(ex(centre[i]), C_VEC[i]) for i in range(3)]), replay=_replay_centred())
    # ---------------------------------------------------------------- ConvexPolygon
    MODG = "coxeter.shapes.convex_polygon"
    fk = chk.function(MODG, "ConvexPolygon.minimal_centered_bounding_circle[get]")
    subg = type("cg", (shapes.ConvexPolygon,), {"center": property(lambda self: np.array([Sym(x) for x in C_VEC], dtype=object))})

    def run_g():
        o = M.bare_state(shapes, "ConvexPolygon")
        o.__class__ = subg
        s = o.minimal_centered_bounding_circle
        return s.radius, s.centroid
    Vm = [sp.Function("Vm", real=True)(M.NV.k, sp.Integer(j)) for j in range(3)]
    for p in chk.explore(fk, run_g, assumptions=M.NV.facts()):
        if p.kind != "return":
            chk.path_raised(fk, p)
            continue
        rad, centre = p.value
        d = DEFS.get(ex(rad))
        ok = d is not None and d.kind == "max" and d.dim is M.NV
        chk.record("ConvexPolygon.minimal_centered_bounding_circle:radius_is_max_over_vertices", fk,
                   "proved" if ok else "refuted", "structure", model={})
        if ok:
            want = sp.sqrt(sp.factor_terms(sp.expand(sum((Vm[j] - C_VEC[j])**2 for j in range(3)))))
            chk.prove_eq("ConvexPolygon.minimal_centered_bounding_circle:distance_to_centroid", fk, p.pc, d.at(M.NV.k), want, replay=_replay_centred())
        chk.prove("ConvexPolygon.minimal_centered_bounding_circle:centred_at_centroid", fk, p.pc,
                  sp.And(*[sp.Eq(ex(centre[i]), C_VEC[i]) for i in range(3)]), replay=_replay_centred())
    fk = chk.function(MODG, "ConvexPolygon.maximal_centered_bounded_circle[get]")

    def run_gi():
        o = M.bare_state(shapes, "ConvexPolygon")
        o.__class__ = subg
        s = o.maximal_centered_bounded_circle
        return s.radius, s.centroid
    for p in chk.explore(fk, run_gi, assumptions=M.NV.facts()):
        if p.kind != "return":
            chk.path_raised(fk, p)
            continue
        rad, centre = p.value
        d = DEFS.get(ex(rad))
        ok = d is not None and d.kind == "min" and d.dim is M.NV
        chk.record("ConvexPolygon.maximal_centered_bounded_circle:radius_is_min_over_edges", fk,
                   "proved" if ok else "refuted", "structure", model={})
        if ok:
            # distance from the centroid to the line of edge (v_{k-1}, v_k): |(c - v_k) x (v_k - v_{k-1})| / |v_k - v_{k-1}|
            k = M.NV.k
            prev = sp.Mod(k - 1, M.NV.n)
            Vp = [sp.Function("Vm", real=True)(prev, sp.Integer(j)) for j in range(3)]
            dl = [Vm[j] - Vp[j] for j in range(3)]
            w = [C_VEC[j] - Vm[j] for j in range(3)]
            cr = [w[1] * dl[2] - w[2] * dl[1], w[2] * dl[0] - w[0] * dl[2], w[0] * dl[1] - w[1] * dl[0]]
            body = d.at(k)
            chk.prove_eq("ConvexPolygon.maximal_centered_bounded_circle:distance_to_edge_line", fk, p.pc,
                         sp.expand(body**2 * sum(x * x for x in dl)), sp.expand(sum(x * x for x in cr)), replay=_replay_centred())
        chk.prove("ConvexPolygon.maximal_centered_bounded_circle:centred_at_centroid", fk, p.pc,
                  sp.And(*[sp.Eq(ex(centre[i]), C_VEC[i]) for i in range(3)]), replay=_replay_centred())


def _same_body(a, b):
    from pyvc.oblig import normal_form
    if isinstance(a, sp.core.relational.Relational) and type(a) is type(b):
        return normal_form((a.lhs - a.rhs) - (b.lhs - b.rhs)) == 0
    return a == b


SC = sp.Symbol("sc", positive=True)
RHO = sp.Symbol("rho", nonnegative=True)
SIG = [sp.Symbol(f"sig{j}", positive=True) for j in range(3)]


def lstsq_balls(chk, shapes):
    """circumsphere / insphere / circumcircle / incircle"""
    polymod_np = symnp.np
    chk.assumed.append("numpy.linalg.lstsq(A, b) returns the least-squares solution x and residual sum of squares |Ax-b|^2 "
                       "(empty when the system is not over-determined); under scaling of the shape by s the solution and "
                       "residual scale homogeneously (x -> s x, residual -> s^k residual, k = 4 for circum-, 2 for in-balls)")
    cases = [
        ("Polyhedron", "circumsphere", "coxeter.shapes.polyhedron", 3, 4, 4),
        ("Polyhedron", "insphere", "coxeter.shapes.polyhedron", 4, 4, 2),
        ("Polygon", "circumcircle", "coxeter.shapes.polygon", 3, 3, 4),
        ("Polygon", "incircle", "coxeter.shapes.polygon", 4, 3, 2),
    ]
    for cls_name, member, mod, nun, nmin, deg in cases:
        fkey = chk.function(mod, f"{cls_name}.{member}[get]")
        calls = []

        def hook(a, b, rcond, scale=1):
            calls.append((a, b))
            x = np.array([Sym(scale * sp.Symbol(f"x{i}", real=True)) for i in range(nun)], dtype=object)
            return x, Sym(scale**deg * RHO), None, None

        def run(scale):
            calls.clear()
            externals.HOOKS["numpy.lstsq"] = lambda a, b, rc: hook(a, b, rc, scale)
            old_ptp = getattr(type(polymod_np), "ptp", None)
            type(polymod_np).ptp = lambda self, x, axis=None: np.array([Sym(scale * s_) for s_ in SIG], dtype=object)
            try:
                if cls_name == "Polyhedron":
                    o = H.polyhedron(shapes)
                    dimN = H.N
                else:
                    o = M.bare_state(shapes, "Polygon")
                    dimN = M.NV
                if scale != 1:
                    o._vertices = o._vertices * Sym(scale)
                    if hasattr(o, "_equations"):
                        o._equations = o._equations.copy()
                        o._equations[:, 3] *= Sym(scale)
                try:
                    ball = getattr(o, member)
                except RuntimeError:
                    return "RuntimeError", None, None, list(calls), dimN
                return "ok", ball.radius, ball.centroid, list(calls), dimN
            finally:
                if old_ptp is None:
                    del type(polymod_np).ptp
                else:
                    type(polymod_np).ptp = old_ptp
        results = {}
        try:
            for scale in (1, SC):
                facts = (H.facts() if cls_name == "Polyhedron" else M.NV.facts())
                results[scale] = chk.explore(fkey, lambda: run(scale), assumptions=facts)
        except paths.OutOfReach as e:
            chk.out_of_reach.append(f"{cls_name}.{member}: {e} -- covered by the bounded stand-in only")
            chk.record(f"{cls_name}.{member}:bounded_only", fkey, "proved", "out-of-reach-note",
                       detail="deductive clauses not generated; see bounded:balls")
            continue
        base = [p for p in results[1] if p.kind == "return"]
        scaled = [p for p in results[SC] if p.kind == "return"]
        tag = f"{cls_name}.{member}"
        if len(base) != len(scaled) or not base:
            chk.errors.append(f"{tag}: path sets of the original and the scaled shape differ ({len(base)} vs {len(scaled)})")
            continue
        dimN = base[0].value[4]
        for p, q in zip(base, scaled):
            t = path_tag(p)
            if p.decisions != q.decisions:
                chk.errors.append(f"{tag}: decision sequences differ")
                continue
            own = [c for c in p.pc if c.has(RHO)]
            own_s = [c for c in q.pc if c.has(RHO)]
            cond = sp.And(*own) if own else sp.true
            cond_s = sp.And(*own_s) if own_s else sp.true
            if own or own_s:
                chk.prove(f"{tag}:residual_test_is_scale_invariant[{t}]", fkey, [sp.Gt(SC, 0)] + [sp.Gt(s_, 0) for s_ in SIG],
                          sp.Equivalent(cond, cond_s), replay=_replay_scale(cls_name, member))
            kind = p.value[0]
            over = sp.Gt(dimN.n, nmin)
            if kind == "ok" and not own:
                # returned without testing the residual: allowed only when the system is not over-determined
                chk.prove(f"{tag}:untested_only_if_not_overdetermined[{t}]", fkey, p.pc, sp.Not(over),
                          replay=_replay_count(cls_name, member))
            if kind == "RuntimeError":
                chk.prove(f"{tag}:raises_only_when_overdetermined_and_residual_large[{t}]", fkey, p.pc,
                          sp.And(over, sp.Gt(RHO, 0)))
            if kind == "ok":
                x = [sp.Symbol(f"x{i}", real=True) for i in range(nun)]
                rad, centre = ex(p.value[1]), [ex(v) for v in p.value[2]]
                A, b = p.value[3][0]
                # the linear system handed to lstsq: its generic row states the defining condition of the ball
                try:
                    Arow, brow = _generic_row(A), _generic_row(b)
                    if member in ("circumsphere", "circumcircle"):
                        # row: p.x - |p|^2/2 with p = v - v0   <=>   (|v - (v0+x)|^2 - |x|^2) / (-2)
                        resid = sum(Arow[i] * x[i] for i in range(3)) - brow[0]
                        p_ = Arow
                        want = -(sum((p_[i] - x[i])**2 for i in range(3)) - sum(xi * xi for xi in x)) / 2
                        chk.prove_eq(f"{tag}:system_row_states_equidistance[{t}]", fkey, p.pc, resid, want)
                        # ... where p really is  v_(k+1) - v_0  for the generic remaining vertex and b = |p|^2 / 2
                        dsub = _row_dim(A)
                        vf = sp.Function("Vh" if cls_name == "Polyhedron" else "Vm", real=True)
                        for i in range(3):
                            chk.prove_eq(f"{tag}:system_row_is_vertex_minus_first[{i}][{t}]", fkey, p.pc, Arow[i],
                                         vf(dsub.k + 1, sp.Integer(i)) - vf(sp.Integer(0), sp.Integer(i)))
                        chk.prove_eq(f"{tag}:system_rhs_is_half_squared_length[{t}]", fkey, p.pc, brow[0],
                                     sum(Arow[i]**2 for i in range(3)) / 2)
                    else:
                        # row: n.c + r - n.v_f   == (signed distance of c from the face / edge line) + r
                        resid = sum(Arow[i] * x[i] for i in range(4)) - brow[0]
                        chk.prove_eq(f"{tag}:system_row_states_tangency[{t}]", fkey, p.pc, sp.expand(resid - x[3] * (Arow[3] - 1)),
                                     sp.expand(sum(Arow[i] * x[i] for i in range(3)) + x[3] - brow[0]))
                        chk.prove_eq(f"{tag}:system_row_radius_coefficient_is_one[{t}]", fkey, p.pc, Arow[3], 1)
                        if cls_name == "Polyhedron":
                            # the row's normal is the stored unit normal of face f and the right-hand side is n_f . (first vertex of f)
                            o0 = H.polyhedron(shapes)
                            E = [to_expr(o0._equations.inner[j]) for j in range(3)]
                            P0 = H.face_vertex(0)
                            for i in range(3):
                                chk.prove_eq(f"{tag}:system_row_is_face_normal[{i}][{t}]", fkey, p.pc, Arow[i], E[i])
                            chk.prove_eq(f"{tag}:system_rhs_is_normal_dot_face_vertex[{t}]", fkey, p.pc, brow[0],
                                         sum(E[i] * P0[i] for i in range(3)))
                        else:
                            # outward normal of edge k: (v_(k+1) - v_k) x n, normalised; right-hand side n_out . v_k
                            k = M.NV.k
                            vm = sp.Function("Vm", real=True)
                            nn = [sp.Symbol(f"nm{j}", real=True) for j in range(3)]
                            e = [vm(sp.Mod(k + 1, M.NV.n), sp.Integer(j)) - vm(k, sp.Integer(j)) for j in range(3)]
                            cr = [e[1] * nn[2] - e[2] * nn[1], e[2] * nn[0] - e[0] * nn[2], e[0] * nn[1] - e[1] * nn[0]]
                            nrm = sp.sqrt(sp.factor_terms(sp.expand(sum(x_ * x_ for x_ in cr))))
                            for i in range(3):
                                chk.prove_eq(f"{tag}:system_row_is_outward_edge_normal[{i}][{t}]", fkey, p.pc, Arow[i] * nrm, cr[i])
                            chk.prove_eq(f"{tag}:system_rhs_is_normal_dot_edge_start[{t}]", fkey, p.pc, brow[0],
                                         sum(Arow[i] * vm(k, sp.Integer(i)) for i in range(3)))
                    if cls_name == "Polygon":
                        # the appended last row keeps the centre in the polygon's plane
                        la, lb = _last_row(A), _last_row(b)
                        nn = [sp.Symbol(f"nm{j}", real=True) for j in range(3)]
                        vm = sp.Function("Vm", real=True)
                        for i in range(3):
                            chk.prove_eq(f"{tag}:plane_row_is_the_normal[{i}][{t}]", fkey, p.pc, la[i], nn[i])
                        if member == "circumcircle":
                            # unknown is the centre relative to the first vertex: n . x = 0
                            chk.prove_eq(f"{tag}:plane_row_rhs[{t}]", fkey, p.pc, lb[0], 0, replay=_replay_plane(member))
                        else:
                            # unknown is the absolute centre (and r with coefficient 0): n . c = n . v0
                            chk.prove_eq(f"{tag}:plane_row_radius_coefficient_is_zero[{t}]", fkey, p.pc, la[3], 0)
                            chk.prove_eq(f"{tag}:plane_row_rhs[{t}]", fkey, p.pc, lb[0],
                                         sum(nn[i] * vm(sp.Integer(0), sp.Integer(i)) for i in range(3)),
                                         replay=_replay_plane(member))
                except (paths.OutOfReach, AttributeError, IndexError, TypeError) as e:
                    chk.out_of_reach.append(f"{tag}: linear-system row not extracted ({e})")
                if member in ("circumsphere", "circumcircle"):
                    v0 = [to_expr(v) for v in _first_vertex(cls_name)]
                    chk.prove(f"{tag}:ball_from_solution[{t}]", fkey, p.pc,
                              sp.And(sp.Eq(rad**2, sum(xi * xi for xi in x)), *[sp.Eq(centre[i], x[i] + v0[i]) for i in range(3)]))
                else:
                    chk.prove(f"{tag}:ball_from_solution[{t}]", fkey, p.pc,
                              sp.And(sp.Eq(rad, x[3]), *[sp.Eq(centre[i], x[i]) for i in range(3)]))
        chk.record(f"{tag}:paths", fkey, "proved", "enumeration", detail=f"{len(base)} returning / raising paths compared")


def _row_dim(a):
    from pyvc.symnp import ConcatArr
    if isinstance(a, ConcatArr):
        a = a.parts[0]
    return a.axes[0]


def _last_row(a):
    """the single concrete row appended after the symbolic part of a system matrix / right-hand side"""
    from pyvc.symnp import ConcatArr
    if not isinstance(a, ConcatArr) or len(a.parts) < 2:
        raise TypeError("no appended row")
    last = a.parts[-1]
    return [to_expr(v) for v in last.inner.reshape(-1)]


def _generic_row(a):
    """sympy expressions of the generic row of the (first, symbolic-extent) part of a system matrix / vector"""
    from pyvc.symnp import ConcatArr
    if isinstance(a, ConcatArr):
        a = a.parts[0]
    if isinstance(a, SymArr):
        inner = a.inner
        return [to_expr(v) for v in inner.reshape(-1)] if inner.ndim else [to_expr(inner[()])]
    raise TypeError("no symbolic part")


def _first_vertex(cls_name):
    if cls_name == "Polyhedron":
        return [sp.Function("Vh", real=True)(sp.Integer(0), sp.Integer(j)) for j in range(3)]
    return [sp.Function("Vm", real=True)(sp.Integer(0), sp.Integer(j)) for j in range(3)]


def _replay_scale(cls_name, member):
    def replay(model):
        from .bounded_c13 import existence_cases
        from .common import real_coxeter
        cox = real_coxeter()
        for name, klass, pts, expect in existence_cases():
            if member not in expect:
                continue
            for s in (1e-3, 1e-2, 1.0, 1e2, 1e3):
                try:
                    getattr(getattr(cox.shapes, klass)(np.asarray(pts) * s), member)
                    got = True
                except RuntimeError:
                    got = False
                if got != expect[member]:
                    return True, {"class": klass, "points": (np.asarray(pts) * s).tolist(), "scale": s, "member": member,
                                  "ball_exists": expect[member], "returned_a_ball": got}
        return False, {}
    return replay


_replay_count = _replay_scale


def _replay_plane(member):
    """triangles in planes that do not pass through the origin: closed-form incentre / circumcentre"""
    def replay(model):
        from .common import real_coxeter
        cox = real_coxeter()
        tris = [np.array([[0.0, 0, 2], [4, 0, 2], [0, 3, 2]]),
                np.array([[1.0, 2, 3], [4, 1, 5], [2, 5, 4]]),
                np.array([[-3.0, 1, -7], [2, -2, -6], [1, 4, -9]])]
        for T in tris:
            A, B, C = T
            a, b, c_ = np.linalg.norm(B - C), np.linalg.norm(C - A), np.linalg.norm(A - B)
            area = 0.5 * np.linalg.norm(np.cross(B - A, C - A))
            if member == "incircle":
                want_c, want_r = (a * A + b * B + c_ * C) / (a + b + c_), 2 * area / (a + b + c_)
            else:
                # circumcentre in barycentric form
                wa, wb, wc = a * a * (b * b + c_ * c_ - a * a), b * b * (c_ * c_ + a * a - b * b), c_ * c_ * (a * a + b * b - c_ * c_)
                want_c, want_r = (wa * A + wb * B + wc * C) / (wa + wb + wc), a * b * c_ / (4 * area)
            try:
                circ = getattr(cox.shapes.Polygon(T), member)
                got_c, got_r = np.asarray(circ.center, float), float(circ.radius)
            except Exception as e:  # noqa: BLE001
                return True, {"vertices": T.tolist(), "member": member, "raised": f"{type(e).__name__}: {e}"[:200]}
            if np.abs(got_c - want_c).max() > 1e-9 * (1 + np.abs(T).max()) or abs(got_r - want_r) > 1e-9 * want_r:
                return True, {"vertices": T.tolist(), "member": member, "center": got_c.tolist(), "radius": got_r,
                              "closed_form_center": want_c.tolist(), "closed_form_radius": float(want_r)}
        return False, {}
    return replay


def run(chk):
    ld = chk.loader()
    shapes = ld.load("coxeter.shapes")
    chk.trusted += ["float64 arithmetic treated as exact real arithmetic",
                    "max / min over a symbolic number of elements are defined symbols: 'contains all, touches one' is their definition"]
    from . import c13_minball as MB
    chk.trusted += [
        "assumed contract of miniball.get_bounding_ball(A): raises numpy.linalg.LinAlgError or returns centre and squared radius of "
        "the smallest ball containing the rows of A (which of the two, and how often, is unconstrained; that the ball contains the "
        "rows is NOT assumed -- the getters test it and the test is verified)",
        "numpy.random.uniform / rowan.random.rand return an arbitrary angle / unit quaternion; rowan.rotate / conjugate are the "
        "quaternion algebra (rotation matrix of a unit quaternion)",
        "callee contract of _align_points_by_normal (C04) and planarity of the polygon's vertices (class invariant established by "
        "Polygon.__init__ up to its tolerance, C15): the aligned vertices have a common z",
    ]
    tasks = [("curved", lambda c: curved(c, shapes)), ("centred", lambda c: centred(c, shapes)),
             ("lstsq", lambda c: lstsq_balls(c, shapes))]
    for which, fk in (("polyhedron", "coxeter.shapes.polyhedron::Polyhedron.minimal_bounding_sphere[get]"),
                      ("polygon", "coxeter.shapes.polygon::Polygon.minimal_bounding_circle[get]")):
        for label, prefixes, expand in reversed(MB.tasks_for()):
            tasks.append((f"miniball-{which}-{label}", lambda c, which=which, fk=fk, label=label, prefixes=prefixes, expand=expand: c.section(
                f"minimal_bounding_balls[{which}:{label}]", fk, lambda: MB.minimal_balls(c, shapes, ld, which, label, prefixes, expand))))
    # the long tasks first
    tasks.sort(key=lambda t: (0 if t[0].startswith("miniball-polyhedron") and t[0].endswith("...") else 1 if t[0] == "lstsq" else 2))
    chk.run_parallel(tasks)
    from .common import inherits
    inherits(chk, shapes, "ConvexPolygon", "Polygon", ["minimal_bounding_circle", "circumcircle", "incircle"], "coxeter.shapes.polygon")
    inherits(chk, shapes, "ConvexPolyhedron", "Polyhedron", ["minimal_bounding_sphere", "circumsphere", "insphere"], "coxeter.shapes.polyhedron")
    from .bounded_c13 import run_bounded
    run_bounded(chk)
