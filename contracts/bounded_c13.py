"""Bounded stand-in for C13: miniball-based minimal bounding balls, and existence / non-existence of circum- and
in-balls on cyclic / tangential / generic shapes at several scales and placements."""
from __future__ import annotations

import itertools
import math

import numpy as np

from bounded import corpus, oracle
from .common import real_coxeter


def existence_cases():
    """(name, class, points, {member: exists?})"""
    cube = [[x, y, z] for x in (0.0, 1) for y in (0.0, 1) for z in (0.0, 1)]
    box = [[x, y, z] for x in (0.0, 1) for y in (0.0, 2) for z in (0.0, 3)]
    irr = [[0.0, 0, 0], [3, 0, 0], [1, 2, 0], [0.5, 0.5, 1.5], [2, 1, -1]]
    octa = [[1.0, 0, 0], [-1, 0, 0], [0, 1, 0], [0, -1, 0], [0, 0, 1], [0, 0, -1]]
    tet = [[0.0, 0, 0], [1, 0, 0], [0, 1, 0], [0, 0, 1]]
    sq = [[0.0, 0, 0], [1, 0, 0], [1, 1, 0], [0, 1, 0]]
    rect = [[0.0, 0, 0], [3, 0, 0], [3, 1, 0], [0, 1, 0]]
    kite = [[0.0, 0, 0], [1, -1, 0], [3, 0, 0], [1, 1, 0]]           # tangential, not cyclic
    quad = [[0.0, 0, 0], [3, 0, 0], [3, 1, 0], [0, 2, 0]]            # neither
    tri = [[0.0, 0, 0], [4, 0, 0], [1, 3, 0]]
    return [
        ("cube", "ConvexPolyhedron", cube, {"circumsphere": True, "insphere": True}),
        ("box", "ConvexPolyhedron", box, {"circumsphere": True, "insphere": False}),
        ("irregular5", "ConvexPolyhedron", irr, {"circumsphere": False, "insphere": False}),
        ("octahedron", "ConvexPolyhedron", octa, {"circumsphere": True, "insphere": True}),
        ("tetrahedron", "ConvexPolyhedron", tet, {"circumsphere": True, "insphere": True}),
        ("square", "ConvexPolygon", sq, {"circumcircle": True, "incircle": True}),
        ("rectangle", "ConvexPolygon", rect, {"circumcircle": True, "incircle": False}),
        ("kite", "ConvexPolygon", kite, {"circumcircle": False, "incircle": True}),
        ("quad", "ConvexPolygon", quad, {"circumcircle": False, "incircle": False}),
        ("triangle", "ConvexPolygon", tri, {"circumcircle": True, "incircle": True}),
    ]


def run_bounded(chk):
    cox = real_coxeter()
    fkey = "minimal_bounding_* (miniball), circum-/in-balls end-to-end"
    chk.functions.setdefault(fkey, {"sha": "-", "paths": 0, "lines": 0, "bounded_only": True})
    fails = []
    n_eval = 0
    for name, klass, pts, expect in existence_cases():
        for s in (1e-3, 1e-2, 1.0, 1e2, 1e3):
            for pname, R, t in corpus.placements():
                P = np.asarray(corpus.place(pts, R, [x * s for x in t])) if True else None
                P = (np.asarray(pts) @ np.array([[float(x) for x in row] for row in R]).T) * s + np.asarray(t, float) * s
                shape = getattr(cox.shapes, klass)(P)
                for member, exists in expect.items():
                    n_eval += 1
                    try:
                        ball = getattr(shape, member)
                        got = True
                    except RuntimeError:
                        got = False
                    if got != exists:
                        fails.append((f"{name}/{member}/s={s:g}/{pname}", {"class": klass, "points": P.tolist(), "member": member,
                                                                           "ball_exists": exists, "returned_a_ball": got}))
                        continue
                    if not got:
                        continue
                    c, r = np.asarray(ball.centroid, float), float(ball.radius)
                    if member.startswith("circum"):
                        d = np.linalg.norm(P - c, axis=1)
                        if np.max(np.abs(d - r)) > 1e-7 * s:
                            fails.append((f"{name}/{member}/s={s:g}/{pname}", {"points": P.tolist(), "centre": c.tolist(), "radius": r,
                                                                               "vertex_distances": d.tolist()}))
                    else:
                        core = shape
                        if klass == "ConvexPolygon":
                            n = np.asarray(shape.normal, float)
                            off = abs(float(np.dot(n, c - P[0])))
                            dists = []
                            for k in range(len(P)):
                                e = P[(k + 1) % len(P)] - P[k]
                                dists.append(np.linalg.norm(np.cross(c - P[k], e)) / np.linalg.norm(e))
                            if off > 1e-7 * s or max(abs(d - r) for d in dists) > 1e-7 * s:
                                fails.append((f"{name}/{member}/s={s:g}/{pname}", {"points": P.tolist(), "centre": c.tolist(), "radius": r,
                                                                                   "distance_of_centre_from_plane": off,
                                                                                   "edge_line_distances": [float(d) for d in dists]}))
                        if klass == "ConvexPolyhedron":
                            dist = np.asarray(core._equations[:, :3] @ c + core._equations[:, 3])
                            if np.max(np.abs(dist + r)) > 1e-7 * s:
                                fails.append((f"{name}/{member}/s={s:g}/{pname}", {"points": P.tolist(), "centre": c.tolist(), "radius": r,
                                                                                   "signed_face_distances": dist.tolist()}))
    # minimal bounding balls: contain all vertices, and no smaller ball does (support set check)
    named = dict(corpus.named_convex())
    obtuse = {"obtuse_tet": [[0.0, 0, 0], [4, 0, 0], [1, 0.5, 0], [2, 0.2, 0.4]], "sliver_tet": [[0.0, 0, 0], [6, 0, 0], [3, 0.5, 0], [3, 0.2, 0.3]]}
    named.update(obtuse)
    for name in list(named)[:6 if chk.bounded_tier == "quick" else len(named) - 2] + list(obtuse):
        P = np.asarray(named[name]) + np.array([5.0, -3.0, 2.0])
        shape = cox.shapes.ConvexPolyhedron(P)
        n_eval += 1
        b = shape.minimal_bounding_sphere
        c, r = np.asarray(b.centroid, float), float(b.radius)
        d = np.linalg.norm(P - c, axis=1)
        if d.max() > r * (1 + 1e-9):
            fails.append((f"{name}/minimal_bounding_sphere", {"points": P.tolist(), "centre": c.tolist(), "radius": r, "farthest": float(d.max())}))
        best = _brute_min_ball(P)
        if abs(best - r) > 1e-6 * r:
            fails.append((f"{name}/minimal_bounding_sphere:minimal", {"points": P.tolist(), "radius": r, "smallest_enclosing_radius": best}))
        cb = shape.minimal_centered_bounding_sphere
        cen = np.asarray(shape.centroid, float)
        if abs(float(cb.radius) - np.linalg.norm(P - cen, axis=1).max()) > 1e-9 * r or np.abs(np.asarray(cb.centroid) - cen).max() > 1e-9 * r:
            fails.append((f"{name}/minimal_centered_bounding_sphere", {"points": P.tolist(), "radius": float(cb.radius)}))
    extra2d = {"obtuse_triangle": [(0, 0), (4, 0), (1, 0.5)], "right_triangle": [(0, 0), (3, 0), (0, 4)],
               "sliver_quad": [(0, 0), (5, 0), (4, 0.6), (0.5, 0.4)], "flat_pentagon": [(0, 0), (6, 0), (5, 0.5), (3, 0.8), (1, 0.5)]}
    pols = dict(corpus.polygons_2d())
    pols.update(extra2d)
    for pname, klass in [(n, k) for n in ("triangle", "rect", "quad_irregular", "pentagon_irregular", "regular7", *extra2d)
                         for k in ("ConvexPolygon", "Polygon")]:
        P2 = pols[pname]
        P = np.array([[float(x) + 2, float(y) - 1, 0.0] for x, y in P2])
        if klass == "Polygon":
            P = P + np.array([0.0, 0.0, 1.5])          # a plane off the origin as well
        shape = getattr(cox.shapes, klass)(P)
        pname = f"{klass}:{pname}"
        n_eval += 1
        b = shape.minimal_bounding_circle
        c, r = np.asarray(b.centroid, float), float(b.radius)
        d = np.linalg.norm(P - c, axis=1)
        best = _brute_min_ball(P)
        if d.max() > r * (1 + 1e-9) or abs(best - r) > 1e-6 * r:
            fails.append((f"{pname}/minimal_bounding_circle", {"points": P.tolist(), "centre": c.tolist(), "radius": r,
                                                               "farthest": float(d.max()), "smallest_enclosing_radius": best}))
    # centred balls of convex polygons and polyhedra against their definitions, at every scale and placement (long edges, far placements):
    # bounding radius = largest centroid-vertex distance, bounded radius = smallest distance from the centroid to an edge line / face plane
    for name, klass, pts, _ in existence_cases() + [("long_rect", "ConvexPolygon", np.array([[0.0, 0, 0], [10, 0, 0], [10, 1, 0], [0, 1, 0]]), {}),
                                                    ("trapezoid", "ConvexPolygon", np.array([[0.0, 0, 0], [6, 0, 0], [4, 1.5, 0], [1, 1.5, 0]]), {}),
                                                    ("slab", "ConvexPolyhedron", np.array([[x, y, z] for x in (0.0, 8.0) for y in (0.0, 3.0) for z in (0.0, 0.5)]), {})]:
        for s_ in (1e-3, 1.0, 1e3):
            for pname, R, t in corpus.placements():
                P = (np.asarray(pts, float) @ np.array([[float(x) for x in row] for row in R]).T) * s_ + np.asarray(t, float) * s_
                try:
                    shape = getattr(cox.shapes, klass)(P)
                except Exception:  # noqa: BLE001
                    continue
                n_eval += 1
                cen = np.asarray(shape.centroid, float)
                V = np.asarray(shape.vertices, float)
                two_d = klass == "ConvexPolygon"
                try:
                    rb = float(getattr(shape, "minimal_centered_bounding_circle" if two_d else "minimal_centered_bounding_sphere").radius)
                    ri_ball = getattr(shape, "maximal_centered_bounded_circle" if two_d else "maximal_centered_bounded_sphere")
                    ri, ci = float(ri_ball.radius), np.asarray(ri_ball.centroid, float)
                except Exception as e:  # noqa: BLE001
                    fails.append((f"{name}/centred_balls/s={s_:g}/{pname}", {"class": klass, "points": P.tolist(), "raised": f"{type(e).__name__}: {e}"[:160]}))
                    continue
                want_b = float(np.linalg.norm(V - cen, axis=1).max())
                if two_d:
                    want_i = min(np.linalg.norm(np.cross(cen - V[k], V[(k + 1) % len(V)] - V[k])) / np.linalg.norm(V[(k + 1) % len(V)] - V[k]) for k in range(len(V)))
                else:
                    eq = np.asarray(shape._equations, float)
                    want_i = float(np.min(np.abs(eq[:, :3] @ cen + eq[:, 3])))
                if abs(rb - want_b) > 1e-9 * want_b or abs(ri - want_i) > 1e-9 * want_b or np.abs(ci - cen).max() > 1e-9 * want_b:
                    fails.append((f"{name}/centred_balls/s={s_:g}/{pname}", {"class": klass, "points": P.tolist(), "minimal_centered_bounding_radius": rb,
                                                                               "largest_centroid_vertex_distance": want_b, "maximal_centered_bounded_radius": ri,
                                                                               "smallest_centroid_edge_or_face_distance": float(want_i)}))
    # miniball is randomised (random pivots, random retry rotations): degenerate supports (cospherical and coplanar vertex
    # sets, rotated off the axes) are queried repeatedly.  The defects fixed in 93001f4 / f022c2d showed up in 1 - 50 % of the calls.
    reps = 25 if chk.bounded_tier == "quick" else 200
    th = 0.7
    Rz = np.array([[np.cos(th), -np.sin(th), 0], [np.sin(th), np.cos(th), 0], [0, 0, 1.0]])
    Rx = np.array([[1.0, 0, 0], [0, np.cos(1.1), -np.sin(1.1)], [0, np.sin(1.1), np.cos(1.1)]])
    Rt = Rz @ Rx
    gold = (1 + 5 ** 0.5) / 2
    dodeca = [[sx, sy, sz] for sx in (-1.0, 1) for sy in (-1.0, 1) for sz in (-1.0, 1)]
    for a, b in ((1 / gold, gold),):
        for s1 in (-1, 1):
            for s2 in (-1, 1):
                dodeca += [[0.0, s1 * a, s2 * b], [s1 * a, s2 * b, 0.0], [s1 * b, 0.0, s2 * a]]
    repeated = [("square_pyramid", "ConvexPolyhedron", np.array([[0.0, 0, 0], [2, 0, 0], [2, 2, 0], [0, 2, 0], [0.5, 0.75, 3]]), None),
                ("dodecahedron", "ConvexPolyhedron", np.array(dodeca), 3 ** 0.5)]
    for nsides in (24, 120):
        ang = np.linspace(0, 2 * np.pi, nsides, endpoint=False)
        repeated.append((f"regular{nsides}", "Polygon", np.c_[np.cos(ang), np.sin(ang), 0 * ang], 1.0))
    for name, klass, P0, rad in repeated:
        for sc in (1e-3, 1.0, 1e3):
            P = (P0 @ Rt.T + np.array([10.0, -20.0, 30.0])) * sc
            want = rad * sc if rad is not None else _brute_min_ball(P)
            member = "minimal_bounding_circle" if klass == "Polygon" else "minimal_bounding_sphere"
            bad = None
            for rep in range(reps):
                n_eval += 1
                try:
                    b = getattr(getattr(cox.shapes, klass)(P), member)
                except Exception as e:  # noqa: BLE001
                    bad = {"raised": f"{type(e).__name__}: {e}"[:160], "call": rep}
                    break
                c, r = np.asarray(b.centroid, float).reshape(-1), float(b.radius)
                far = float(np.linalg.norm(P - c, axis=1).max()) if c.shape == (3,) else float("inf")
                if abs(r - want) > 1e-7 * want or far > r * (1 + 1e-8):
                    bad = {"radius": r, "centre": c.tolist(), "smallest_enclosing_radius": want, "farthest_vertex": far, "call": rep}
                    break
            if bad:
                fails.append((f"{klass}:{name}/rotated+offset/s={sc:g}/{member}/repeated", {"points": P.tolist(), "member": member, **bad}))
    # the balls follow the shape: read every ball, move / resize / reorient the object through its public mutators, read again,
    # against a freshly constructed shape with the current vertices
    from . import stale

    def all_balls(shape):
        out = {}
        for b in ("minimal_bounding_sphere", "minimal_centered_bounding_sphere", "maximal_centered_bounded_sphere", "circumsphere", "insphere",
                  "minimal_bounding_circle", "minimal_centered_bounding_circle", "maximal_centered_bounded_circle", "circumcircle", "incircle"):
            if not hasattr(type(shape), b):
                continue
            try:
                ball = getattr(shape, b)
                out[b + ".radius"] = float(ball.radius)
                out[b + ".center"] = np.asarray(ball.centroid, float).reshape(-1)
            except (RuntimeError, NotImplementedError, AttributeError) as e:
                out[b] = f"raises {type(e).__name__}"
        return out
    box = np.array([[x, y, z] for x in (0.0, 1.0) for y in (0.0, 2.0) for z in (0.0, 3.0)])
    skew = box @ np.array([[0.8, -0.6, 0.0], [0.6, 0.8, 0.0], [0.0, 0.0, 1.0]]).T @ Rx.T + np.array([5.0, -3.0, 2.0])
    rect = np.array([[0.0, 0, 0], [3, 0, 0], [3, 1, 0], [0, 1, 0]]) @ Rx.T + np.array([2.0, 1.0, -1.0])
    hist = []
    cp = cox.shapes.ConvexPolyhedron(skew)
    subjects = [("ConvexPolyhedron:box", cp), ("Polyhedron:box", cox.shapes.Polyhedron(np.asarray(cp.vertices), [list(map(int, f)) for f in cp.faces])),
                ("ConvexPolygon:rect", cox.shapes.ConvexPolygon(rect)), ("Polygon:rect", cox.shapes.Polygon(rect))]
    for label, obj in subjects:
        n_eval += stale.read_mutate_read(obj, all_balls, f"history:{label}", hist, tol_size=1e-3)
    fails += hist
    for name, info in fails[:5]:
        chk.record(f"bounded:balls[{name}]", fkey, "bounded-fail", "definition-check", detail=str(info)[:500], model={}, kind="bounded",
                   replay=lambda m, info=info, name=name: (True, {"case": name, **info}))
    if not fails:
        chk.record("bounded:balls", fkey, "bounded-pass", "definition-check", kind="bounded", detail=f"{n_eval} evaluations")
    chk.bounded.append({"clause": "a circum-/in-ball is returned exactly when one exists and then touches every vertex / face; minimal bounding "
                                  "balls contain every vertex and equal the brute-force smallest enclosing ball; centred balls match their definition",
                        "bound": "10 cyclic/tangential/generic polyhedra and polygons x scales {1e-3,1e-2,1,1e2,1e3} x 4 placements; centred balls of these and of a long rectangle, a trapezoid and a slab at scales {1e-3,1,1e3}; "
                                 "6 (quick) named convex solids, 2 obtuse tetrahedra and 9 polygons (incl. obtuse / right triangles and slivers whose ball is spanned by 2 points; Polygon and ConvexPolygon) for the miniball clauses (brute force over support sets of 2-4 points); square pyramid, dodecahedron, regular 24- and 120-gon rotated off the axes at scales {1e-3,1,1e3}, each queried 25 (quick) / 200 times because miniball is randomised; 4 off-origin objects: all balls read, object moved / resized / reoriented, read again",
                        "evaluations": n_eval, "distinct_nontrivial": n_eval, "rule": "distinct = (shape, scale, placement, member)",
                        "samples": [{"shape": "box", "scale": 0.01, "member": "circumsphere", "exists": True}],
                        "failures": len(fails), "exhaustive": False})


def _brute_min_ball(P):
    """radius of the smallest enclosing ball by brute force over support sets of size 2..4 (small point sets)"""
    P = np.asarray(P, float)
    best = math.inf
    n = len(P)
    idx = range(n)

    def ok(c, r):
        return np.linalg.norm(P - c, axis=1).max() <= r * (1 + 1e-9)
    for k in (2, 3, 4):
        for S in itertools.combinations(idx, k):
            Q = P[list(S)]
            A = 2 * (Q[1:] - Q[0])
            b = np.sum(Q[1:]**2 - Q[0]**2, axis=1)
            # centre in the affine hull of the support set
            try:
                lam, *_ = np.linalg.lstsq(A @ (Q[1:] - Q[0]).T, b - A @ Q[0], rcond=None)
            except np.linalg.LinAlgError:
                continue
            c = Q[0] + (Q[1:] - Q[0]).T @ lam
            r = float(np.linalg.norm(Q[0] - c))
            if r < best and ok(c, r):
                best = r
    return best
