"""Bounded stand-in for C11: real rounded shapes against Steiner polynomials evaluated with independently
computed V, S, M (exact hull facets, exterior dihedral angles from exact facet normals)."""
from __future__ import annotations

import math

import numpy as np

from bounded import oracle, corpus
from .common import real_coxeter


def core_measures(pts):
    faces = oracle.hull_facets(pts)
    tris = oracle.fan_triangles(faces)
    vol, cen, _ = oracle.mesh_measures(pts, tris)
    area, _ = oracle.mesh_area(pts, faces)
    P = [np.array([float(c) for c in p]) for p in pts]
    normals = []
    for f in faces:
        n = np.zeros(3)
        for t in range(len(f)):
            n += np.cross(P[f[t]], P[f[(t + 1) % len(f)]])
        normals.append(n / np.linalg.norm(n))
    edges = {}
    for fi, f in enumerate(faces):
        for t in range(len(f)):
            e = frozenset((f[t], f[(t + 1) % len(f)]))
            edges.setdefault(e, []).append(fi)
    msum = 0.0
    for e, fs in edges.items():
        a, b = tuple(e)
        ext = math.acos(max(-1.0, min(1.0, float(np.dot(normals[fs[0]], normals[fs[1]])))))
        msum += float(np.linalg.norm(P[a] - P[b])) * ext
    return float(vol), area, msum / (8 * math.pi), len(edges), faces


def run_bounded(chk):
    cox = real_coxeter()
    fkey = "ConvexSpheropolyhedron / ConvexSpheropolygon / ConvexPolyhedron curvature members end-to-end"
    chk.functions.setdefault(fkey, {"sha": "-", "paths": 0, "lines": 0, "bounded_only": True})
    fails = []
    n_eval = 0
    named = corpus.named_convex()
    names = list(named)[:8 if chk.bounded_tier == "quick" else len(named)]
    for name in names:
        pts = named[name]
        if len(pts) > 12:
            continue
        V, S, Mc, nE, faces = core_measures(pts)
        off = [[x + 2.0, y - 1.0, z + 0.5] for x, y, z in pts]
        size = max(max(p) - min(p) for p in zip(*pts))
        core = cox.shapes.ConvexPolyhedron(off)
        n_eval += 1
        checks = [("mean_curvature", core.mean_curvature, Mc), ("tau", core.tau, 4 * math.pi * Mc**2 / S),
                  ("asphericity", core.asphericity, Mc * S / (3 * V)), ("iq", core.iq, 36 * math.pi * V**2 / S**3),
                  ("num_edges", core.num_edges, nE)]
        for r in (0.0, 1e-3 * size, 0.3 * size, 100 * size):
            sp_ = cox.shapes.ConvexSpheropolyhedron(off, r)
            n_eval += 1
            checks += [(f"volume(r={r:.3g})", sp_.volume, V + S * r + 4 * math.pi * Mc * r**2 + 4 / 3 * math.pi * r**3),
                       (f"surface_area(r={r:.3g})", sp_.surface_area, S + 8 * math.pi * Mc * r + 4 * math.pi * r**2),
                       (f"mean_curvature(r={r:.3g})", sp_.mean_curvature, Mc + r)]
        # the same object after reads and public resizes: every getter is Steiner's polynomial of the *current* core and radius
        r = 0.3 * size
        sp_ = cox.shapes.ConvexSpheropolyhedron(off, r)
        _ = (sp_.volume, sp_.surface_area, sp_.mean_curvature)
        sc_tot = 1.0
        for step, target in (("volume", 2.5 * sp_.volume), ("surface_area", 0.3 * sp_.surface_area), ("mean_curvature", 1.7 * sp_.mean_curvature)):
            n_eval += 1
            setattr(sp_, step, target)
            k = float(sp_.radius) / r                       # the public radius tells the accumulated scale
            Vk, Sk, Mk, rk = V * k**3, S * k**2, Mc * k, r * k
            checks += [(f"after_set_{step}:{step}==target", getattr(sp_, step), target),
                       (f"after_set_{step}:volume", sp_.volume, Vk + Sk * rk + 4 * math.pi * Mk * rk**2 + 4 / 3 * math.pi * rk**3),
                       (f"after_set_{step}:surface_area", sp_.surface_area, Sk + 8 * math.pi * Mk * rk + 4 * math.pi * rk**2),
                       (f"after_set_{step}:mean_curvature", sp_.mean_curvature, Mk + rk),
                       (f"after_set_{step}:core_volume", sp_.polyhedron.volume, Vk)]
        sp_.radius = 2 * float(sp_.radius)
        n_eval += 1
        rk = float(sp_.radius)
        checks += [("after_radius_change:volume", sp_.volume, Vk + Sk * rk + 4 * math.pi * Mk * rk**2 + 4 / 3 * math.pi * rk**3),
                   ("after_radius_change:surface_area", sp_.surface_area, Sk + 8 * math.pi * Mk * rk + 4 * math.pi * rk**2)]
        # two rounded shapes built from one float64 array: resizing one must leave the other a Steiner body of the original core
        arr = np.array(off, dtype=np.float64)
        sa, sb = cox.shapes.ConvexSpheropolyhedron(arr, 0.2 * size), cox.shapes.ConvexSpheropolyhedron(arr, 0.4 * size)
        _ = (sa.volume, sb.volume)
        sa.volume = 3.0 * sa.volume
        sa.polyhedron.centroid = np.asarray(sa.polyhedron.centroid) + 1.0
        n_eval += 1
        rb = 0.4 * size
        checks += [("sibling_from_same_array:volume", sb.volume, V + S * rb + 4 * math.pi * Mc * rb**2 + 4 / 3 * math.pi * rb**3),
                   ("sibling_from_same_array:surface_area", sb.surface_area, S + 8 * math.pi * Mc * rb + 4 * math.pi * rb**2),
                   ("sibling_from_same_array:mean_curvature", sb.mean_curvature, Mc + rb)]
        for nm, got, want in checks:
            if not oracle.close(got, want, 1e-9):
                fails.append((f"{name}:{nm}", {"points": off, "observed": float(got), "expected": float(want)}))
    for pname, poly in corpus.polygons_2d().items():
        if pname not in ("triangle", "unit_square", "rect", "quad_irregular", "pentagon_irregular", "regular5", "regular7", "regular12"):
            continue
        A, _, _, _, _ = oracle.polygon_measures_2d(poly)
        A = float(abs(A))
        P = math.fsum(math.dist(poly[k], poly[(k + 1) % len(poly)]) for k in range(len(poly)))
        v3 = [[float(x) + 1.0, float(y) - 2.0, 0.0] for x, y in poly]
        for r in (0.0, 1e-3, 0.5, 50.0):
            s = cox.shapes.ConvexSpheropolygon(v3, r)
            n_eval += 1
            for nm, got, want in (("area", s.area, A + P * r + math.pi * r * r), ("perimeter", s.perimeter, P + 2 * math.pi * r),
                                  ("iq", s.iq, 4 * math.pi * (A + P * r + math.pi * r * r) / (P + 2 * math.pi * r)**2)):
                if not oracle.close(got, want, 1e-9):
                    fails.append((f"{pname}:{nm}(r={r})", {"vertices": v3, "radius": r, "observed": float(got), "expected": want}))
    for name, info in fails[:5]:
        chk.record(f"bounded:steiner[{name}]", fkey, "bounded-fail", "independent-oracle", detail=str(info)[:400], model={},
                   kind="bounded", replay=lambda m, info=info, name=name: (True, {"case": name, **info}))
    if not fails:
        chk.record("bounded:steiner", fkey, "bounded-pass", "independent-oracle", kind="bounded", detail=f"{n_eval} shapes")
    chk.bounded.append({"clause": "Steiner polynomials and curvature descriptors with V, S, M computed independently from exact hull facets",
                        "bound": "named convex solids with <= 12 vertices x radii {0, 1e-3, 0.3, 100} x size, plus one history per solid (reads; set volume, surface_area, mean_curvature; change radius) re-checked after every step; 8 convex polygons x radii {0, 1e-3, 0.5, 50}",
                        "evaluations": n_eval, "distinct_nontrivial": n_eval,
                        "rule": "distinct = (core, radius)", "samples": [{"core": "cube", "radius": 0.3}],
                        "failures": len(fails), "exhaustive": False})
