"""C06 -- 2-D point containment equals exact membership.

Deductive: Circle and Ellipse for a batch of Q points (Q symbolic) and a single point, every centre and either
ordering of the semi-axes.  Ellipse.is_inside is a known finding (a one-sided box test, pinned by
tests/test_ellipse.py::test_is_inside); its deviation clause pins what the code does instead.
Polygon.is_inside (inherited by ConvexPolygon) on a symbolic number of edges and query points, (N,3), (N,2) and single
points: the result is  floor(S/2) != 0  with S a sum over all edges whose summand is, edge by edge, the textbook signed
crossing of an upward ray plus a term that telescopes around the vertex cycle (see polygon_is_inside).  Assumed: the
winding-number theorem for simple polygons and the callee contract of _align_points_by_normal (C04).
Bounded (never counted as proved): Polygon / ConvexPolygon winding-number code against exact rational
point-in-polygon membership, in any plane, both orientations, (N,2) and (N,3) inputs, batch vs single.
"""
from __future__ import annotations

import numpy as np
import sympy as sp

from . import containment as CT
from .common import make_curved, path_tag

LEVEL = "other"


def ellipse_deviation(chk, shapes):
    """what Ellipse.is_inside computes on the unchanged tree: (px-cx)/a <= 1 and (py-cy)/b <= 1 and z matches"""
    fkey = chk.function("coxeter.shapes.ellipse", "Ellipse.is_inside")
    cx, cy, cz, a, b = sp.symbols("cx cy cz a b", real=True)
    for mode in ("batch", "single"):
        def run():
            obj = make_curved(shapes, "Ellipse")
            pts = CT.batch_points() if mode == "batch" else CT.single_point()
            return obj.is_inside(pts)
        point = CT.pq if mode == "batch" else [sp.Symbol(f"p{j}", real=True) for j in range(3)]
        dev = sp.And(sp.Le((point[0] - cx) / a, 1), sp.Le((point[1] - cy) / b, 1),
                     sp.Le(sp.Abs(point[2] - cz), sp.Rational(1, 10**8)))
        for p in chk.explore(fkey, run, assumptions=CT.Q.facts()):
            if p.kind != "return":
                chk.path_raised(fkey, p)
                continue
            try:
                code = CT.elem_bool(p.value, mode == "single")
            except ValueError:
                continue
            chk.prove(f"Ellipse.is_inside:membership:deviation[{mode}:{path_tag(p)}]", fkey, p.pc, sp.Equivalent(code, dev))


def run(chk):
    ld = chk.loader()
    shapes = ld.load("coxeter.shapes")
    chk.trusted += [
        "float64 arithmetic treated as exact real arithmetic (points within rounding distance of the boundary are outside "
        "the property's scope); np.isclose(z, 0) is |z| <= 1e-8",
        "crossing-number characterisation of the interior of a simple polygon (oracle of the bounded stand-in)",
        "winding-number theorem: for a simple closed polygon and a point off its boundary, the signed number of crossings of a "
        "ray from the point (half-open rule at vertices) is +-1 inside and 0 outside",
        "callee contract of _align_points_by_normal(normal, vertices): returns (vertices R^T, R) with R a rotation taking the "
        "normal to +z (exercised in C04); Polygon.is_inside is verified for every (W, R) it may return",
    ]
    tasks = [("Circle", lambda c: CT.curved_is_inside(c, shapes, "Circle")),
             ("Ellipse", lambda c: CT.curved_is_inside(c, shapes, "Ellipse")),
             ("Ellipse-deviation", lambda c: ellipse_deviation(c, shapes))]
    for mode in ("batch", "batch2", "single"):
        tasks.append((f"Polygon-{mode}", lambda c, mode=mode: c.section(
            f"Polygon.is_inside[{mode}]", "coxeter.shapes.polygon::Polygon.is_inside", lambda: polygon_is_inside(c, shapes, ld, mode))))
    chk.run_parallel(tasks)
    from .common import inherits
    inherits(chk, shapes, "ConvexPolygon", "Polygon", ["is_inside"], "coxeter.shapes.polygon")
    from .bounded_c06 import run_bounded
    run_bounded(chk)


# ------------------------------------------------------------------------------------------------------------------
# Polygon.is_inside (winding number by half-plane transitions) on a symbolic number of edges and of query points
def polygon_is_inside(chk, shapes, ld, mode):
    """Contract (per query point j, with q = R p_j the point rotated into the polygon's frame and W the rotated vertices):

        is_inside_j  <=>  wn_j != 0,     wn_j = sum over edges e of c_e,

    c_e the signed crossing of the upward ray {q + (0, t), t > 0} by edge e = (W_e, W_(e+1 mod n)) with the half-open
    convention (a vertex on the ray's line belongs to the side its y points to).  Proved from the real code in four steps:
    the result is  floor(S / 2) != 0  with S a sum over all edges; its summand h_e depends on the edge and the point only
    through (W_e - q, W_(e+1) - q); per edge  h_e / 2 == c_e + psi(W_(e+1) - q) - psi(W_e - q)  (z3, all sign cases) whenever q
    is not on the edge; and the psi terms telescope around the vertex cycle (Sigma normal form, cyclic shift).  The
    winding-number theorem for simple polygons (wn = +-1 inside, 0 outside) is mathematics, not code, and is assumed."""
    from pyvc import sigma
    from pyvc.sym import Sym
    from pyvc.symarr import SymArr, make
    from . import mutators as M
    pm = ld.load("coxeter.shapes.polygon")
    fkey = chk.function("coxeter.shapes.polygon", "Polygon.is_inside")
    NV = M.NV
    Rs = [[sp.Symbol(f"R{i}{j}", real=True) for j in range(3)] for i in range(3)]
    wf = sp.Function("Wv", real=True)
    ncols = 2 if mode == "batch2" else 3

    def run():
        o = object.__new__(shapes.Polygon)
        o._vertices = make("Vm", (NV, 3))
        o._normal = np.array([Sym(sp.Symbol(f"nm{j}", real=True)) for j in range(3)], dtype=object)
        W = make("Wv", (NV, 3))
        Rm = np.array([[Sym(x) for x in r] for r in Rs], dtype=object)
        old = pm._align_points_by_normal
        # callee contract (C04): returns the vertices rotated into the z-plane frame and the rotation used
        pm._align_points_by_normal = lambda n, v: (W, Rm)
        try:
            pts = CT.single_point() if mode == "single" else CT.batch_points(ncols)
            return o.is_inside(pts)
        finally:
            pm._align_points_by_normal = old
    if mode == "single":
        point = [sp.Symbol(f"p{j}", real=True) for j in range(3)]
    else:
        point = [CT.pq[j] if j < ncols else sp.Integer(0) for j in range(3)]
    q = [sum(Rs[i][j] * point[j] for j in range(3)) for i in range(2)]
    x1, y1, x2, y2 = sp.symbols("x1 y1 x2 y2", real=True)
    for p in chk.explore(fkey, run, assumptions=NV.facts() + (CT.Q.facts() if mode != "single" else [])):
        if p.kind != "return":
            chk.path_raised(fkey, p)
            continue
        t = f"{mode}:{path_tag(p)}"
        try:
            code = CT.elem_bool(p.value, mode == "single")
        except ValueError as e:
            chk.record(f"Polygon.is_inside:one_result_per_point[{t}]", fkey, "refuted", "shape", detail=str(e), model={})
            continue
        chk.record(f"Polygon.is_inside:one_result_per_point[{t}]", fkey, "proved", "shape")
        if code in (sp.true, sp.false):
            # a single point: numpy turned the comparison into a Python bool, i.e. a branch; the decision is in the path condition
            dec = [c_ for c_ in p.pc if getattr(c_, "atoms", None) and c_.atoms(sp.Sum)]
            if len(dec) != 1:
                chk.record(f"Polygon.is_inside:result_is_floor_of_half_the_edge_sum_nonzero[{t}]", fkey, "unknown", "structure",
                           detail=f"{len(dec)} deciding conditions", model={})
                continue
            code = dec[0] if code is sp.true else sp.Not(dec[0])
            if isinstance(code, sp.Eq) and False:
                pass
            if isinstance(code, sp.Not) and isinstance(code.args[0], sp.Eq):
                code = sp.Ne(*code.args[0].args)
        if mode == "batch":
            # concretisation cross-check of the engine: the symbolic value on a real L-shaped polygon in the xy plane (where the alignment is the
            # identity) against the same method run by CPython
            from pyvc import concrete
            from .common import real_coxeter
            Lp = np.array([[0.0, 0, 0], [3, 0, 0], [3, 1, 0], [1, 1, 0], [1, 3, 0], [0, 3, 0]]) + np.array([0.5, -0.25, 0.0])
            rng = np.random.RandomState(4)
            pts_c = np.vstack([np.c_[rng.uniform(-0.5, 4.0, size=(40, 2)), np.zeros(40)], np.array([[1.5, 0.75, 0.0], [3.5, 0.25, 0.0], [1.5, 2.0, 0.0], [1.0, 0.0, 0.0]]) + np.array([0.0, 0.0, 0.0])])
            env = concrete.Env(sizes={NV: len(Lp), CT.Q: len(pts_c)}, arrays={"Wv": Lp, "Vm": Lp, "pt": pts_c},
                               scalars={Rs[i][j]: (1.0 if i == j else 0.0) for i in range(3) for j in range(3)})
            concrete.cross_check(chk, f"Polygon.is_inside[{t}]", fkey, code, env, (CT.Q,), real_coxeter().shapes.Polygon(Lp).is_inside(pts_c), boolean=True)
        # (1) floor(S / 2) != 0 with S one sum over the edge axis
        sums = list(code.atoms(sp.Sum))
        S = sums[0] if len(sums) == 1 else None
        ok = S is not None and S.limits[0][1] == 0 and sp.expand(S.limits[0][2] - (NV.n - 1)) == 0 and \
            code.xreplace({S: sp.Symbol("S_", integer=True)}) in (sp.Ne(sp.floor(sp.Symbol("S_", integer=True) / 2), 0),)
        chk.record(f"Polygon.is_inside:result_is_floor_of_half_the_edge_sum_nonzero[{t}]", fkey, "proved" if ok else "unknown",
                   "structure", detail=str(code)[:200] if not ok else "", model={},
                   goal="is_inside_j == (floor(sum_e h_e / 2) != 0), the sum running over all n edges")
        if not ok:
            continue
        e = S.limits[0][0]
        body = S.function
        nxt = sp.Mod(e + 1, NV.n)
        # (2) the summand depends on (edge, point) only through the endpoint offsets from the rotated point
        sub = {wf(e, sp.Integer(0)): x1 + q[0], wf(e, sp.Integer(1)): y1 + q[1],
               wf(nxt, sp.Integer(0)): x2 + q[0], wf(nxt, sp.Integer(1)): y2 + q[1]}
        h = _expand_inside(body.xreplace(sub))
        leftover = (h.free_symbols - {x1, y1, x2, y2}) | {a for a in h.atoms(sp.Function) if isinstance(a, sp.core.function.AppliedUndef)}
        chk.record(f"Polygon.is_inside:edge_term_depends_only_on_offsets_from_the_rotated_point[{t}]", fkey,
                   "proved" if not leftover else "refuted", "substitution", detail=str(sorted(map(str, leftover)))[:200], model={},
                   goal="h_e is a function of (W_e - R p, W_(e+1 mod n) - R p): same rotation for points and vertices, "
                        "second endpoint is the cyclic successor", replay=_replay_polygon_inside)
        if leftover:
            continue
        # (3) per-edge lemma against the textbook signed ray crossing (upward ray, half-open rule)
        inR = lambda x, y: sp.Or(sp.Gt(x, 0), sp.And(sp.Eq(x, 0), sp.Gt(y, 0)))    # noqa: E731
        inL = lambda x, y: sp.Or(sp.Lt(x, 0), sp.And(sp.Eq(x, 0), sp.Lt(y, 0)))    # noqa: E731
        psi = lambda x, y: sp.Piecewise((sp.Rational(1, 4), inR(x, y)), (-sp.Rational(1, 4), inL(x, y)), (0, True))   # noqa: E731
        # y-coordinate (times the positive factor |x1 - x2|) at which the edge's line meets x = 0
        ystar_pos = sp.Piecewise(((x1 * y2 - x2 * y1), sp.Gt(x1, x2)), (-(x1 * y2 - x2 * y1), True))
        above = sp.Gt(ystar_pos, 0)
        c = sp.Piecewise((1, sp.And(inR(x1, y1), inL(x2, y2), above)), (-1, sp.And(inL(x1, y1), inR(x2, y2), above)), (0, True))
        # the point is not on the edge (boundary points are outside the property's scope)
        cross = x1 * y2 - x2 * y1
        on_edge = sp.And(sp.Eq(cross, 0), sp.Le(x1 * x2 + y1 * y2, 0))
        chk.prove(f"Polygon.is_inside:edge_term_is_signed_ray_crossing_up_to_telescoping[{t}]", fkey, [sp.Not(on_edge)],
                  sp.Eq(h / 2, c + psi(x2, y2) - psi(x1, y1)), replay=_replay_polygon_inside)
        chk.reachable(f"Polygon.is_inside:edge_lemma_precondition[{t}]", fkey, [sp.Not(on_edge), inR(x1, y1), inL(x2, y2)])
        # (4) the telescoping terms cancel around the vertex cycle
        g = sp.Function("psi_at", real=True)
        tele = sigma.is_zero(sp.Sum(g(wf(sp.Mod(e + 1, NV.n), sp.Integer(0)), wf(sp.Mod(e + 1, NV.n), sp.Integer(1)))
                                    - g(wf(e, sp.Integer(0)), wf(e, sp.Integer(1))), (e, 0, NV.n - 1)))
        chk.record(f"Polygon.is_inside:telescoping_terms_cancel_around_the_cycle[{t}]", fkey, "proved" if tele else "unknown",
                   "sigma-normal-form", model={}, goal="sum_e psi(W_(e+1 mod n)) - psi(W_e) == 0")
    chk.canary("canary:polygon_edge_lemma_without_telescoping", fkey, [],
               sp.Eq(sp.sign(x1 * y2 - x2 * y1), 2 * sp.Piecewise((1, sp.Gt(x1, 0)), (0, True))))


def _expand_inside(e):
    """expand the arguments of sign / relations so that substituted offsets cancel"""
    def rec(x):
        if not x.args:
            return x
        args = [rec(a) for a in x.args]
        if isinstance(x, sp.sign):
            return sp.sign(sp.expand(args[0]))
        if isinstance(x, sp.core.relational.Relational):
            return x.func(sp.expand(args[0] - args[1]), 0)
        return x.func(*args)
    return rec(sp.sympify(e))


def _replay_polygon_inside(model):
    """exact point-in-polygon (rational crossing number) on non-convex polygons whose vertices share x coordinates with
    the query points"""
    from bounded import oracle
    from .common import real_coxeter
    cox = real_coxeter()
    polys = {"arrow": [(0, 0), (4, -3), (1, 0), (4, 3)], "L": [(0, 0), (2, 0), (2, 1), (1, 1), (1, 2), (0, 2)],
             "zigzag": [(-2, 4), (3, 4), (3, -1), (1, 2), (0, -1), (-1, 2), (-2, -1)]}
    for name, pts in polys.items():
        for rev in (False, True):
            P = list(reversed(pts)) if rev else pts
            poly = cox.shapes.Polygon([[float(x), float(y), 0.0] for x, y in P])
            xs = sorted({x for x, _ in pts})
            grid = [(x + dx, y / 2) for x in xs for dx in (0, 0.5) for y in range(-9, 12)]
            for (qx, qy) in grid:
                want = oracle.point_in_polygon((qx, qy), P)
                if want == 0:
                    continue
                got = bool(np.asarray(poly.is_inside([[qx, qy, 0.0]])).reshape(-1)[0])
                if got != (want > 0):
                    return True, {"polygon": name, "reversed": rev, "vertices": P, "point": [qx, qy], "is_inside": got,
                                  "exactly_inside": want > 0}
    return False, {}
