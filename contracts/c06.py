"""C06 -- 2-D point containment equals exact membership.

Deductive: Circle and Ellipse for a batch of Q points (Q symbolic) and a single point, every centre and either
ordering of the semi-axes.  Ellipse.is_inside is a known finding (a one-sided box test, pinned by
tests/test_ellipse.py::test_is_inside); its deviation clause pins what the code does instead.
Bounded (never counted as proved): Polygon / ConvexPolygon winding-number code against exact rational
point-in-polygon membership, in any plane, both orientations, (N,2) and (N,3) inputs, batch vs single.
"""
from __future__ import annotations

import numpy as np
import sympy as sp

from . import containment as CT
from .common import make_curved, path_tag

LEVEL = "other"


def ellipse_deviation(chk, shapes):
    """what Ellipse.is_inside computes on the unchanged tree: (px-cx)/a <= 1 and (py-cy)/b <= 1 and z matches"""
    fkey = chk.function("coxeter.shapes.ellipse", "Ellipse.is_inside")
    cx, cy, cz, a, b = sp.symbols("cx cy cz a b", real=True)
    for mode in ("batch", "single"):
        def run():
            obj = make_curved(shapes, "Ellipse")
            pts = CT.batch_points() if mode == "batch" else CT.single_point()
            return obj.is_inside(pts)
        point = CT.pq if mode == "batch" else [sp.Symbol(f"p{j}", real=True) for j in range(3)]
        dev = sp.And(sp.Le((point[0] - cx) / a, 1), sp.Le((point[1] - cy) / b, 1),
                     sp.Le(sp.Abs(point[2] - cz), sp.Rational(1, 10**8)))
        for p in chk.explore(fkey, run, assumptions=CT.Q.facts()):
            if p.kind != "return":
                continue
            try:
                code = CT.elem_bool(p.value, mode == "single")
            except ValueError:
                continue
            chk.prove(f"Ellipse.is_inside:membership:deviation[{mode}:{path_tag(p)}]", fkey, p.pc, sp.Equivalent(code, dev))


def run(chk):
    ld = chk.loader()
    shapes = ld.load("coxeter.shapes")
    chk.trusted += [
        "float64 arithmetic treated as exact real arithmetic (points within rounding distance of the boundary are outside "
        "the property's scope); np.isclose(z, 0) is |z| <= 1e-8",
        "crossing-number characterisation of the interior of a simple polygon (oracle of the bounded stand-in)",
    ]
    tasks = [("Circle", lambda c: CT.curved_is_inside(c, shapes, "Circle")),
             ("Ellipse", lambda c: CT.curved_is_inside(c, shapes, "Ellipse")),
             ("Ellipse-deviation", lambda c: ellipse_deviation(c, shapes))]
    chk.run_parallel(tasks)
    from .bounded_c06 import run_bounded
    run_bounded(chk)
