"""C02 -- general Polyhedron volume, surface area, per-face areas, centroid and inertia tensor equal the exact
integrals over the enclosed solid, for every closed outward-oriented mesh (no convexity / star-shapedness).

State, spec and the assumed contract of the ear-clipping triangulation: contracts/polyhedron_state.py.
"""
from __future__ import annotations

import numpy as np
import sympy as sp

from pyvc import sigma, paths
from pyvc.sym import Sym, to_expr, wrap
from pyvc.symarr import SymArr, SymSeq, sum_over, make
from specs.moments import X, Y, Z, integrate_tet
from . import polyhedron_state as H
from .certs import surface_cert
from .common import path_tag, ex

MODP = "coxeter.shapes.polyhedron"
COORD = (X, Y, Z)


def _concretise(chk, name, fk, expr, reference, centre=None, axes=()):
    """cross-check of the engine (pyvc.concrete): the symbolic value with the arrays of a real, placed U-shaped voxel solid (vertices, faces, the
    triangles its own surface triangulation yields) against the same member run by CPython on that object"""
    from pyvc import concrete
    from .common import real_coxeter
    from . import bounded_c02 as B2
    cox = real_coxeter()
    verts, faces = B2.voxel_mesh(B2.voxel_solids()["U7"])
    o = cox.shapes.Polyhedron(np.asarray(verts, float) + np.array([1.5, -0.5, 0.25]), [list(f) for f in faces])
    tri = np.array([[np.asarray(v, float) for v in t] for t in o._surface_triangulation()])          # (T, 3, 3)
    V = np.asarray(o.vertices, float)
    Fc = np.array([list(f) for f in o.faces])
    scal = {}
    if centre is not None:
        cen = np.asarray(o.centroid, float)
        scal = {centre[j]: float(cen[j]) for j in range(3)}
    env = concrete.Env(sizes={H.N: len(V), H.F: len(Fc), H.LF: Fc.shape[1], H.T: len(tri)}, arrays={"Vh": V, "Fch": Fc, "Tr": tri}, scalars=scal)
    concrete.cross_check(chk, name, fk, expr, env, axes, np.asarray(reference(o)), rtol=1e-9)


def run(chk):
    ld = chk.loader()
    shapes = ld.load("coxeter.shapes")
    polymod = ld.load(MODP)
    chk.trusted += [
        "float64 arithmetic treated as exact real arithmetic",
        "the integral over the solid bounded by a closed oriented triangulated surface is the sum of signed tetrahedra "
        "from the origin; antisymmetric edge terms cancel over such a surface (edge-cancellation lemma)",
        "ghost invariant: the triangles yielded by _surface_triangulation form a closed, consistently outward "
        "triangulation of the surface described by (vertices, faces)",
        "faces are planar, convex and listed counter-clockwise seen from outside (the class's defining condition), so the "
        "unit normal of a face's first three vertices is its vector area divided by its area",
        "Dirichlet formula for monomial integrals over simplices (specs/moments.py)",
    ]
    chk.assumed += ["extern.polytri.triangulate(face vertices) yields triangles made of the given vertices, with the face's "
                    "orientation, partitioning the face (bounded stand-in: contracts/bounded_c02.py)",
                    "ConvexPolygon(face vertices).area is the area of the planar face (contract C04)"]
    facts = H.facts()
    atoms = H.tri_atoms()
    A, B, C = atoms
    from .bounded_c02 import replay_mesh, run_bounded

    c = [sp.Symbol(f"c{i}", real=True) for i in range(3)]
    r2 = X**2 + Y**2 + Z**2

    _tasks = []

    def sec_0():
        fk = chk.function(MODP, "Polyhedron._find_equations")

        def run_fe():
            o = H.polyhedron(shapes)
            o._equations = None
            o._find_equations()
            return o._equations
        for p in chk.explore(fk, run_fe, assumptions=facts):
            E = [to_expr(p.value.inner[j]) for j in range(4)]
            for j in range(4):
                def ref(o, j=j):
                    o._find_equations()
                    return np.asarray(o._equations)[:, j]
                _concretise(chk, f"Polyhedron._find_equations[{j}]", fk, E[j], ref, axes=(H.F,))
            Nf, P0 = H.face_normal_raw()
            nrm = sp.sqrt(H.radicand(Nf))
            for j in range(3):
                chk.prove_eq(f"equations:normal[{j}]", fk, p.pc, E[j] * nrm, Nf[j], replay=replay_mesh("equations"))
            chk.prove_eq("equations:offset", fk, p.pc, E[3] * nrm, -H.dot(Nf, P0), replay=replay_mesh("equations"))
            chk.prove_eq("equations:unit", fk, p.pc, E[0]**2 + E[1]**2 + E[2]**2, 1)
            for i, nm in enumerate(("v0", "v1", "v2")):
                chk.prove_eq(f"equations:contains[{nm}]", fk, p.pc, H.dot(E[:3], H.face_vertex(i)) + E[3], 0)
            axes = p.value.axes
            chk.record("equations:one_row_per_face", fk, "proved" if axes == (H.F, 4) else "refuted", "shape",
                       detail=str(axes), model={})
    _tasks.append(("find_equations_map_loop_over_faces", lambda c_, f_=sec_0: f_()))

    def sec_1():
        fk_ga = chk.function(MODP, "Polyhedron.get_face_area")
        area_f = sp.Function("FaceArea", real=True)      # callee contract value: area of the planar face f
        passed = []

        class PolyStub:
            """contract of ConvexPolygon(vertices, planar_tolerance).area as used by get_face_area"""
            def __init__(self, verts, planar_tolerance=None, **_k):
                passed.append(verts)

            @property
            def area(self):
                return Sym(area_f(H.F.k))

        def run_ga(arg):
            o = H.polyhedron(shapes)
            old = polymod.ConvexPolygon
            polymod.ConvexPolygon = PolyStub
            passed.clear()
            try:
                return o.get_face_area(*arg), list(passed)
            finally:
                polymod.ConvexPolygon = old
        for p in chk.explore(fk_ga, lambda: run_ga(()), assumptions=facts):
            areas, given = p.value
            ok = isinstance(areas, SymArr) and areas.axes == (H.F,) and to_expr(areas.inner[()]) == area_f(H.F.k)
            chk.record("get_face_area:one_area_per_face_in_order", fk_ga, "proved" if ok else "refuted", "map-loop",
                       model={}, replay=replay_mesh("face_area"))
            g = given[0] if given else None
            want = [[H.Vf(H.Fcf(H.F.k, H.LF.k), sp.Integer(j)) for j in range(3)]]
            ok2 = isinstance(g, SymArr) and g.axes == (H.LF, 3) and \
                all(sp.expand(to_expr(g.inner[j]) - want[0][j]) == 0 for j in range(3))
            chk.record("get_face_area:passes_the_faces_vertices", fk_ga, "proved" if ok2 else "refuted", "map-loop",
                       model={}, replay=replay_mesh("face_area"))
        fk_s = chk.function(MODP, "Polyhedron.surface_area[get]")

        def run_s():
            o = H.polyhedron(shapes)
            o.get_face_area = lambda faces=None: SymArr((H.F,), np.array(Sym(area_f(H.F.k)), dtype=object))
            return o.surface_area
        for p in chk.explore(fk_s, run_s, assumptions=facts):
            chk.record("surface_area:post", fk_s,
                       "proved" if sigma.is_zero(ex(p.value) - sum_over(H.F, area_f(H.F.k))) else "refuted",
                       "sigma-normal-form", model={}, replay=replay_mesh("surface_area"))

        fk_v = chk.function(MODP, "Polyhedron.volume[get]")
        VA = [sp.Function("VA", real=True)(H.F.k, sp.Integer(j)) for j in range(3)]     # vector area of face f
        P0 = H.face_vertex(0)
        an = sp.sqrt(H.radicand(VA))

        def run_v():
            o = H.polyhedron(shapes)
            # Inv under the defining condition: unit normal = vector area / area, offset = -n.v0
            eq = np.empty((4,), dtype=object)
            for j in range(3):
                eq[j] = wrap(VA[j] / an)
            eq[3] = wrap(-H.dot(VA, P0) / an)
            o._equations = SymArr((H.F, 4), eq)
            o.get_face_area = lambda faces=None: SymArr((H.F,), np.array(wrap(an), dtype=object))
            return o.volume
        for p in chk.explore(fk_v, run_v, assumptions=facts + [sp.Gt(H.radicand(VA), 0)]):
            chk.record("volume:flux_of_r_over_3", fk_v,
                       "proved" if sigma.is_zero(ex(p.value) - sum_over(H.F, H.dot(VA, P0) / 3)) else "refuted",
                       "sigma-normal-form", model={}, replay=replay_mesh("volume"))
        # lemma (mathematics, checked): for a planar face fanned from v0, sum of det(v0,a,b)/6 == v0.VA/3 term by term
        a = sp.symbols("a0:3", real=True)
        b = sp.symbols("b0:3", real=True)
        v0 = sp.symbols("v0:3", real=True)
        lhs = sp.Matrix([v0, a, b]).det() / 6
        rhs = H.dot(v0, H.cross([a[i] - v0[i] for i in range(3)], [b[i] - v0[i] for i in range(3)])) / 6
        chk.prove_eq("volume:fan_lemma", fk_v, [], lhs, rhs)
    _tasks.append(("get_face_area_surface_area_volume", lambda c_, f_=sec_1: f_()))

    def sec_2():
        fk_c = chk.function(MODP, "Polyhedron.centroid[get]")

        def run_c():
            o = H.polyhedron(shapes)
            return o.centroid
        for p in chk.explore(fk_c, run_c, assumptions=facts):
            cen = p.value
            for i in range(3):
                _concretise(chk, f"Polyhedron.centroid[{'xyz'[i]}]", fk_c, ex(cen[i]), lambda o, i=i: o.centroid[i])
            for i in range(3):
                num, den = sp.fraction(sigma.cancel_sums(ex(cen[i])))
                # cen_i = num/den; claim num/den == M[x_i]/M[1]: the two certificates below establish
                # den == c * M[1] and num == c * M[x_i] for the same constant c
                m1 = H.solid_moment(1)
                mx = H.solid_moment(COORD[i])
                ratio = None
                for cst in (24, 6, 1, 4, 12, 48, 2, 3, 8):
                    if sigma.is_zero(den - cst * 0) and False:
                        pass
                o1 = surface_cert(chk, f"centroid:denominator_is_volume[{'xyz'[i]}]", fk_c, p.pc, den / _lead(den, m1), m1,
                                  H.T, atoms, replay=replay_mesh("centroid"))
                surface_cert(chk, f"centroid:stokes[{'xyz'[i]}]", fk_c, p.pc, num / _lead(den, m1), mx,
                             H.T, atoms, replay=replay_mesh("centroid"))
    _tasks.append(("centroid_reduction_loop_over_triangles", lambda c_, f_=sec_2: f_()))

    def sec_3():
        fk_i = chk.function(MODP, "Polyhedron._compute_inertia_tensor")

        def run_it():
            o = H.polyhedron(shapes)
            type(o).centroid.fget      # (the real getter is verified above; here any row-independent centre)
            o.__class__ = _with_center(o.__class__, c)
            return o._compute_inertia_tensor()
        for p in chk.explore(fk_i, run_it, assumptions=facts):
            it = p.value
            for i in range(3):
                for j in range(i, 3):
                    _concretise(chk, f"Polyhedron._compute_inertia_tensor[{i}{j}]", fk_i, ex(it[i, j]), lambda o, i=i, j=j: o._compute_inertia_tensor()[i, j], centre=c)
            for i in range(3):
                for j in range(i, 3):
                    h = (r2 if i == j else 0) - COORD[i] * COORD[j]
                    surface_cert(chk, f"inertia:kallay[{'xyz'[i]}{'xyz'[j]}]", fk_i, p.pc, ex(it[i, j]),
                                 H.solid_moment(h, shift=c), H.T, atoms, replay=replay_mesh("inertia_tensor"))
                    if i != j:
                        chk.prove_eq(f"inertia:symmetric[{'xyz'[i]}{'xyz'[j]}]", fk_i, p.pc, ex(it[i, j]), ex(it[j, i]))
    _tasks.append(("inertia_tensor_about_the_centroid", lambda c_, f_=sec_3: f_()))

    def sec_4():
        fk_t = chk.function(MODP, "Polyhedron.inertia_tensor[get]")
        mom = {}

        def msym(pw):
            return mom.setdefault(pw, sp.Symbol("m_%d%d%d" % pw, real=True))

        def abstract(h):
            poly = sp.Poly(sp.expand(h), X, Y, Z)
            return sum(coef * msym(tuple(mon)) for mon, coef in poly.terms())
        m0 = msym((0, 0, 0))
        cen = [msym(tuple(1 if k == i else 0 for k in range(3))) / m0 for i in range(3)]

        def run_full():
            o = H.polyhedron(shapes)
            o.__class__ = _with_center(o.__class__, cen, volume=m0)

            def stub(centered=True):
                out = np.empty((3, 3), dtype=object)
                for i in range(3):
                    for j in range(3):
                        h = (r2 if i == j else 0) - COORD[i] * COORD[j]
                        hs = h.subs({X: X - cen[0], Y: Y - cen[1], Z: Z - cen[2]}, simultaneous=True)
                        out[i, j] = wrap(abstract(hs))
                return out
            o._compute_inertia_tensor = stub
            # callee contracts of everything else a (re-written) getter might consult
            o.get_face_area = lambda faces=None: SymArr((H.F,), np.array(Sym(sp.Function("FaceArea", real=True)(H.F.k)), dtype=object))
            return o.inertia_tensor
        for p in chk.explore(fk_t, run_full, assumptions=[sp.Gt(m0, 0)]):
            out = p.value
            for i in range(3):
                for j in range(3):
                    h = (r2 if i == j else 0) - COORD[i] * COORD[j]
                    chk.prove_eq(f"inertia_tensor:post[{i}{j}]", fk_t, p.pc, ex(out[i, j]), abstract(h),
                                 replay=replay_mesh("inertia_tensor"))
    _tasks.append(("inertia_tensor_about_the_origin", lambda c_, f_=sec_4: f_()))

    def sec_5():
        """Polyhedron._surface_triangulation (the generator every surface integral and is_inside consume) delegates, face by face in the order of the
        faces, to the vendored triangulator with exactly that face's vertex coordinates, and passes its triangles on unchanged"""
        pm = ld.load("coxeter.shapes.polyhedron")
        fk5 = chk.function(MODP, "Polyhedron._surface_triangulation")
        calls = []
        token = object()

        class Tri:
            @staticmethod
            def triangulate(verts, *a, **k):
                calls.append((verts, a, k))
                yield token

        def run_st():
            calls.clear()
            o = H.polyhedron(shapes)
            del o.__dict__["_surface_triangulation"]          # the real generator, not the state's stub
            old = pm.polytri
            pm.polytri = Tri
            try:
                out = [t for t in o._surface_triangulation()]
            finally:
                pm.polytri = old
            return out, list(calls), o._vertices, o._faces
        for p in chk.explore(fk5, run_st, assumptions=facts):
            if p.kind != "return":
                chk.path_raised(fk5, p)
                continue
            out, cs, verts, faces = p.value
            seq = getattr(out, "sym", None)
            one_call = len(cs) == 1 and not cs[0][1] and not cs[0][2]
            want = verts[faces.elem] if one_call else None
            same = one_call and isinstance(cs[0][0], SymArr) and cs[0][0].axes == want.axes and \
                all(to_expr(a) == to_expr(b) for a, b in zip(cs[0][0].inner.reshape(-1), want.inner.reshape(-1)))
            passes = (seq is not None and seq.dim is H.F and seq.elem is token) or (isinstance(out, list) and len(out) == 1 and out[0] is token)   # generic face
            chk.record("surface_triangulation:one_call_of_the_triangulator_per_face_with_that_faces_vertices", fk5, "proved" if same else "refuted", "call-trace",
                       detail=f"{len(cs)} calls per face", model={}, replay=replay_mesh("centroid"), abstracted=True)
            chk.record("surface_triangulation:passes_the_triangles_on_unchanged_in_the_order_of_the_faces", fk5, "proved" if passes else "refuted", "call-trace",
                       detail=str(type(out).__name__), model={}, replay=replay_mesh("centroid"), abstracted=True)
    _tasks.append(("surface_triangulation_delegates_to_the_triangulator", lambda c_, f_=sec_5: f_()))

    chk.run_parallel(_tasks)

    chk.reachable("Inv_Polyhedron facts", "coxeter.shapes.polyhedron::Polyhedron.centroid[get]", facts)
    run_bounded(chk)


def _lead(den, m1):
    """constant c with den == c * M[1] up to edge terms: ratio of the coefficients of one fixed monomial sum"""
    from pyvc.oblig import sums_to_symbols
    d = sp.expand(sums_to_symbols(sigma.canon(den)))
    m = sp.expand(sums_to_symbols(sigma.canon(m1)))
    for s in sorted(m.free_symbols, key=str):
        cd, cm = d.coeff(s), m.coeff(s)
        if cm != 0 and cd != 0 and sp.simplify(cd / cm).is_number:
            return sp.nsimplify(cd / cm)
    return sp.Integer(1)


_CACHE = {}


def _with_center(cls, centre, volume=None):
    """subclass whose centroid / volume are given row-independent symbols (callee contracts of the getters)"""
    ns = {"centroid": property(lambda self: np.array([wrap(x) for x in centre], dtype=object))}
    if volume is not None:
        ns["volume"] = property(lambda self: wrap(volume))
    return type(cls.__name__ + "_contract", (cls,), ns)
