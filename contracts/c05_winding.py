"""C05: Polyhedron.is_inside (winding number of a triangulated surface, Dickinson's sign-chain algorithm) for every
number of triangles and of query points, (N,3) batches and single points.

Verified text: the body of Polyhedron.is_inside from the statement `points = np.atleast_2d(points)` on, extracted
mechanically from the current source on every run (pyvc.loader.Loader.extract_tail).  Dropped, and stated in the evidence:
the two leading statements that build the index array `triangles` (a dict from coordinate tuples to vertex indices and a list
comprehension over the polytri generator) -- `triangles` is an input of the verified function, a (T,3) integer array about
which only the assumed contract of the surface triangulation is known (C02: it triangulates the faces with their
orientation).  Everything else is the code that runs.

Contract (per query point p, with u_i = v_i - p the corners of triangle T seen from p):

  is_inside(p)  <=>  floor( sum_T t_T / 2 ) != 0,

  (1) the result has one entry per point, and is exactly that expression with one sum over all T triangles;
  (2) t_T depends on the triangle and the point only through (u_0, u_1, u_2);
  (3) generic position (no u_i with x = 0, no edge with x_i y_j - x_j y_i = 0): t_T = c_T, the signed crossing of the line
      through p parallel to the z axis with the triangle,
          c_T = sign det(u_0, u_1, u_2)  if the projections of the corners on the xy plane surround the origin, else 0
      (z3 over the nine reals);
  (4) ties: every sign the algorithm takes is the *lexicographic* sign of the coefficient list (increasing powers of d) of
      the same quantity evaluated at M_d u, M_d = [[1, d^2, d^4], [0, 1, d], [0, 0, 1]] (det 1): the code's answer is the generic
      formula (3) at the infinitesimally sheared configuration M_d u, d -> 0+, and det(M_d u) = det(u) (polynomial identities
      and a structural comparison of the selection chains in the code's value);
  (5) sum_T t_T is even whenever it is used -- not needed: the code takes floor(./2) and (A) below gives 2 wn.

Assumed (mathematics, not code): (A) for a closed oriented triangulated surface, a point p off the surface and a line through
p that meets no edge, the signed crossings of the line with the triangles sum to twice the winding number of the surface
about p (each of the two rays contributes wn), wn = +-1 inside and 0 outside a simple closed surface, and a linear map of
determinant 1 fixing p does not change wn.
"""
from __future__ import annotations

import numpy as np
import sympy as sp
from sympy.core.function import AppliedUndef

from pyvc import paths
from pyvc.sym import LETS, Sym, deep_atoms, subst_lets, to_expr
from pyvc.symarr import Dim, SymArr, make

from . import containment as CT
from . import polyhedron_state as H
from .common import path_tag

TT = Dim("Ttri", minimum=4)
U = [[sp.Symbol(f"u{i}{'xyz'[c]}", real=True) for c in range(3)] for i in range(3)]
DL = sp.Symbol("dl", positive=True)


def det3(a, b, c):
    return sp.Matrix([a, b, c]).det()


def crossing_spec(u):
    """c_T: signed crossing of the z-parallel line through the origin with triangle (u0,u1,u2)"""
    d = [u[i][0] * u[(i + 1) % 3][1] - u[(i + 1) % 3][0] * u[i][1] for i in range(3)]
    around = sp.Or(sp.And(*[sp.Gt(x, 0) for x in d]), sp.And(*[sp.Lt(x, 0) for x in d]))
    return sp.Piecewise((sp.sign(det3(*u)), around), (0, True)), d


def chain(e):
    """[a0, a1, ...] if e is the selection  sign(a0) if sign(a0) != 0 else (sign(a1) if ... else sign(an)); else None"""
    e = expand_one(e)
    out = []
    while True:
        if isinstance(e, sp.sign):
            out.append(e.args[0])
            return out
        if e == 0 or e.is_number:
            out.append(e)
            return out
        if isinstance(e, sp.Piecewise) and len(e.args) == 2 and e.args[1][1] is sp.true:
            val, cond = e.args[0]
            val, cond = expand_one(val), cond
            if not isinstance(val, sp.sign):
                return None
            ok = (isinstance(cond, sp.Ne) and {expand_one(cond.lhs), expand_one(cond.rhs)} == {val, sp.Integer(0)})
            if not ok:
                return None
            out.append(val.args[0])
            e = expand_one(e.args[1][0])
            continue
        return None


def expand_one(e):
    """a let-name standing alone is replaced by its definition (one level)"""
    while isinstance(e, AppliedUndef) and e.func in LETS:
        idx, body = LETS[e.func]
        e = body.xreplace(dict(zip(idx, e.args))) if idx else body
    return e


def lex_equivalent(code_list, pert_list):
    """the lexicographic sign of both coefficient lists is the same: entries that are multiples of earlier entries are skipped
    (they vanish whenever they are reached); the remaining entries agree up to positive factors"""
    def prune(lst):
        kept = []
        for x in lst:
            x = sp.expand(x)
            if x == 0:
                continue
            if any(sp.simplify(x / k).is_number for k in kept):
                continue
            kept.append(x)
        return kept
    a, b = prune(code_list), prune(pert_list)
    if len(a) != len(b):
        return False, (a, b)
    for x, y in zip(a, b):
        r = sp.simplify(x / y)
        if not (r.is_number and r > 0):
            return False, (a, b)
    return True, (a, b)


def shear(u):
    """M_d u for the three corners"""
    return [[p[0] + DL**2 * p[1] + DL**4 * p[2], p[1] + DL * p[2], p[2]] for p in u]


def coeffs_in_d(e):
    P = sp.Poly(sp.expand(e), DL)
    return [P.coeff_monomial(DL**k) for k in range(P.degree() + 1)]


def polyhedron_is_inside(chk, shapes, ld, mode):
    from pyvc import sigma  # noqa: F401  (kept for symmetry with C06)
    tail, dropped, kept, sha = ld.extract_tail("coxeter.shapes.polyhedron", "Polyhedron.is_inside", ["vertex_to_index", "triangles"])
    fkey = chk.function("coxeter.shapes.polyhedron", "Polyhedron.is_inside")
    chk.functions[fkey]["extraction"] = {
        "verified": "body of Polyhedron.is_inside after its two leading statements, compiled unchanged with `triangles` as an input",
        "dropped_statements": dropped, "kept_sha": sha}
    tag = "Polyhedron.is_inside"

    def run():
        o = object.__new__(shapes.Polyhedron)
        o._vertices = H.V_arr()
        tri = make("tri", (TT, 3), integer=True)
        pts = CT.single_point() if mode == "single" else CT.batch_points()
        return tail(o, pts, None, tri)

    point = [sp.Symbol(f"p{j}", real=True) for j in range(3)] if mode == "single" else list(CT.pq)
    assumptions = H.N.facts() + TT.facts() + (CT.Q.facts() if mode != "single" else [])
    for p in chk.explore(fkey, run, assumptions=assumptions):
        t = f"{mode}:{path_tag(p)}"
        if p.kind != "return":
            chk.record(f"{tag}:returns[{t}]", fkey, "refuted", "path-enumeration", detail=f"{type(p.exc).__name__}: {p.exc}"[:200], model={},
                       replay=replay_winding(), abstracted=True)
            continue
        try:
            code = CT.elem_bool(p.value, mode == "single")
        except ValueError as e:
            chk.record(f"{tag}:one_result_per_point[{t}]", fkey, "refuted", "shape", detail=str(e), model={}, replay=replay_winding(),
                       abstracted=True)
            continue
        chk.record(f"{tag}:one_result_per_point[{t}]", fkey, "proved", "shape")
        if code in (sp.true, sp.false):
            dec = [c_ for c_ in p.pc if getattr(c_, "atoms", None) and c_.atoms(sp.Sum)]
            if len(dec) != 1:
                chk.record(f"{tag}:result_is_floor_of_half_the_triangle_sum_nonzero[{t}]", fkey, "unknown", "structure",
                           detail=f"{len(dec)} deciding conditions", model={})
                continue
            code = dec[0] if code is sp.true else sp.Not(dec[0])
            if isinstance(code, sp.Not) and isinstance(code.args[0], sp.Eq):
                code = sp.Ne(*code.args[0].args)
        # (1) ---------------------------------------------------------------------------------------------------------
        sums = list(code.atoms(sp.Sum))
        S = sums[0] if len(sums) == 1 else None
        ok1 = S is not None and (code == sp.Ne(sp.floor(S / 2), 0) or code == sp.Ne(sp.floor(S * sp.Rational(1, 2)), 0))
        lim_ok = S is not None and len(S.limits) == 1 and S.limits[0][1] == 0 and sp.expand(S.limits[0][2] - (TT.n - 1)) == 0
        chk.record(f"{tag}:result_is_floor_of_half_the_triangle_sum_nonzero[{t}]", fkey, "proved" if ok1 and lim_ok else "refuted", "structure",
                   detail=str(code)[:200] if not (ok1 and lim_ok) else "Ne(floor(Sum_{T}(t_T)/2), 0), T over all triangles", model={},
                   replay=replay_winding(), abstracted=True)
        if not (ok1 and lim_ok):
            continue
        # concretisation cross-check of the engine: the symbolic value at T = 12 triangles / Q = 40 points against the same text run by CPython
        if mode == "batch" and getattr(tail, "cpython", None) is not None:
            from pyvc import concrete
            rng = np.random.RandomState(3)
            cube = np.array([[x, y, z] for x in (0.0, 1.0) for y in (0.0, 1.0) for z in (0.0, 1.0)])
            tri_c = np.array([[0, 2, 3], [0, 3, 1], [4, 5, 7], [4, 7, 6], [0, 1, 5], [0, 5, 4], [2, 6, 7], [2, 7, 3], [0, 4, 6], [0, 6, 2], [1, 3, 7], [1, 7, 5]])
            pts_c = np.vstack([rng.uniform(-0.5, 1.5, size=(30, 3)), np.array([[0.5, 0.5, z_] for z_ in (-0.5, 0.25, 0.5, 1.5)] +
                                                                               [[1.0, y_, 0.5] for y_ in (-0.5, 0.5, 1.5)] + [[0.0, 0.0, 2.0], [0.25, 0.25, 0.75], [2.0, 1.0, 1.0]])])

            class _O:
                vertices = cube
            env = concrete.Env(sizes={TT: len(tri_c), CT.Q: len(pts_c), H.N: len(cube)}, arrays={"Vh": cube, "tri": tri_c, "pt": pts_c})
            concrete.cross_check(chk, f"Polyhedron.is_inside[{t}]", fkey, code, env, (CT.Q,), tail.cpython(_O(), pts_c, None, tri_c), boolean=True)
        j = S.limits[0][0]
        body = S.function
        # (2) offsets only ----------------------------------------------------------------------------------------------
        Vh = sp.Function("Vh", real=True)
        tri = sp.Function("tri", integer=True)
        rep = {Vh(tri(j, i), c): point[c] + U[i][c] for i in range(3) for c in range(3)}

        def to_offsets(e):
            e = e.xreplace(rep)
            return e

        # definitions of the let-names used by this body, rewritten in offsets
        def offsets_full(e):
            e = expand_one(e)
            return e

        def expand_signs(x):
            # polynomial arguments of sign(...) and both sides of relations are expanded so that the point cancels
            x = x.replace(lambda y: isinstance(y, sp.sign), lambda y: sp.sign(sp.expand(y.args[0])))
            return x.replace(lambda y: isinstance(y, sp.core.relational.Relational),
                             lambda y: y.func(sp.expand(y.lhs), sp.expand(y.rhs)))
        full_u = subst_lets(body, rep, post=expand_signs)
        allowed = {x for r in U for x in r}
        left = {a for a in deep_atoms(full_u) if a not in allowed}
        chk.record(f"{tag}:triangle_term_depends_only_on_offsets_from_the_point[{t}]", fkey, "proved" if not left else "refuted", "substitution",
                   detail=("" if not left else f"other symbols remain: {sorted(map(str, left))[:8]}"), model={}, replay=replay_winding(),
                   abstracted=True)
        if left:
            continue
        # (3) generic position: t_T == c_T ------------------------------------------------------------------------------
        spec, d = crossing_spec(U)
        generic = [sp.Ne(U[i][0], 0) for i in range(3)] + [sp.Ne(x, 0) for x in d]
        # case split on the half-plane of every corner and the turn of every edge (64 sign patterns); the cyclic identity
        # x2 d01 + x0 d12 + x1 d20 = 0 (checked as a polynomial identity) is handed to the solver as a lemma
        from pyvc import z3back
        import itertools
        import time as _time
        hint = sp.expand(U[2][0] * d[0] + U[0][0] * d[1] + U[1][0] * d[2])
        assert hint == 0
        dsym = [sp.Symbol(f"d{i}{(i + 1) % 3}", real=True) for i in range(3)]
        lemma = [sp.Eq(dsym[i], d[i]) for i in range(3)] + [sp.Eq(U[2][0] * dsym[0] + U[0][0] * dsym[1] + U[1][0] * dsym[2], 0)]
        t0 = _time.time()
        bad, unknown = None, 0
        for sx in itertools.product((1, -1), repeat=3):
            for sd in itertools.product((1, -1), repeat=3):
                case = [sp.Gt(U[i][0], 0) if sx[i] > 0 else sp.Lt(U[i][0], 0) for i in range(3)] + \
                       [sp.Gt(dsym[i], 0) if sd[i] > 0 else sp.Lt(dsym[i], 0) for i in range(3)]
                r = z3back.prove(lemma + case, sp.Eq(full_u, spec), timeout_ms=20000)
                if r.status == "sat":
                    bad = (sx, sd, r)
                    break
                if r.status != "unsat":
                    r = z3back.prove(lemma + case, sp.Eq(full_u, spec), timeout_ms=180000)      # once more with a long budget (busy machine)
                    if r.status == "sat":
                        bad = (sx, sd, r)
                        break
                    if r.status != "unsat":
                        unknown += 1
            if bad:
                break
        nm = f"{tag}:triangle_term_is_signed_crossing_of_the_vertical_line[{t}]"
        if bad:
            chk.record(nm, fkey, "refuted", "z3", detail=f"corner sides {bad[0]}, edge turns {bad[1]}: {bad[2].detail}"[:300],
                       model=getattr(bad[2], "model", {}) or {}, replay=replay_winding(), goal=f"t_T == c_T in generic position", abstracted=True)
        else:
            chk.record(nm, fkey, "proved" if unknown == 0 else "unknown", "z3", detail=f"64 sign patterns of (x0,x1,x2,d01,d12,d20), {unknown} undecided, "
                       f"{_time.time() - t0:.1f} s", model={}, goal="t_T == c_T in generic position")
        chk.canary(f"{tag}:canary_unsigned_crossing[{t}]", fkey, generic, sp.Eq(full_u, sp.Abs(spec)))
        # (4) ties are broken as an infinitesimal shear would ----------------------------------------------------------
        # every selection chain in the code's value is compared with the coefficient list of its leading quantity at M_d u
        chains = []

        def collect(e):
            e1 = expand_one(e)
            c_ = chain(e1) if isinstance(e1, sp.Piecewise) else None
            if c_ is not None and len(c_) > 1:
                chains.append([sp.expand(x.xreplace(rep)) for x in c_])
                return
            for a in getattr(e1, "args", ()):
                collect(a)
        collect(body)
        uniq = []
        for c_ in chains:
            if c_ not in uniq:
                uniq.append(c_)
        Us = shear(U)
        want = {}
        for i in range(3):
            want[f"side_of_corner_{i}"] = coeffs_in_d(Us[i][0])
        for i in range(3):
            a, b = Us[i], Us[(i + 1) % 3]
            want[f"turn_of_edge_{i}{(i + 1) % 3}"] = coeffs_in_d(a[1] * b[0] - a[0] * b[1])
        matched, unmatched = {}, []
        for c_ in uniq:
            hit = None
            for nm, w in want.items():
                okc, _ = lex_equivalent(c_, w)
                if okc:
                    hit = nm
                    break
            if hit:
                matched[hit] = c_
            else:
                unmatched.append(c_)
        complete = set(matched) == set(want) and not unmatched
        chk.record(f"{tag}:ties_are_broken_as_by_an_infinitesimal_shear[{t}]", fkey, "proved" if complete else "refuted", "structure+normal-form",
                   detail=(f"{len(uniq)} selection chains = lexicographic signs of the coefficient lists at M_d u: {sorted(matched)}" if complete else
                           f"matched {sorted(matched)}; unmatched chains {[[str(x)[:60] for x in c_] for c_ in unmatched][:3]}; missing {sorted(set(want) - set(matched))}"),
                   model={}, replay=replay_winding(), abstracted=True)
        # leading entries are the generic quantities of (3), and the orientation sign is shear-invariant
        lead_ok = all(sp.expand(want[k][0] - matched[k][0]) == 0 or sp.simplify(matched[k][0] / want[k][0]).is_positive for k in matched) if complete else False
        inv = sp.expand(det3(*Us) - det3(*U)) == 0
        chk.record(f"{tag}:orientation_sign_is_invariant_under_the_shear[{t}]", fkey, "proved" if inv and lead_ok else "refuted", "normal-form",
                   detail="det(M_d u) == det(u); the first entry of every chain is the generic quantity", model={}, replay=replay_winding(),
                   abstracted=True)


def replay_winding():
    """real code against exact membership in unions of unit cubes (U, C, frame ...), unplaced so that the half-integer grid
    of query points shares coordinates with vertices (the ties of the algorithm), batch and single-point calls"""
    def replay(model):
        import itertools
        from . import bounded_c02 as B2
        from .bounded_c05 import voxel_membership
        from .common import real_coxeter
        cox = real_coxeter()
        grid = [x / 2 for x in range(-2, 9)]
        for name, cells in list(B2.voxel_solids().items())[:5]:
            verts, faces = B2.voxel_mesh(cells)
            hi = np.max(np.asarray(verts), axis=0)
            pts = [q for q in itertools.product(*[[g for g in grid if -1 <= g <= hi[i] + 1] for i in range(3)])]
            keep = [(q, voxel_membership(q, cells)) for q in pts]
            keep = [(q, l) for q, l in keep if l != 0]
            P = np.array([k[0] for k in keep], dtype=float)
            want = np.array([k[1] > 0 for k in keep])
            try:
                poly = cox.shapes.Polyhedron(np.asarray(verts, float), [list(f) for f in faces])
                got = np.asarray(poly.is_inside(P))
                one = np.asarray(poly.is_inside(P[0])).reshape(-1)
            except Exception as e:  # noqa: BLE001
                return True, {"solid": name, "raised": f"{type(e).__name__}: {e}"[:200]}
            if got.shape != want.shape or len(one) != 1:
                return True, {"solid": name, "result_shape": list(got.shape), "points": len(P), "single_point_result_length": len(one)}
            bad = np.nonzero(got != want)[0]
            if len(bad):
                i = int(bad[0])
                return True, {"solid": name, "point": P[i].tolist(), "is_inside": bool(got[i]), "member": bool(want[i]), "wrong": int(len(bad)),
                              "of": int(len(P))}
            if bool(one[0]) != bool(want[0]):
                return True, {"solid": name, "point": P[0].tolist(), "single_point_is_inside": bool(one[0]), "member": bool(want[0])}
        # convex lattice solids with faces that are not axis-aligned, as general Polyhedron: the query grid contains points straight above and
        # below vertices and on the vertical planes through edges (ties of the vertex and of the edge classification at the same time)
        from fractions import Fraction
        from bounded import oracle
        solids = {"square_pyramid": [(1, 0, 0), (0, 1, 0), (-1, 0, 0), (0, -1, 0), (0, 0, 2)],
                  "octahedron": [(2, 0, 0), (-2, 0, 0), (0, 2, 0), (0, -2, 0), (0, 0, 1), (0, 0, -3)],
                  "skew_wedge": [(0, 0, 0), (2, 0, 0), (0, 2, 0), (2, 2, 0), (0, 0, 1), (2, 0, 3)]}
        for name, pts in solids.items():
            fac = oracle.hull_facets(pts)
            planes = []
            for f in fac:
                a, b, c = (tuple(Fraction(x) for x in pts[i]) for i in f[:3])
                nrm = oracle.cross(oracle.sub(b, a), oracle.sub(c, a))
                planes.append((nrm, oracle.dot(nrm, a)))
            lo = [min(q[i] for q in pts) - 1 for i in range(3)]
            hi = [max(q[i] for q in pts) + 1 for i in range(3)]
            grid, want = [], []
            for x2 in range(2 * lo[0], 2 * hi[0] + 1):
                for y2 in range(2 * lo[1], 2 * hi[1] + 1):
                    for z2 in range(2 * lo[2], 2 * hi[2] + 1):
                        q = (Fraction(x2, 2), Fraction(y2, 2), Fraction(z2, 2))
                        ev = [oracle.dot(nrm, q) - d_ for nrm, d_ in planes]
                        if any(e == 0 for e in ev):
                            continue                      # on a face plane: out of scope
                        inside = all(e < 0 for e in ev) or all(e > 0 for e in ev)
                        sgn = [e < 0 for e in ev]
                        grid.append([float(c_) for c_ in q])
                        want.append(all(sgn) if all(oracle.dot(nrm, tuple(Fraction(sum(p[i] for p in pts), len(pts)) for i in range(3))) - d_ < 0 for nrm, d_ in planes)
                                    else all(not s_ for s_ in sgn))
            for shift in ((0, 0, 0), (3, -2, 5)):
                V = np.array(pts, float) + np.array(shift, float)
                P = np.array(grid) + np.array(shift, float)
                try:
                    poly = cox.shapes.Polyhedron(V, [list(f) for f in fac], faces_are_convex=True)
                    poly.sort_faces()
                    got = np.asarray(poly.is_inside(P))
                except Exception as e:  # noqa: BLE001
                    return True, {"solid": name, "raised": f"{type(e).__name__}: {e}"[:200]}
                bad = np.nonzero(got != np.array(want))[0]
                if len(bad):
                    i = int(bad[0])
                    return True, {"solid": name, "vertices": V.tolist(), "faces": [list(map(int, f)) for f in poly.faces], "point": P[i].tolist(),
                                  "is_inside": bool(got[i]), "member": bool(want[i]), "wrong": int(len(bad)), "of": int(len(P))}
        return False, {}
    return replay
