"""Bounded stand-in for C05: Polyhedron.is_inside (winding number) and ConvexSpheropolyhedron.is_inside against
exact membership on stated corpora, including query points that share coordinates with vertices."""
from __future__ import annotations

import itertools

import numpy as np

from bounded import oracle, corpus
from .common import real_coxeter
from . import bounded_c02 as B2


def voxel_membership(p, cells):
    """+1 interior, -1 exterior, 0 boundary of the union of unit cubes (exact for coordinates that are multiples of 1/4)"""
    touching = []
    ranges = []
    for x in p:
        fx = np.floor(x)
        if abs(x - round(x)) < 1e-12:
            ranges.append([int(round(x)) - 1, int(round(x))])
        else:
            ranges.append([int(fx)])
    cells = set(cells)
    inside = [c in cells for c in itertools.product(*ranges)]
    if all(inside):
        return 1
    if not any(inside):
        return -1
    return 0


def dist_to_convex(p, v, faces):
    """distance from p to the convex polyhedron (0 inside); float arithmetic, used with a margin"""
    p = np.asarray(p, float)
    worst = -np.inf
    for f in faces:
        a, b, c = v[f[0]], v[f[1]], v[f[2]]
        n = np.cross(b - a, c - a)
        n /= np.linalg.norm(n)
        worst = max(worst, float(np.dot(n, p - a)))
    if worst <= 0:
        return 0.0
    best = np.inf
    for f in faces:
        pts = v[list(f)]
        a = pts[0]
        n = np.cross(pts[1] - a, pts[2] - a)
        n /= np.linalg.norm(n)
        h = float(np.dot(n, p - a))
        q = p - h * n
        inside = True
        L = len(pts)
        for i in range(L):
            e0, e1 = pts[i], pts[(i + 1) % L]
            if np.dot(np.cross(e1 - e0, q - e0), n) < 0:
                inside = False
                break
        if inside and h >= 0:
            best = min(best, h)
        for i in range(L):
            e0, e1 = pts[i], pts[(i + 1) % L]
            d = e1 - e0
            t = np.clip(np.dot(p - e0, d) / np.dot(d, d), 0, 1)
            best = min(best, float(np.linalg.norm(p - (e0 + t * d))))
    return best


def run_bounded(chk):
    cox = real_coxeter()
    fkey = "coxeter.shapes.polyhedron::Polyhedron.is_inside / convex_spheropolyhedron::ConvexSpheropolyhedron.is_inside"
    chk.functions.setdefault(fkey, {"sha": "-", "paths": 0, "lines": 0, "bounded_only": True})
    n_eval = n_bad = n_cases = 0
    fails = []
    grid = [x / 2 for x in range(-2, 9)]
    for name, cells in B2.voxel_solids().items():
        verts, faces = B2.voxel_mesh(cells)
        hi = np.max(np.asarray(verts), axis=0)
        pts = [p for p in itertools.product(*[[g for g in grid if -1 <= g <= hi[i] + 1] for i in range(3)])]
        labels = [voxel_membership(p, cells) for p in pts]
        keep = [(p, l) for p, l in zip(pts, labels) if l != 0]
        P = np.array([k[0] for k in keep], dtype=float)
        want = np.array([k[1] > 0 for k in keep])
        for pname, R, t in corpus.placements()[:3 if chk.bounded_tier == "quick" else 4]:
            n_cases += 1
            Rf = np.array([[float(x) for x in row] for row in R])
            V = np.asarray(verts) @ Rf.T + np.asarray(t, float)
            Pp = P @ Rf.T + np.asarray(t, float)
            poly = cox.shapes.Polyhedron(V, [list(f) for f in faces])
            try:
                got = np.asarray(poly.is_inside(Pp))
            except Exception as e:  # noqa: BLE001
                fails.append((f"{name}/{pname}", {"exception": f"{type(e).__name__}: {e}"}))
                continue
            n_eval += len(Pp)
            bad = np.nonzero(got != want)[0]
            if got.shape != want.shape:
                fails.append((f"{name}/{pname}", {"result_shape": list(got.shape), "points": len(Pp)}))
            elif len(bad):
                i = int(bad[0])
                fails.append((f"{name}/{pname}", {"vertices": V.tolist(), "faces": [list(map(int, f)) for f in faces],
                                                 "point": Pp[i].tolist(), "expected_inside": bool(want[i]), "is_inside": bool(got[i]),
                                                 "n_wrong": int(len(bad))}))
            else:
                # single-point calls and a (3,) input agree with the batch
                for i in (0, len(Pp) // 2, len(Pp) - 1):
                    a = np.asarray(poly.is_inside(Pp[i])).reshape(-1)
                    b = np.asarray(poly.is_inside(Pp[i:i + 1])).reshape(-1)
                    n_eval += 2
                    if len(a) != 1 or len(b) != 1 or bool(a[0]) != bool(want[i]) or bool(b[0]) != bool(want[i]):
                        fails.append((f"{name}/{pname}/single", {"point": Pp[i].tolist(), "expected_inside": bool(want[i]),
                                                                "single": a.tolist(), "batch_of_one": b.tolist()}))
                        break
    # spheropolyhedron: distance to the core <= r
    rng = np.random.default_rng(chk.seed)
    cores = list(corpus.named_convex().items())[:6 if chk.bounded_tier == "quick" else 20]
    # sharp cores: narrow spikes (with a small facet cut near the apex) expose shortcuts that only look at one face
    spike = [[0.0, 0, 0], [1.0, 0, 0], [0.4, 0.9, 0], [0.45, 0.3, 3.0]]
    cut = spike[:3] + [[0.45 + 0.02, 0.3, 2.9], [0.45 - 0.02, 0.3 + 0.03, 2.9], [0.45, 0.3 - 0.03, 2.85], [0.45, 0.3, 2.97]]
    wedge = [[0.0, 0, 0], [2.0, 0, 0], [0, 0.2, 0], [2.0, 0.2, 0], [0.0, 0.1, 1.5], [2.0, 0.1, 1.5]]
    cores += [("spike", spike), ("chamfered_spike", cut), ("thin_wedge", wedge)]
    for cname, pts in cores:
        v = np.asarray(pts, float) + np.array([3.0, -1.0, 2.0])
        faces = oracle.hull_facets(pts)
        size = float(np.ptp(v, axis=0).max())
        for r in (0.0, 0.05 * size, 0.5 * size):
            n_cases += 1
            sp_ = cox.shapes.ConvexSpheropolyhedron(v, r)
            c = v.mean(axis=0)
            Pq = c + rng.uniform(-1.6, 1.6, size=(300, 3)) * (np.ptp(v, axis=0) + 2 * r)
            if r > 0:
                # points just inside / outside the rounded vertices and edges: vertex + t * (direction away from the centre + noise)
                extra = []
                for vert in v:
                    d0 = vert - c
                    d0 /= np.linalg.norm(d0)
                    for _ in range(12):
                        u = d0 + 0.6 * rng.normal(size=3)
                        u /= np.linalg.norm(u)
                        for tt in (0.5, 0.93, 1.07):
                            extra.append(vert + tt * r * u)
                Pq = np.vstack([Pq, np.array(extra)])
            want = []
            keep = []
            for p in Pq:
                d = dist_to_convex(p, v, faces)
                if abs(d - r) < 1e-6 * max(size, 1.0) or (r == 0 and d < 1e-6 * size and _near_boundary(p, v, faces, size)):
                    continue
                keep.append(p)
                want.append(d <= r)
            keep = np.array(keep)
            got = np.asarray(sp_.is_inside(keep))
            n_eval += len(keep)
            bad = np.nonzero(got != np.array(want))[0]
            if len(bad):
                i = int(bad[0])
                fails.append((f"sphero:{cname}/r={r:.3g}", {"vertices": v.tolist(), "radius": r, "point": keep[i].tolist(),
                                                             "distance_to_core": dist_to_convex(keep[i], v, faces),
                                                             "expected_inside": bool(want[i]), "is_inside": bool(got[i])}))
    # the same object after public moves / resizes (probe points are affine combinations of the current vertices)
    from . import stale

    def probes_inside(shape):
        v = np.asarray(shape.vertices, float)
        c = v.mean(axis=0)
        lam = (0.05, 0.35, 0.8, 1.3, 2.2)
        pts = np.array([c + l_ * (v[i] - c) for i in range(0, len(v), max(1, len(v) // 6)) for l_ in lam])
        return {"is_inside(batch)": np.asarray(shape.is_inside(pts)), "is_inside(single)": [bool(np.asarray(shape.is_inside(q)).reshape(-1)[0]) for q in pts[:4]]}
    verts, faces = B2.voxel_mesh(B2.voxel_solids()["U7"])
    subjects = [("Polyhedron:U7", cox.shapes.Polyhedron(np.asarray(verts, float) + np.array([2.0, 1.0, -3.0]), [list(f) for f in faces])),
                ("ConvexPolyhedron:box", cox.shapes.ConvexPolyhedron(np.asarray(corpus.named_convex()["box"]) + np.array([2.0, 1.0, -3.0]))),
                ("ConvexSpheropolyhedron:box", cox.shapes.ConvexSpheropolyhedron(np.asarray(corpus.named_convex()["box"]) + np.array([2.0, 1.0, -3.0]), 0.3)),
                ("Sphere", cox.shapes.Sphere(1.5, (1.0, 2.0, 3.0))), ("Ellipsoid", cox.shapes.Ellipsoid(1.0, 2.0, 0.5, (1.0, 2.0, 3.0)))]
    for label, obj in subjects:
        if not hasattr(obj, "vertices"):
            continue
        n_cases += 1
        n_eval += stale.read_mutate_read(obj, probes_inside, f"history:{label}", fails)
    # batch sizes up to the 2000 the property names (and past powers of two / 1024-blocks): the batch answer must be, element by
    # element and in input order, what small batches and single-point calls answer
    rng = np.random.RandomState(5)
    def shape_of(nm):
        return cox.shapes.ConvexPolyhedron(np.asarray(corpus.named_convex()[nm], float) + np.array([2.0, 1.0, -3.0]))
    big = {"ConvexPolyhedron": shape_of("box"),
           "Polyhedron": cox.shapes.Polyhedron(np.asarray(verts, float), [list(f) for f in faces]),
           "Sphere": cox.shapes.Sphere(1.7, (1.0, -2.0, 0.5)), "Ellipsoid": cox.shapes.Ellipsoid(2.0, 1.0, 0.6, (1.0, -2.0, 0.5)),
           "ConvexSpheropolyhedron": cox.shapes.ConvexSpheropolyhedron(np.asarray(shape_of("box").vertices), 0.3)}
    sizes = (1, 2, 1023, 1024, 1025, 1500, 2000, 2049) if chk.bounded_tier == "quick" else (1, 2, 3, 255, 256, 257, 1023, 1024, 1025, 1500, 2000, 2047, 2048, 2049, 4099)
    for cname, shp in big.items():
        V = np.asarray(shp.vertices if hasattr(shp, "vertices") else np.array([np.asarray(shp.centroid) - 2.5, np.asarray(shp.centroid) + 2.5]), float)
        lo, hi = V.min(axis=0) - 0.4, V.max(axis=0) + 0.4
        for nb in sizes:
            if cname == "Polyhedron" and nb > 1100 and chk.bounded_tier == "quick" and nb not in (1500, 2049):
                continue
            pts = lo + rng.rand(nb, 3) * (hi - lo)
            n_cases += 1
            try:
                got = np.asarray(shp.is_inside(pts if nb > 1 else pts))
                ref = np.concatenate([np.asarray(shp.is_inside(pts[i:i + 37])).reshape(-1) for i in range(0, nb, 37)])
                ones = [bool(np.asarray(shp.is_inside(pts[i])).reshape(-1)[0]) for i in sorted({0, nb - 1, nb // 2, min(nb - 1, 1024), max(0, nb - 13)})]
            except Exception as e:  # noqa: BLE001
                fails.append((f"batch:{cname}/n={nb}", {"exception": f"{type(e).__name__}: {e}"[:200]}))
                continue
            n_eval += nb
            idx = sorted({0, nb - 1, nb // 2, min(nb - 1, 1024), max(0, nb - 13)})
            if got.shape != (nb,):
                fails.append((f"batch:{cname}/n={nb}", {"result_shape": list(got.shape), "points": nb}))
            elif np.any(got != ref) or any(bool(got[i]) != o for i, o in zip(idx, ones)):
                badi = int(np.nonzero(got != ref)[0][0]) if np.any(got != ref) else next(i for i, o in zip(idx, ones) if bool(got[i]) != o)
                fails.append((f"batch:{cname}/n={nb}", {"class": cname, "batch_size": nb, "index": badi, "point": pts[badi].tolist(),
                                                        "in_the_batch": bool(got[badi]), "in_a_small_batch": bool(ref[badi]),
                                                        "differing_entries": int(np.sum(got != ref))}))
    # lattice solids with slanted faces (pyramid, octahedron, wedge) as general Polyhedron, half-integer grid incl. points straight above
    # vertices and on the vertical planes through edges (the corpus of the deductive clauses' replay)
    from .c05_winding import replay_winding
    hit, info_w = replay_winding()({})
    n_cases += 1
    if hit:
        fails.append((f"lattice:{info_w.get('solid', '?')}", info_w))
    for name, info in fails[:5]:
        n_bad += 1
        chk.record(f"bounded:is_inside_3d[{name}]", fkey, "bounded-fail", "exact-membership", detail=str(info)[:500], model={},
                   kind="bounded", replay=lambda m, info=info, name=name: (True, {"case": name, **info}))
    if not fails:
        chk.record("bounded:is_inside_3d", fkey, "bounded-pass", "exact-membership", kind="bounded", detail=f"{n_eval} points")
    chk.bounded.append({
        "clause": "Polyhedron.is_inside == exact membership in the union of cubes (voxel solids incl. non-star-shaped and genus 1), "
                  "batch == single-point calls, (3,) accepted; ConvexSpheropolyhedron.is_inside == (distance to core <= r)",
        "bound": "8 voxel solids x 3 (quick) / 4 placements x all points of a half-integer grid of the bounding box +-1 that are "
                 "not on the boundary (these share coordinates with vertices); 6 (quick) / 20 convex cores x radii {0, 5%, 50% of size} "
                 "x 300 seeded points, margin 1e-6 size; 3 objects read, then moved / resized / reoriented through their public mutators "
                 "and re-read against a fresh construction; 3 lattice solids with slanted faces x 2 placements on a half-integer grid; batches of 1 .. 2049 (quick) / 4099 points on the five classes against batches of 37 and single-point calls",
        "evaluations": n_eval, "distinct_nontrivial": n_cases,
        "rule": "distinct = (solid, placement) or (core, radius); every case has interior and exterior points",
        "samples": [{"solid": "U7", "example_point": [1.0, 0.5, 0.5]}], "failures": len(fails), "exhaustive": False})


def _near_boundary(p, v, faces, size):
    worst = -np.inf
    for f in faces:
        a, b, c = v[f[0]], v[f[1]], v[f[2]]
        n = np.cross(b - a, c - a)
        n /= np.linalg.norm(n)
        worst = max(worst, float(np.dot(n, p - a)))
    return abs(worst) < 1e-6 * size
