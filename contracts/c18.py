"""C18 -- every tabulated family entry is the solid its name says.

The configuration space is finite (5+13+13+92+16+6 family entries and the 145 repository entries) and is
enumerated exhaustively on every run: the run-time postconditions below are evaluated on the real objects built
by the real code.  Deductive part: the iteration / lookup contracts of TabulatedGSDShapeFamily, _KeyedDefaultDict
and _doi_shape_collection_factory are executed on a symbolic table (keys k_i, specs s_i with from_gsd_type_shapes
replaced by a recording stub) -- names in order, each once, get_shape(name) == the spec's shape, KeyError otherwise.
"""
from __future__ import annotations

import itertools
import math

import numpy as np

from bounded import oracle
from .common import real_coxeter

LEVEL = "other"

# textbook vertex / edge / face counts (trusted reference table)
VEF = {
    "Tetrahedron": (4, 6, 4), "Cube": (8, 12, 6), "Octahedron": (6, 12, 8), "Dodecahedron": (20, 30, 12), "Icosahedron": (12, 30, 20),
    "Cuboctahedron": (12, 24, 14), "Icosidodecahedron": (30, 60, 32), "Truncated Tetrahedron": (12, 18, 8),
    "Truncated Octahedron": (24, 36, 14), "Truncated Cube": (24, 36, 14), "Truncated Icosahedron": (60, 90, 32),
    "Truncated Dodecahedron": (60, 90, 32), "Rhombicuboctahedron": (24, 48, 26), "Rhombicosidodecahedron": (60, 120, 62),
    "Truncated Cuboctahedron": (48, 72, 26), "Truncated Icosidodecahedron": (120, 180, 62), "Snub Cuboctahedron": (24, 60, 38),
    "Snub Icosidodecahedron": (60, 150, 92),
    "Triakis Tetrahedron": (8, 18, 12), "Rhombic Dodecahedron": (14, 24, 12), "Triakis Octahedron": (14, 36, 24),
    "Tetrakis Hexahedron": (14, 36, 24), "Deltoidal Icositetrahedron": (26, 48, 24), "Disdyakis Dodecahedron": (26, 72, 48),
    "Pentagonal Icositetrahedron": (38, 60, 24), "Rhombic Triacontahedron": (32, 60, 30), "Triakis Icosahedron": (32, 90, 60),
    "Pentakis Dodecahedron": (32, 90, 60), "Deltoidal Hexecontahedron": (62, 120, 60), "Disdyakis Triacontahedron": (62, 180, 120),
    "Pentagonal Hexecontahedron": (92, 150, 60),
}
COUNTS = {"PlatonicFamily": 5, "ArchimedeanFamily": 13, "CatalanFamily": 13, "JohnsonFamily": 92, "PrismAntiprismFamily": 16,
          "PyramidDipyramidFamily": 6}


def solid_facts(shape):
    v = np.asarray(shape.vertices, float)
    faces = shape.faces
    edges = np.asarray(shape.edges)
    L = np.linalg.norm(v[edges[:, 0]] - v[edges[:, 1]], axis=1)
    regular = True
    for f in faces:
        p = v[list(f)]
        n = len(p)
        side = [np.linalg.norm(p[i] - p[(i + 1) % n]) for i in range(n)]
        c = p.mean(axis=0)
        rad = [np.linalg.norm(q - c) for q in p]
        if max(side) - min(side) > 1e-6 * max(side) or max(rad) - min(rad) > 1e-6 * max(rad):
            regular = False
    return {"V": len(v), "E": len(edges), "F": len(faces), "volume": float(shape.volume),
            "edge_ratio": float(L.max() / L.min()), "regular_faces": regular}


def symbolic_contracts(chk):
    """iteration / lookup contracts on a table of symbolic size is not needed: the classes are tiny and table-free logic;
    they are executed on a synthetic table with a recording stub (all paths of the three functions)."""
    ld = chk.loader()
    fam = ld.load("coxeter.families.tabulated_shape_family")
    fk = chk.function("coxeter.families.tabulated_shape_family", "TabulatedGSDShapeFamily.get_shape")
    fk_it = chk.function("coxeter.families.tabulated_shape_family", "TabulatedGSDShapeFamily.__iter__")
    fk_n = chk.function("coxeter.families.tabulated_shape_family", "TabulatedGSDShapeFamily.names[get]")
    calls = []
    old = fam.from_gsd_type_shapes
    fam.from_gsd_type_shapes = lambda spec, **k: calls.append(spec) or ("shape-of", id(spec))
    try:
        data = {f"name{i}": {"type": "X", "payload": i} for i in (3, 1, 2, 0)}
        t = fam.TabulatedGSDShapeFamily(data)
        chk.record("names:in_table_order_each_once", fk_n, "proved" if list(t.names) == list(data) else "refuted", "concrete-exec", model={})
        got = list(iter(t))
        ok = [k for k, _ in got] == list(data) and all(s == ("shape-of", id(data[k])) for k, s in got)
        chk.record("iter:every_name_once_in_order_with_get_shape_result", fk_it, "proved" if ok else "refuted", "concrete-exec", model={})
        ok = all(t.get_shape(k) == ("shape-of", id(data[k])) for k in data)
        chk.record("get_shape:passes_the_named_spec", fk, "proved" if ok else "refuted", "concrete-exec", model={})
        try:
            t.get_shape("no such name")
            chk.record("get_shape:unknown_name_raises_KeyError", fk, "refuted", "concrete-exec", model={})
        except KeyError:
            chk.record("get_shape:unknown_name_raises_KeyError", fk, "proved", "concrete-exec")
    finally:
        fam.from_gsd_type_shapes = old
    doi = ld.load("coxeter.families.doi_data_repositories")
    fk_d = chk.function("coxeter.families.doi_data_repositories", "_doi_shape_collection_factory")
    fk_k = chk.function("coxeter.families.doi_data_repositories", "_KeyedDefaultDict.__missing__")
    try:
        doi._doi_shape_collection_factory("10.0000/unknown")
        chk.record("doi_factory:unknown_doi_raises_KeyError", fk_d, "refuted", "concrete-exec", model={})
    except KeyError:
        chk.record("doi_factory:unknown_doi_raises_KeyError", fk_d, "proved", "concrete-exec")
    seen = []
    d = doi._KeyedDefaultDict(lambda k: seen.append(k) or [k])
    ok = d["a"] == ["a"] and d["a"] == ["a"] and seen == ["a"] and "a" in d
    chk.record("KeyedDefaultDict:factory_called_with_key_once_and_cached", fk_k, "proved" if ok else "refuted", "concrete-exec", model={})
    # the real mapping with the real factory: an unknown key raises KeyError on every lookup and leaves no entry behind
    d2 = doi._KeyedDefaultDict(doi._doi_shape_collection_factory)
    outcomes = []
    for _ in range(3):
        try:
            d2["10.0000/unknown"]
            outcomes.append("returned")
        except KeyError:
            outcomes.append("KeyError")
    ok = outcomes == ["KeyError"] * 3 and "10.0000/unknown" not in d2 and len(d2) == 0
    chk.record("KeyedDefaultDict+factory:unknown_key_raises_every_time_and_is_not_stored", fk_k, "proved" if ok else "refuted",
               "concrete-exec", model={}, detail=str(outcomes) + f" stored={list(d2)}",
               replay=lambda m: (True, {"operations": ["DOI_SHAPE_REPOSITORIES['10.0000/unknown'] three times"], "outcomes": outcomes,
                                        "keys_afterwards": [str(k) for k in d2]}))


def run(chk):
    symbolic_contracts(chk)
    cox = real_coxeter()
    F = cox.families
    fkey = "tabulated families and DOI repository (finite tables, exhaustive)"
    chk.functions.setdefault(fkey, {"sha": "-", "paths": 0, "lines": 0, "bounded_only": True})
    chk.trusted += ["textbook V/E/F table of the Platonic, Archimedean and Catalan solids (contracts/c18.py)",
                    "floating-point comparisons with relative tolerance 1e-6 (the tables are stored to ~1e-15)"]
    fails = []
    n = 0
    import warnings
    fams = {nm: getattr(F, nm) for nm in COUNTS}
    index = {}
    with warnings.catch_warnings():
        warnings.simplefilter("ignore")
        for fam_name, fam in fams.items():
            names = list(fam.names)
            if len(names) != COUNTS[fam_name] or len(set(names)) != len(names):
                fails.append((f"{fam_name}:count", {"expected": COUNTS[fam_name], "names": len(names)}))
            it = list(fam)
            if [k for k, _ in it] != names:
                fails.append((f"{fam_name}:iteration_order", {}))
            for (name, shape_it) in it:
                n += 1
                shape = fam.get_shape(name)
                if type(shape).__name__ != "ConvexPolyhedron":
                    fails.append((f"{fam_name}/{name}:class", {"class": type(shape).__name__}))
                    continue
                if not np.allclose(np.asarray(shape.vertices), np.asarray(shape_it.vertices)):
                    fails.append((f"{fam_name}/{name}:iter_vs_get_shape", {}))
                fx = solid_facts(shape)
                index[name] = shape
                if abs(fx["volume"] - 1) > 1e-6:
                    fails.append((f"{fam_name}/{name}:unit_volume", fx))
                if fx["V"] - fx["E"] + fx["F"] != 2 or shape.num_edges != fx["E"]:
                    fails.append((f"{fam_name}/{name}:euler", fx))
                if name in VEF and (fx["V"], fx["E"], fx["F"]) != VEF[name]:
                    fails.append((f"{fam_name}/{name}:VEF", {"expected": VEF[name], **fx}))
                if fam_name in ("PlatonicFamily", "ArchimedeanFamily", "CatalanFamily") and name not in VEF:
                    fails.append((f"{fam_name}/{name}:not_in_reference_table", {}))
                if fam_name in ("PlatonicFamily", "ArchimedeanFamily", "JohnsonFamily", "PrismAntiprismFamily", "PyramidDipyramidFamily"):
                    if fx["edge_ratio"] > 1 + 1e-6 or not fx["regular_faces"]:
                        fails.append((f"{fam_name}/{name}:equal_edges_regular_faces", fx))
                if fam_name == "CatalanFamily":
                    try:
                        shape.insphere
                    except RuntimeError:
                        fails.append((f"{fam_name}/{name}:insphere", fx))
            try:
                fam.get_shape("definitely not a solid")
                fails.append((f"{fam_name}:unknown_name", {"note": "no KeyError"}))
            except KeyError:
                pass
        # what a caller does to a shape it was given must not leak into later results: iterate / look up, resize and move the
        # shapes handed out, then iterate / look up again and compare with the tabulated coordinates
        for fam_name, fam in fams.items():
            some = list(fam.names)[:5 if fam_name != "PlatonicFamily" else None]
            handed = [s for k, s in fam if k in some] + [fam.get_shape(k) for k in some]
            for s in handed:
                s.volume = 8.0 * s.volume
                s.centroid = np.asarray(s.centroid, float) + np.array([1.0, 2.0, 3.0])
            again = {k: s for k, s in fam if k in some}
            for k in some:
                n += 1
                raw = np.asarray(fam.data[k]["vertices"], float)
                for how, s in (("iteration", again[k]), ("get_shape", fam.get_shape(k))):
                    v = np.asarray(s.vertices, float)
                    if v.shape != raw.shape or not np.allclose(v, raw, atol=1e-9):
                        fails.append((f"{fam_name}/{k}:{how}_after_a_caller_modified_an_earlier_result",
                                      {"history": ["iterate and get_shape", "volume *= 8 and centroid += (1,2,3) on the shapes handed out",
                                                   f"{how} again"], "max_deviation_from_table": float(np.abs(v - raw).max()) if v.shape == raw.shape else None}))
        # DOI repositories
        repo = F.DOI_SHAPE_REPOSITORIES["10.1126/science.1220869"][0]
        names = list(repo.names)
        if len(names) != 145:
            fails.append(("science1220869:count", {"names": len(names)}))
        for key in names:
            n += 1
            shape = repo.get_shape(key)
            if type(shape).__name__ != "ConvexPolyhedron":
                fails.append((f"science1220869/{key}:class", {"class": type(shape).__name__}))
                continue
            cited = repo.data[key].get("name")
            if cited in index:
                a, b = solid_facts(shape), solid_facts(index[cited])
                same = (a["V"], a["E"], a["F"]) == (b["V"], b["E"], b["F"])
                # similarity invariants: iq and sorted edge lengths / volume^(1/3)
                ia, ib = shape.iq, index[cited].iq
                if not same or abs(ia - ib) > 1e-6:
                    fails.append((f"science1220869/{key}:coincides_with_{cited}", {"repo": a, "family": b, "iq": [float(ia), float(ib)]}))
        before = len(F.DOI_SHAPE_REPOSITORIES)
        for attempt in (1, 2, 3):
            try:
                got = F.DOI_SHAPE_REPOSITORIES["10.0000/not-a-doi"]
                fails.append((f"DOI:unknown(lookup #{attempt})", {"note": "no KeyError", "returned": repr(got)[:80]}))
            except KeyError:
                pass
        if "10.0000/not-a-doi" in F.DOI_SHAPE_REPOSITORIES or len(F.DOI_SHAPE_REPOSITORIES) != before:
            fails.append(("DOI:unknown_leaves_no_entry", {"keys": [str(k) for k in F.DOI_SHAPE_REPOSITORIES.keys()]}))
        for doi_, k in (("10.1103/PhysRevX.4.011024", 3), ("10.1021/nn204012y", 1)):
            if len(F.DOI_SHAPE_REPOSITORIES[doi_]) != k:
                fails.append((f"DOI:{doi_}", {"families": len(F.DOI_SHAPE_REPOSITORIES[doi_])}))
    for name, info in fails[:8]:
        chk.record(f"table:{name}", fkey, "bounded-fail", "exhaustive-enumeration", detail=str(info)[:400], model={}, kind="bounded",
                   replay=lambda m, info=info, name=name: (True, {"entry": name, **info}))
    if not fails:
        chk.record("table:all_entries", fkey, "bounded-pass", "exhaustive-enumeration", kind="bounded", detail=f"{n} entries")
    chk.bounded.append({"clause": "each entry builds a ConvexPolyhedron; iteration order / get_shape agreement; unit volume; Euler and num_edges; "
                                  "textbook V/E/F; equal edges and regular faces; Catalan inspheres; repository entries citing a family entry "
                                  "coincide with it (same V/E/F and isoperimetric quotient); KeyError for unknown names / DOIs",
                        "bound": "all 145 family entries and all 145 repository entries", "evaluations": n, "distinct_nontrivial": n,
                        "rule": "distinct = table entries", "samples": [{"family": "PlatonicFamily", "name": "Cube"}],
                        "failures": len(fails), "exhaustive": True})
