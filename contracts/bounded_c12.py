"""Bounded stand-in for C12: form factor amplitudes against an independent high-order quadrature of
density * integral exp(-i q.r) over the solid (signed tetrahedral fan) / polygon (fan triangles)."""
from __future__ import annotations

import math

import numpy as np

from bounded import corpus, oracle
from .common import real_coxeter
from . import bounded_c02 as B2

_GL = {}


def gauss(n):
    if n not in _GL:
        x, w = np.polynomial.legendre.leggauss(n)
        _GL[n] = ((x + 1) / 2, w / 2)
    return _GL[n]


def ft_tet(q, a, b, c, n=44):
    """integral over tet(0; a, b, c) of exp(-i q.r), signed (det(a,b,c) sign), Duffy-transformed Gauss-Legendre"""
    x, w = gauss(n)
    U, V, W = np.meshgrid(x, x, x, indexing="ij")
    wu, wv, ww = np.meshgrid(w, w, w, indexing="ij")
    # r = U*(a + V*((b-a) + W*(c-b)))   maps the cube onto the tetrahedron with Jacobian det(a,b,c) * U^2 * V
    qa, qb, qc = np.dot(q, a), np.dot(q, b), np.dot(q, c)
    phase = U * (qa + V * ((qb - qa) + W * (qc - qb)))
    jac = U**2 * V
    det = float(np.dot(a, np.cross(b, c)))
    return det * np.sum(wu * wv * ww * jac * np.exp(-1j * phase))


def ft_mesh(q, P, tris):
    return sum(ft_tet(q, P[i], P[j], P[k]) for i, j, k in tris)


def ft_triangle2(q2, a, b, c, n=48):
    """integral over the planar triangle (a,b,c) (2-D coordinates) of exp(-i q2.r) dA, signed"""
    x, w = gauss(n)
    U, V = np.meshgrid(x, x, indexing="ij")
    wu, wv = np.meshgrid(w, w, indexing="ij")
    ea, eb = b - a, c - b
    # r = a + U*(ea + V*eb), Jacobian cross(ea, eb) * U
    ph = np.dot(q2, a) + U * (np.dot(q2, ea) + V * np.dot(q2, eb))
    det = float(ea[0] * eb[1] - ea[1] * eb[0])
    return det * np.sum(wu * wv * U * np.exp(-1j * ph))


def q_set(size, normals, edge_dirs, rng, tier):
    qs = [np.zeros(3)]
    mags = [1e-3, 0.1, 1.0, 5.0, 30.0]
    dirs = [np.array([1.0, 0, 0]), np.array([0, 1.0, 0]), np.array([0, 0, 1.0])]
    dirs += [n / np.linalg.norm(n) for n in normals[:3]]
    for e in edge_dirs[:2]:
        # a direction perpendicular to an edge
        t = np.cross(e, np.array([0.3, -0.5, 0.8]))
        dirs.append(t / np.linalg.norm(t))
    for _ in range(2 if tier == "quick" else 8):
        v = rng.normal(size=3)
        dirs.append(v / np.linalg.norm(v))
    for d in dirs:
        for m in (mags if tier != "quick" else [1e-3, 1.0, 30.0]):
            qs.append(d * m / size)
    return np.array(qs)


def run_bounded(chk):
    cox = real_coxeter()
    fkey = "compute_form_factor_amplitude of Sphere / Polygon / Polyhedron / ConvexPolyhedron end-to-end"
    chk.functions.setdefault(fkey, {"sha": "-", "paths": 0, "lines": 0, "bounded_only": True})
    rng = np.random.default_rng(chk.seed)
    fails = []
    n_eval = n_cases = 0

    def compare(tag, shape, Q, exact, density, scale, info):
        nonlocal n_eval
        try:
            got = np.asarray(shape.compute_form_factor_amplitude(Q, density=density))
        except Exception as e:  # noqa: BLE001
            fails.append((tag, {**info, "q": Q.tolist()[:4], "n_q": len(Q), "exception": f"{type(e).__name__}: {e}"}))
            return
        n_eval += len(Q)
        if got.shape != (len(Q),):
            fails.append((tag, {**info, "n_q": len(Q), "result_shape": list(got.shape)}))
            return
        err = np.abs(got - exact)
        bad = np.nonzero(err > 1e-7 * scale * max(1.0, abs(float(density))))[0]     # relative to density * measure
        if len(bad):
            i = int(bad[0])
            fails.append((tag, {**info, "q": Q[i].tolist(), "density": density, "observed": [got[i].real, got[i].imag],
                                "expected": [exact[i].real, exact[i].imag]}))

    # ---- polyhedra
    solids = []
    named = corpus.named_convex()
    for name in ("cube", "skew_tet", "chiral5", "prism5") if chk.bounded_tier == "quick" else list(named)[:10]:
        pts = np.asarray(named[name], float) + np.array([0.7, -0.4, 1.1])
        faces = oracle.hull_facets(named[name])
        solids.append((f"convex:{name}", "ConvexPolyhedron", pts, faces))
        solids.append((f"mesh:{name}", "Polyhedron", pts, faces))
    for name in ("U7", "frame8") if chk.bounded_tier == "quick" else ("U7", "C5", "frame8", "stairs"):
        verts, faces = B2.voxel_mesh(B2.voxel_solids()[name])
        solids.append((f"voxel:{name}", "Polyhedron", np.asarray(verts, float) - 0.3, faces))
    for tag, klass, P, faces in solids:
        n_cases += 1
        shape = cox.shapes.ConvexPolyhedron(P) if klass == "ConvexPolyhedron" else cox.shapes.Polyhedron(P, [list(f) for f in faces])
        tris = oracle.fan_triangles(faces)
        size = float(np.ptp(P, axis=0).max())
        normals = []
        for f in faces:
            a, b, c = P[f[0]], P[f[1]], P[f[2]]
            normals.append(np.cross(b - a, c - a))
        edges = [P[f[1]] - P[f[0]] for f in faces]
        Q = q_set(size, normals, edges, rng, chk.bounded_tier)
        exact1 = np.array([ft_mesh(q, P, tris) for q in Q])
        vol = abs(float(oracle.mesh_measures(P.tolist(), tris)[0]))
        for density in (1.0, 2.5):
            compare(f"{tag}/density={density}", shape, Q, density * exact1, density, vol, {"class": klass, "vertices": P.tolist(),
                                                                                         "faces": [list(map(int, f)) for f in faces]})
        # batches of every small size incl. a single vector, a single non-zero q, mixed zero / generic
        for idx in ([1], [0], [0, 1], [0, 1, 2], [3], [0, 0, 4]):
            compare(f"{tag}/batch{idx}", shape, Q[idx], exact1[idx], 1.0, vol, {"class": klass, "vertices": P.tolist(),
                                                                                "faces": [list(map(int, f)) for f in faces]})
        # translation phase
        tvec = np.array([2.0, -1.0, 0.5]) * size
        moved = cox.shapes.ConvexPolyhedron(P + tvec) if klass == "ConvexPolyhedron" else cox.shapes.Polyhedron(P + tvec, [list(f) for f in faces])
        compare(f"{tag}/translated", moved, Q, exact1 * np.exp(-1j * Q @ tvec), 1.0, vol, {"class": klass, "vertices": (P + tvec).tolist()})
    # ---- polygons (q projected into the plane), both orientations, tilted plane
    for pname in ("triangle", "L", "arrow", "quad_irregular"):
        pts2 = np.array([[float(x), float(y)] for x, y in corpus.polygons_2d()[pname]])
        listings = []
        for orient in (1, -1):
            base_l = pts2 if orient == 1 else pts2[::-1]
            # every cyclic start of the vertex list (the first corner may then be a reflex one)
            for k in range(len(base_l) if pname in ("L", "arrow") else 1):
                listings.append((orient, k, np.roll(base_l, -k, axis=0)))
        for orient, start, p2 in listings:
            for place, R, t in (corpus.placements()[:3] if start == 0 else corpus.placements()[2:3]):
                n_cases += 1
                Rf = np.array([[float(x) for x in row] for row in R])
                P3 = np.hstack([p2, np.zeros((len(p2), 1))]) @ Rf.T + np.asarray(t, float)
                nrm = Rf[:, 2]
                shape = cox.shapes.Polygon(P3, normal=nrm)
                size = float(np.ptp(pts2, axis=0).max())
                Q = q_set(size, [nrm], [P3[1] - P3[0]], rng, chk.bounded_tier)
                e1, e2 = Rf[:, 0], Rf[:, 1]
                A = abs(float(oracle.polygon_measures_2d(pts2.tolist())[0]))
                ccw = pts2            # the region does not depend on the listing order
                exact = []
                for q in Q:
                    qpar = q - np.dot(q, nrm) * nrm
                    q2 = np.array([np.dot(qpar, e1), np.dot(qpar, e2)])
                    val = sum(ft_triangle2(q2, ccw[0], ccw[k], ccw[k + 1]) for k in range(1, len(ccw) - 1))
                    # in-plane origin: the foot point of t; phase of the plane offset uses the projected q only
                    exact.append(val * np.exp(-1j * np.dot(qpar, np.asarray(t, float))))
                exact = np.array(exact)
                s = 1.0 if float(oracle.polygon_measures_2d(pts2.tolist())[0]) > 0 else -1.0
                compare(f"polygon:{pname}/{'ccw' if orient == 1 else 'cw'}/start{start}/{place}", shape, Q, s * exact, 1.0, A,
                        {"class": "Polygon", "vertices": P3.tolist(), "normal": nrm.tolist()})
                compare(f"polygon:{pname}/{'ccw' if orient == 1 else 'cw'}/start{start}/{place}/single", shape, Q[1:2], s * exact[1:2], 1.0, A,
                        {"class": "Polygon", "vertices": P3.tolist(), "normal": nrm.tolist()})
    # ---- sphere
    for R_, c in ((1.3, (0, 0, 0)), (0.4, (2.0, -1.0, 0.5))):
        n_cases += 1
        shape = cox.shapes.Sphere(R_, c)
        Q = q_set(R_, [np.array([0, 0, 1.0])], [np.array([1.0, 0, 0])], rng, chk.bounded_tier)
        qn = np.linalg.norm(Q, axis=1)
        with np.errstate(all="ignore"):
            ex = np.where(qn < 1e-12, 4 / 3 * math.pi * R_**3, 4 * math.pi * (np.sin(qn * R_) - qn * R_ * np.cos(qn * R_)) / np.where(qn < 1e-12, 1, qn)**3)
        ex = ex * np.exp(-1j * Q @ np.asarray(c, float))
        # the small-q branch of the closed form loses digits; use the series there
        small = (qn * R_ < 1e-2) & (qn > 1e-12)
        ex[small] = (4 / 3 * math.pi * R_**3 * (1 - (qn[small] * R_)**2 / 10)) * np.exp(-1j * Q[small] @ np.asarray(c, float))
        compare(f"sphere:R={R_}", shape, Q, ex, 1.0, 4 / 3 * math.pi * R_**3, {"class": "Sphere", "radius": R_, "center": list(c)})
    seen = set()
    # the same object: amplitudes read, then the shape is moved / resized through its public setters, then read again
    from . import stale
    Qh = np.array([[0.3, -0.2, 0.5], [2.0, 1.0, -1.5], [0.0, 0.0, 0.0], [1e-4, 0.0, 0.0]])

    def amp(s):
        return {"form_factor": np.asarray(s.compute_form_factor_amplitude(Qh.copy()))}
    polys2 = corpus.polygons_2d()
    subjects = [("Polygon:L", cox.shapes.Polygon([[float(x) + 1.0, float(y) - 2.0, 0.0] for x, y in polys2["L"]])),
                ("ConvexPolyhedron:box", cox.shapes.ConvexPolyhedron(np.asarray(corpus.named_convex()["box"]) + np.array([1.0, -2.0, 0.5]))),
                ("Sphere", cox.shapes.Sphere(1.3, (1.0, -2.0, 0.5)))]
    for label, obj in subjects:
        if not hasattr(obj, "vertices"):
            # curved shape: compare with a fresh sphere after moving the centre and changing the radius
            a0 = amp(obj)
            obj.centroid = np.array([2.0, 0.5, -1.0])
            obj.radius = 0.7
            n_eval += 1
            want = amp(cox.shapes.Sphere(0.7, (2.0, 0.5, -1.0)))
            if not np.allclose(amp(obj)["form_factor"], want["form_factor"], rtol=1e-9, atol=1e-12):
                fails.append((f"history:{label}", {"history": ["read", "centroid=(2,0.5,-1)", "radius=0.7", "read"],
                                                   "observed": [complex(z) for z in amp(obj)["form_factor"]],
                                                   "fresh_sphere": [complex(z) for z in want["form_factor"]]}))
            continue
        n_cases += 1
        n_eval += stale.read_mutate_read(obj, amp, f"history:{label}", fails)
    for name, info in fails:
        key = name.split("/")[0] + "|" + ("exception" if "exception" in info else "shape" if "result_shape" in info else "value") + "|" + name.split("/")[-1][:5]
        if key in seen or len(seen) >= 8:
            continue
        seen.add(key)
        chk.record(f"bounded:form_factor[{name}]", fkey, "bounded-fail", "quadrature-oracle", detail=str(info)[:600], model={}, kind="bounded",
                   replay=lambda m, info=info, name=name: (True, {"case": name, **info}))
    if not fails:
        chk.record("bounded:form_factor", fkey, "bounded-pass", "quadrature-oracle", kind="bounded", detail=f"{n_eval} wave vectors")
    chk.bounded.append({"clause": "F(q) == density * integral exp(-i q.r) (26^3 / 30^2-point Duffy-Gauss quadrature of the tetrahedral / triangle fan), "
                                  "for batches of every small size, both polygon orientations, translated copies (phase exp(-i q.t))",
                        "bound": "4 (quick) / 10 convex solids as ConvexPolyhedron and Polyhedron, 2 (quick) / 4 voxel solids, 4 polygons x 2 "
                                 "orientations x 3 placements, 2 spheres; |q| x size in {0, 1e-3, 1, 30} (quick) along axes, face normals, "
                                 "perpendicular to edges and random directions; densities {1, 2.5}; tolerance 1e-7 x measure",
                        "evaluations": n_eval, "distinct_nontrivial": n_cases, "rule": "distinct = (shape, placement, orientation)",
                        "samples": [{"shape": "voxel:U7", "q": [0.0, 0.0, 1.0]}], "failures": len(fails), "exhaustive": False})
