"""Bounded stand-in / replay source for C02: real Polyhedron on enumerated closed meshes against the exact oracle."""
from __future__ import annotations

import itertools

import numpy as np

from bounded import oracle, corpus
from .common import real_coxeter

TOL = 1e-9

CUBE_FACES = [  # outward, counter-clockwise seen from outside; corner index = 4x+2y+z of (x,y,z) in {0,1}^3
    ((0, 0, 0), (0, 0, 1), (0, 1, 1), (0, 1, 0)),   # -x
    ((1, 0, 0), (1, 1, 0), (1, 1, 1), (1, 0, 1)),   # +x
    ((0, 0, 0), (1, 0, 0), (1, 0, 1), (0, 0, 1)),   # -y
    ((0, 1, 0), (0, 1, 1), (1, 1, 1), (1, 1, 0)),   # +y
    ((0, 0, 0), (0, 1, 0), (1, 1, 0), (1, 0, 0)),   # -z
    ((0, 0, 1), (1, 0, 1), (1, 1, 1), (0, 1, 1)),   # +z
]
NEIGH = [(-1, 0, 0), (1, 0, 0), (0, -1, 0), (0, 1, 0), (0, 0, -1), (0, 0, 1)]


def voxel_mesh(cells):
    """closed outward-oriented quad mesh of a union of unit cubes (cells: set of integer triples)"""
    cells = set(cells)
    verts, index, faces = [], {}, []
    for c in sorted(cells):
        for f, d in zip(CUBE_FACES, NEIGH):
            if (c[0] + d[0], c[1] + d[1], c[2] + d[2]) in cells:
                continue
            face = []
            for corner in f:
                p = (c[0] + corner[0], c[1] + corner[1], c[2] + corner[2])
                if p not in index:
                    index[p] = len(verts)
                    verts.append([float(x) for x in p])
                face.append(index[p])
            faces.append(face)
    return verts, faces


def voxel_solids():
    out = {
        "cube": [(0, 0, 0)],
        "bar3": [(0, 0, 0), (1, 0, 0), (2, 0, 0)],
        "L3": [(0, 0, 0), (1, 0, 0), (0, 1, 0)],
        "U7": [(0, 0, 0), (1, 0, 0), (2, 0, 0), (0, 1, 0), (2, 1, 0), (0, 2, 0), (2, 2, 0)],
        "C5": [(0, 0, 0), (1, 0, 0), (0, 1, 0), (0, 2, 0), (1, 2, 0)],
        "frame8": [(x, y, 0) for x in range(3) for y in range(3) if (x, y) != (1, 1)],
        "stairs": [(0, 0, 0), (1, 0, 0), (1, 0, 1), (2, 0, 1), (2, 0, 2)],
        "T3d": [(0, 0, 0), (1, 0, 0), (2, 0, 0), (1, 1, 0), (1, 0, 1)],
    }
    return out


def extruded(poly2d, h=1.5):
    """prism over a simple counter-clockwise polygon; caps triangulated by an exact ear clipping of the oracle"""
    n = len(poly2d)
    verts = [[float(x), float(y), 0.0] for x, y in poly2d] + [[float(x), float(y), float(h)] for x, y in poly2d]
    faces = []
    for k in range(n):
        a, b = k, (k + 1) % n
        faces.append([a, b, b + n, a + n])
    tris = _ear_clip(poly2d)
    for (i, j, k) in tris:
        faces.append([i + n, j + n, k + n])        # top, ccw seen from +z
        faces.append([k, j, i])                    # bottom, reversed
    return verts, faces


def _ear_clip(poly):
    from fractions import Fraction as Fr
    P = [(Fr(x), Fr(y)) for x, y in poly]
    idx = list(range(len(P)))
    tris = []

    def area2(a, b, c):
        return (P[b][0] - P[a][0]) * (P[c][1] - P[a][1]) - (P[b][1] - P[a][1]) * (P[c][0] - P[a][0])
    guard = 0
    while len(idx) > 3 and guard < 1000:
        guard += 1
        for t in range(len(idx)):
            a, b, c = idx[t - 1], idx[t], idx[(t + 1) % len(idx)]
            if area2(a, b, c) <= 0:
                continue
            if any(m not in (a, b, c) and area2(a, b, m) >= 0 and area2(b, c, m) >= 0 and area2(c, a, m) >= 0 for m in idx):
                continue
            tris.append((a, b, c))
            idx.pop(t)
            break
    tris.append(tuple(idx))
    return tris


def meshes(tier, seed):
    out = []
    for name, cells in voxel_solids().items():
        out.append((f"voxel:{name}", *voxel_mesh(cells)))
    polys = corpus.polygons_2d()
    for name in ("L", "arrow", "comb", "quad_irregular", "pentagon_irregular"):
        out.append((f"extruded:{name}", *extruded(polys[name])))
    for name, pts in corpus.named_convex().items():
        if len(pts) <= 12:
            faces = oracle.hull_facets(pts)
            out.append((f"convexcopy:{name}", pts, faces))
    # the same meshes at very small and very large sizes (faces with 5 and more vertices go through the ear clipping)
    base = {m[0]: m for m in out}
    for name in ("convexcopy:irregular_prism5", "convexcopy:prism6", "extruded:comb", "voxel:U7"):
        _, verts, faces = base[name]
        for s in (1e-5, 1e4):
            out.append((f"{name}/x{s:g}", [[float(c) * s for c in p] for p in verts], faces))
    return out


def compare(verts, faces, R, t, what=None):
    cox = real_coxeter()
    P = corpus.place(verts, R, t)
    poly = cox.shapes.Polyhedron(P, [list(f) for f in faces])
    tris = oracle.fan_triangles(faces)
    vol, cen, inertia = oracle.mesh_measures(P, tris)
    total, per = oracle.mesh_area(P, faces)
    size = max(abs(c) for p in P for c in p) or 1.0
    bad = []

    def chk(name, obs, exp, scale=None):
        if what is not None and name.split("[")[0] not in what:
            return
        if not oracle.close(obs, exp, TOL, scale=scale):
            bad.append((name, float(obs), float(exp)))
    chk("volume", poly.volume, vol)
    chk("surface_area", poly.surface_area, total)
    if what is None or "face_area" in what:
        got = poly.get_face_area()
        for k, (g, e) in enumerate(zip(got, per)):
            if not oracle.close(g, e, 1e-8, scale=total):
                bad.append((f"face_area[{k}]", float(g), e))
    if what is None or "centroid" in what:
        c = poly.centroid
        for i in range(3):
            chk(f"centroid[{i}]", c[i], cen[i], scale=size)
    if what is None or "inertia_tensor" in what:
        it = poly.inertia_tensor
        sc = max(abs(float(x)) for row in inertia for x in row)
        for i in range(3):
            for j in range(3):
                chk(f"inertia_tensor[{i}{j}]", it[i, j], inertia[i][j], scale=sc)
    if what is None or "equations" in what:
        eq = poly._equations
        for k, f in enumerate(faces):
            n = eq[k, :3]
            if abs(float(np.dot(n, n)) - 1) > 1e-9:
                bad.append((f"equations[{k}] not unit", float(np.dot(n, n)), 1.0))
            for v in f[:3]:
                d = float(np.dot(n, P[v]) + eq[k, 3])
                if abs(d) > 1e-9 * size:
                    bad.append((f"equations[{k}] misses vertex {v}", d, 0.0))
    return bad, P


def run_bounded(chk):
    fkey = "coxeter.shapes.polyhedron::Polyhedron (+ extern.polytri.triangulate) end-to-end"
    chk.functions.setdefault(fkey, {"sha": "-", "paths": 0, "lines": 0, "bounded_only": True})
    ms = meshes(chk.bounded_tier, chk.seed)
    n_eval = n_bad = 0
    for name, verts, faces in ms:
        s_mesh = float(name.split("/x")[1]) if "/x" in name else 1.0
        for pname, R, t in corpus.placements():
            n_eval += 1
            t = tuple(float(x) * s_mesh for x in t)       # offsets of ~10 sizes of the mesh at hand
            try:
                bad, P = compare(verts, faces, R, t)
            except Exception as e:  # noqa: BLE001
                bad, P = [("exception", f"{type(e).__name__}: {e}", "")], None
            if bad:
                n_bad += 1
                if n_bad <= 5:
                    chk.record(f"bounded:mesh_measures[{name}/{pname}]", fkey, "bounded-fail", "exact-oracle",
                               detail=str(bad[:3]), model={}, kind="bounded",
                               replay=lambda m, P=P, faces=faces, bad=bad, name=name: (True, {
                                   "constructor": "Polyhedron(vertices, faces)", "case": name, "vertices": P,
                                   "faces": [list(map(int, f)) for f in faces], "mismatches": bad[:6]}))
    # thin cells far from the origin (non-uniform grid: a slab of width 0.004 at coordinates of a few thousand): a tolerance that grows with the
    # coordinates (np.allclose on vertices, say) merges distinct vertices of such faces
    from fractions import Fraction
    grid = [Fraction(0), Fraction(1), Fraction(251, 250), Fraction(501, 250), Fraction(751, 250), Fraction(1001, 250)]
    for vname in ("U7", "frame8"):
        verts, faces = voxel_mesh(voxel_solids()[vname])
        for off in ((0, 0, 0), (2000, -3000, 2500)):
            n_eval += 1
            Pq = [tuple(grid[int(c)] + off[i] for i, c in enumerate(v)) for v in verts]
            try:
                bad, P = compare(Pq, faces, [[1, 0, 0], [0, 1, 0], [0, 0, 1]], (0, 0, 0), what=("centroid", "inertia_tensor", "volume"))
            except Exception as e:  # noqa: BLE001
                bad, P = [("exception", f"{type(e).__name__}: {e}", "")], None
            if bad:
                n_bad += 1
                chk.record(f"bounded:mesh_measures[thin_cells:{vname}/offset={off}]", fkey, "bounded-fail", "exact-oracle", detail=str(bad[:3]), model={}, kind="bounded",
                           replay=lambda m, P=P, faces=faces, bad=bad, vname=vname: (True, {"constructor": "Polyhedron(vertices, faces)", "case": f"thin_cells:{vname}",
                                                                                            "vertices": P, "faces": [list(map(int, f)) for f in faces], "mismatches": bad[:6]}))
    from . import stale
    import numpy as np
    cox = real_coxeter()
    hfails = []

    def measures(s):
        return {"volume": s.volume, "surface_area": s.surface_area, "centroid": np.asarray(s.centroid, float),
                "inertia_tensor": np.asarray(s.inertia_tensor, float), "face_areas": np.asarray(s.get_face_area(), float)}
    base = {m[0]: m for m in ms}
    for nm in ("voxel:U7", "extruded:L", "convexcopy:frustum"):
        _, verts, faces = base[nm]
        obj = cox.shapes.Polyhedron(np.asarray(verts, float) + np.array([3.0, -2.0, 5.0]), [list(f) for f in faces])
        n_eval += stale.read_mutate_read(obj, measures, f"history:{nm}", hfails)
    # queries must not influence each other (a memo that one query fills and another one modifies): every ordered pair of
    # queries on a fresh off-origin object against the same query alone
    probes = np.array([[0.5, 0.5, 0.5], [1.5, 0.5, 0.5], [0.5, 2.5, 0.5], [1.5, 1.5, 0.5], [9.0, 9.0, 9.0]])
    qs = np.array([[0.3, -0.2, 0.5], [1.0, 2.0, -1.5]])
    for nm in ("voxel:U7", "convexcopy:frustum"):
        _, verts, faces = base[nm]
        off = np.array([3.0, -2.0, 5.0])
        getters = {"volume": lambda s: s.volume, "surface_area": lambda s: s.surface_area,
                   "centroid": lambda s: np.array(s.centroid, float), "inertia_tensor": lambda s: np.array(s.inertia_tensor, float),
                   "face_areas": lambda s: np.array(s.get_face_area(), float),
                   "is_inside": lambda s, off=off: np.array(s.is_inside(probes + off)),
                   "form_factor": lambda s: np.array(s.compute_form_factor_amplitude(qs)),
                   "to_hoomd": lambda s: np.array(s.to_hoomd()["centroid"], float)}
        n_eval += stale.read_pairs(lambda verts=verts, faces=faces, off=off: cox.shapes.Polyhedron(np.asarray(verts, float) + off, [list(f) for f in faces]),
                                   getters, f"queries_in_pairs:{nm}", hfails)
    for nm, info in hfails[:3]:
        n_bad += 1
        chk.record(f"bounded:mesh_measures[{nm}]", fkey, "bounded-fail", "fresh-construction", detail=str(info)[:400], model={},
                   replay=lambda m, info=info, nm=nm: (True, {"case": nm, **info}), kind="bounded")
    if not n_bad:
        chk.record("bounded:mesh_measures", fkey, "bounded-pass", "exact-oracle", kind="bounded", detail=f"{n_eval} meshes")
    chk.bounded.append({
        "clause": "Polyhedron(vertices, faces).{volume,surface_area,get_face_area,centroid,inertia_tensor,_equations} "
                  "== exact rational oracle of the closed mesh (relative tolerance 1e-9)",
        "bound": "8 voxel solids (cube, bar, L, U of 7 cubes, C, genus-1 frame of 8, stairs, 3-D T) with unit-square faces; "
                 "5 extruded simple polygons with ear-clipped caps; Polyhedron copies of the named convex solids with <= 12 "
                 "vertices; 2 voxel solids on a non-uniform grid with a 0.004 slab, also at offset (2000,-3000,2500); 4 meshes also at sizes 1e-5 and 1e4; 4 rigid placements each (offset ~10 sizes, 2 exact rational rotations); 3 objects read, moved / resized / reoriented and re-read; every ordered pair of 8 queries on 2 fresh off-origin objects against the query alone",
        "evaluations": n_eval, "distinct_nontrivial": len(ms),
        "rule": "distinct = different meshes; non-star-shaped: U7, C5, frame8, stairs, comb; genus 1: frame8",
        "samples": [{"mesh": m[0], "vertices": len(m[1]), "faces": len(m[2])} for m in ms[:3]],
        "failures": n_bad, "exhaustive": False})


def replay_mesh(kind):
    what = {"volume": ("volume",), "surface_area": ("surface_area",), "face_area": ("face_area",),
            "centroid": ("centroid",), "inertia_tensor": ("inertia_tensor",), "equations": ("equations",)}[kind]

    def replay(model):
        for name, verts, faces in meshes("quick", 0):
            s_mesh = float(name.split("/x")[1]) if "/x" in name else 1.0
            for pname, R, t in corpus.placements():
                t = tuple(float(x) * s_mesh for x in t)
                try:
                    bad, P = compare(verts, faces, R, t, what=what)
                except Exception as e:  # noqa: BLE001
                    bad, P = [("exception", f"{type(e).__name__}: {e}", "")], None
                if bad:
                    return True, {"constructor": "Polyhedron(vertices, faces)", "case": f"{name}/{pname}", "vertices": P,
                                  "faces": [list(map(int, f)) for f in faces], "mismatches": bad[:6]}
        return False, {"searched": "bounded_c02.meshes('quick') x placements"}
    return replay
