"""C20 -- exported mesh files describe exactly the polyhedron.

Deductive: Polyhedron.save dispatches every documented file type to its writer and raises ValueError otherwise
(all paths of the real method with the writers replaced by recording stubs; the file type is an unconstrained
string compared only by equality, so the enumeration of the seven literals plus "anything else" is complete);
the exporters' frame condition (they do not modify the shape) is C16.
Bounded: all seven formats written for the C01/C02 corpora (face degrees 3..12, both signs, magnitudes 1e-6..1e6)
and read back by independent minimal parsers: vertices bit-exact, faces as cycles with outward orientation,
declared counts consistent with the data.  The OFF header of the unchanged tree carries a stray 'f' before the
face count; tests/test_io.py compares the output byte-for-byte with control files that contain it, so it is a
known finding (keyed by the header clause), not repaired.
"""
from __future__ import annotations

import itertools
import math
import os
import tempfile
import xml.etree.ElementTree as ET

import numpy as np

from bounded import corpus, oracle
from .common import real_coxeter
from . import bounded_c02 as B2

LEVEL = "other"
FORMATS = ["OBJ", "OFF", "STL", "PLY", "VTK", "X3D", "HTML"]


def dispatch(chk):
    ld = chk.loader()
    mod = ld.load("coxeter.shapes.polyhedron")
    fkey = chk.function("coxeter.shapes.polyhedron", "Polyhedron.save")
    writers = {"OBJ": "to_obj", "OFF": "to_off", "STL": "to_stl", "PLY": "to_ply", "VTK": "to_vtk", "X3D": "to_x3d", "HTML": "to_html"}
    calls = []

    class IoStub:
        pass
    for w in set(writers.values()):
        setattr(IoStub, w, staticmethod(lambda shape, filename, w=w: calls.append((w, shape, filename))))
    old = mod.io
    mod.io = IoStub
    try:
        o = object.__new__(mod.Polyhedron)
        for ft in FORMATS + ["obj", "", "STL ", "XYZ", None]:
            calls.clear()
            try:
                o.save(ft, "some/file")
                outcome = "returned"
            except ValueError:
                outcome = "ValueError"
            if ft in writers:
                ok = outcome == "returned" and calls == [(writers[ft], o, "some/file")]
            else:
                ok = outcome == "ValueError" and not calls
            chk.record(f"save:dispatch[{ft!r}]", fkey, "proved" if ok else "refuted", "path-enumeration", model={},
                       detail=f"{outcome} {[(c[0]) for c in calls]}")
    finally:
        mod.io = old


# ------------------------------------------------------------------------------------ independent minimal parsers
def parse_obj(text):
    V, F = [], []
    for line in text.splitlines():
        t = line.split()
        if not t or t[0].startswith("#"):
            continue
        if t[0] == "v":
            V.append([float(x) for x in t[1:4]])
        elif t[0] == "f":
            F.append([int(x.split("/")[0]) - 1 for x in t[1:]])
        else:
            raise ValueError(f"unexpected OBJ line {line!r}")
    return V, F, {}


def parse_off(text):
    lines = [ln for ln in text.splitlines() if ln.strip() and not ln.strip().startswith("#")]
    if lines[0].strip() != "OFF":
        raise ValueError("missing OFF magic")
    head = lines[1].split()
    extra = {}
    if len(head) == 3 and head[1].startswith("f") and head[1][1:].isdigit():
        # the known header defect ('8 f6 12'): reported as its own clause, the rest of the file is still checked
        extra["header_defect"] = lines[1]
        head[1] = head[1][1:]
    nv, nf, ne = (int(x) for x in head)          # any other non-numeric token is a format error
    V = [[float(x) for x in ln.split()[:3]] for ln in lines[2:2 + nv]]
    F = []
    for ln in lines[2 + nv:2 + nv + nf]:
        t = [int(x) for x in ln.split()]
        if t[0] != len(t) - 1:
            raise ValueError("face degree prefix does not match")
        F.append(t[1:])
    if len(lines) != 2 + nv + nf:
        raise ValueError("line count does not match the header")
    extra["declared_edges"] = ne
    return V, F, extra


def parse_ply(text):
    lines = text.splitlines()
    if lines[0] != "ply" or not lines[1].startswith("format ascii"):
        raise ValueError("bad PLY header")
    nv = nf = None
    i = 2
    while lines[i] != "end_header":
        t = lines[i].split()
        if t[:2] == ["element", "vertex"]:
            nv = int(t[2])
        if t[:2] == ["element", "face"]:
            nf = int(t[2])
        i += 1
    body = lines[i + 1:]
    V = [[float(x) for x in ln.split()[:3]] for ln in body[:nv]]
    F = []
    for ln in body[nv:nv + nf]:
        t = [int(x) for x in ln.split()]
        if t[0] != len(t) - 1:
            raise ValueError("face degree prefix does not match")
        F.append(t[1:])
    if len(body) != nv + nf:
        raise ValueError("element counts do not match the data")
    return V, F, {}


def parse_vtk(text):
    lines = text.splitlines()
    if not lines[0].startswith("# vtk DataFile") or lines[2] != "ASCII" or lines[3] != "DATASET POLYDATA":
        raise ValueError("bad VTK header")
    t = lines[4].split()
    nv = int(t[1])
    V = [[float(x) for x in ln.split()] for ln in lines[5:5 + nv]]
    t = lines[5 + nv].split()
    if t[0] != "POLYGONS":
        raise ValueError("POLYGONS expected")
    nf, size = int(t[1]), int(t[2])
    F = []
    tot = 0
    for ln in lines[6 + nv:6 + nv + nf]:
        u = [int(x) for x in ln.split()]
        if u[0] != len(u) - 1:
            raise ValueError("cell size prefix does not match")
        F.append(u[1:])
        tot += len(u)
    if tot != size or len(lines) != 6 + nv + nf:
        raise ValueError("declared POLYGONS size does not match")
    return V, F, {}


def parse_stl(text):
    lines = [ln.strip() for ln in text.splitlines()]
    if not lines[0].startswith("solid") or not lines[-1].startswith("endsolid"):
        raise ValueError("bad STL framing")
    tris, normals = [], []
    i = 1
    while i < len(lines) - 1:
        if not lines[i].startswith("facet normal"):
            raise ValueError(f"facet expected at line {i}")
        normals.append([float(x) for x in lines[i].split()[2:5]])
        if lines[i + 1] != "outer loop" or lines[i + 5] != "endloop" or lines[i + 6] != "endfacet":
            raise ValueError("bad facet structure")
        tris.append([[float(x) for x in lines[i + k].split()[1:4]] for k in (2, 3, 4)])
        i += 7
    return tris, normals


def parse_x3d(root):
    ifs = [e for e in root.iter() if e.tag.endswith("IndexedFaceSet")]
    if len(ifs) != 1:
        raise ValueError("one IndexedFaceSet expected")
    idx = [int(x) for x in ifs[0].attrib["coordIndex"].split()]
    coord = [e for e in ifs[0].iter() if e.tag.endswith("Coordinate")][0]
    pts = [float(x) for x in coord.attrib["point"].split()]
    P = [pts[i:i + 3] for i in range(0, len(pts), 3)]
    faces, cur = [], []
    for i in idx:
        if i == -1:
            faces.append(cur)
            cur = []
        else:
            cur.append(i)
    if cur:
        raise ValueError("coordIndex does not end with -1")
    return P, faces


def _same_cycle(a, b):
    a, b = list(a), list(b)
    if len(a) != len(b):
        return False
    if not a:
        return True
    try:
        k = b.index(a[0])
    except ValueError:
        return False
    return a == b[k:] + b[:k]


def check_shape(shape, tmp, fails, tag):
    cox = real_coxeter()
    V = np.asarray(shape.vertices, float)
    faces = [[int(i) for i in f] for f in shape.faces]
    n = 0
    for ft in FORMATS:
        n += 1
        path = os.path.join(tmp, f"s.{ft.lower()}")
        try:
            shape.save(ft, path)
            text = open(path, encoding="utf-8").read()
            if ft in ("OBJ", "OFF", "PLY", "VTK"):
                pV, pF, extra = {"OBJ": parse_obj, "OFF": parse_off, "PLY": parse_ply, "VTK": parse_vtk}[ft](text)
                if len(pV) != len(V) or any(tuple(a) != tuple(b) for a, b in zip(pV, V.tolist())):
                    raise ValueError("vertices are not reproduced bit-exactly")
                if len(pF) != len(faces) or not all(_same_cycle(a, b) for a, b in zip(pF, faces)):
                    raise ValueError("faces are not the same vertex cycles")
                if "declared_edges" in extra and extra["declared_edges"] != len(shape.edges):
                    raise ValueError("declared edge count wrong")
                if "header_defect" in extra:
                    fails.append((f"{ft}:{tag}", {"format": ft, "problem": "header_defect: counts line is not three integers",
                                                  "header_line": extra["header_defect"], "n_vertices": len(V), "n_faces": len(faces)}))
            elif ft == "STL":
                tris, normals = parse_stl(text)
                if len(tris) != sum(len(f) - 2 for f in faces):
                    raise ValueError("number of triangles is not sum(deg - 2)")
                # triangles use the polyhedron's vertices, outward normals, and their total signed volume is the solid's
                vol = 0.0
                c = V.mean(axis=0)
                for t, nrm in zip(tris, normals):
                    a, b, cc = (np.array(p) for p in t)
                    g = np.cross(b - a, cc - b)
                    if np.linalg.norm(np.array(nrm) - g) > 1e-9 * max(1.0, np.linalg.norm(g)):
                        raise ValueError("facet normal is not (t1-t0)x(t2-t1)")
                    vol += np.dot(a - c, np.cross(b - c, cc - c)) / 6      # about the vertex mean: no cancellation far from the origin
                    for p in t:
                        if min(np.abs(V - np.array(p)).max(axis=1)) > 0:
                            raise ValueError("triangle corner is not a vertex of the polyhedron (bit-exact)")
                if abs(vol - float(shape.volume)) > 1e-7 * abs(float(shape.volume)):
                    raise ValueError(f"triangles do not bound the solid (signed volume {vol} vs {float(shape.volume)})")
            else:
                if ft == "HTML":
                    if not text.startswith("<!DOCTYPE html>"):
                        raise ValueError("missing doctype")
                    root = ET.fromstring(text[len("<!DOCTYPE html>"):])
                else:
                    root = ET.parse(path).getroot()
                P, pF = parse_x3d(root)
                flat = [V[i].tolist() for f in faces for i in f]
                if P != flat:
                    raise ValueError("Coordinate points are not the face vertices in order (bit-exact)")
                k = 0
                for f, pf in zip(faces, pF):
                    if pf != list(range(k, k + len(f))):
                        raise ValueError("coordIndex does not enumerate the face's points")
                    k += len(f)
                if len(pF) != len(faces):
                    raise ValueError("number of faces differs")
        except Exception as e:  # noqa: BLE001
            fails.append((f"{ft}:{tag}", {"format": ft, "problem": f"{type(e).__name__}: {e}", "vertices": V.tolist()[:12],
                                          "faces": faces[:12]}))
    return n


def run(chk):
    chk.trusted += ["float(str(x)) == x and int(str(i)) == i (CPython / numpy repr round trip)",
                    "xml.etree.ElementTree serialises and parses attribute text faithfully"]
    dispatch(chk)
    cox = real_coxeter()
    fkey = "coxeter.io.to_obj/to_off/to_stl/to_ply/to_vtk/to_x3d/to_html end-to-end"
    chk.functions.setdefault(fkey, {"sha": "-", "paths": 0, "lines": 0, "bounded_only": True})
    fails = []
    n_eval = 0
    with tempfile.TemporaryDirectory() as tmp:
        shapes = []
        named = corpus.named_convex()
        for name in list(named)[:6 if chk.bounded_tier == "quick" else len(named)]:
            for scale, off in ((1.0, (0, 0, 0)), (1e-6, (1e-6, -2e-6, 3e-6)), (1e6, (-3e6, 5e5, 1.5e6)), (1.0, (-7.25, 3.5, -0.125))):
                pts = [[(c * scale) + o for c, o in zip(p, off)] for p in named[name]]
                shapes.append((f"convex:{name}/x{scale:g}", cox.shapes.ConvexPolyhedron(pts)))
        for name, cells in list(B2.voxel_solids().items())[:4 if chk.bounded_tier == "quick" else 8]:
            verts, faces = B2.voxel_mesh(cells)
            shapes.append((f"voxel:{name}", cox.shapes.Polyhedron([[x - 1.5, y + 0.25, z - 0.5] for x, y, z in verts], faces)))
        for name in ("L", "comb"):
            verts, faces = B2.extruded(corpus.polygons_2d()[name])
            shapes.append((f"extruded:{name}", cox.shapes.Polyhedron(verts, faces)))
        # general Polyhedron with faces of 5 / 6 vertices over the property's range of magnitudes (STL triangulates them)
        from bounded import oracle
        for name in ("prism6", "irregular_prism5"):
            fc = [list(f) for f in oracle.hull_facets(named[name])]
            for scale, off in ((1e-6, (1e-6, -2e-6, 3e-6)), (1e-4, (0.0, 0.0, 0.0)), (1e6, (-3e6, 5e5, 1.5e6))):
                pts = [[(c_ * scale) + o for c_, o in zip(p, off)] for p in named[name]]
                try:
                    shapes.append((f"polyhedron:{name}/x{scale:g}", cox.shapes.Polyhedron(pts, fc)))
                except Exception as e:  # noqa: BLE001
                    fails.append((f"polyhedron:{name}/x{scale:g}", {"format": "STL", "problem": f"construction failed: {type(e).__name__}: {e}"[:200]}))
        for tag, shape in shapes:
            n_eval += check_shape(shape, tmp, fails, tag)
        # the files describe the shape as it is *now*: export - change the shape through its public mutators - export again
        # (faces given with mixed winding and sort_faces, a triangulated surface and merge_faces, resize, move, reorient)
        import random as _random
        rnd = _random.Random(chk.seed)
        for name in ("prism6", "irregular_prism5", "frustum"):
            if name not in named:
                continue
            fc = [list(f) for f in oracle.hull_facets(named[name])]
            mixed = [f[::-1] if rnd.random() < 0.5 else f[1:] + f[:1] for f in fc]
            if all(m != f[::-1] for m, f in zip(mixed, fc)):
                mixed[0] = fc[0][::-1]
            pts = [[c_ * 2.5e-3 + o for c_, o in zip(p, (0.4, -0.2, 0.1))] for p in named[name]]
            tri = [[f[0], f[k], f[k + 1]] for f in fc for k in range(1, len(f) - 1)]
            histories = [("sort_faces", lambda: cox.shapes.Polyhedron(pts, [list(f) for f in mixed], faces_are_convex=True), lambda s: s.sort_faces()),
                         ("merge_faces", lambda: cox.shapes.Polyhedron(pts, [list(t) for t in tri]), lambda s: s.merge_faces()),
                         ("volume*=8", lambda: cox.shapes.Polyhedron(pts, [list(f) for f in fc]), lambda s: setattr(s, "volume", 8 * s.volume)),
                         ("centroid+=(1,2,3)", lambda: cox.shapes.Polyhedron(pts, [list(f) for f in fc]),
                          lambda s: setattr(s, "centroid", np.asarray(s.centroid, float) + np.array([1.0, 2.0, 3.0]))),
                         ("diagonalize_inertia", lambda: cox.shapes.ConvexPolyhedron(pts), lambda s: s.diagonalize_inertia())]
            for hname, build, mutate in histories:
                try:
                    shape = build()
                    scratch = []
                    check_shape(shape, tmp, scratch, f"history:{name}/before_{hname}")     # first export (its result is not judged for sort_faces input)
                    mutate(shape)
                except Exception as e:  # noqa: BLE001
                    fails.append((f"history:{name}/{hname}", {"format": "OBJ", "problem": f"{type(e).__name__}: {e}"[:200]}))
                    continue
                n_eval += check_shape(shape, tmp, fails, f"history:{name}/exported_then_{hname}_then_exported")
    seen = set()
    for name, info in fails:
        key = name.split(":")[0] + ":" + info["problem"][:40]
        if key in seen:
            continue
        seen.add(key)
        fmt = info["format"]
        clause = "header:counts" if info["problem"].startswith("header_defect") else "parse_back"
        chk.record(f"to_{fmt.lower()}:{clause}", fkey, "bounded-fail", "independent-parser", detail=str(info)[:500], model={},
                   kind="bounded", replay=lambda m, info=info, name=name: (True, {"case": name, **info}))
    if not fails:
        chk.record("exporters:parse_back", fkey, "bounded-pass", "independent-parser", kind="bounded", detail=f"{n_eval} files")
    chk.bounded.append({"clause": "each written file is parsed by an independent minimal parser: vertices bit-exact, same face cycles "
                                  "(STL: outward fan triangles bounding the same solid), declared counts equal the data",
                        "bound": "6 (quick) / all named convex solids x {unit, 1e-6, 1e6 scale, offset} as ConvexPolyhedron; 4 (quick) / 8 voxel "
                                 "solids and 2 extruded non-convex polygons as Polyhedron; 7 formats each; 3 solids exported, changed through sort_faces / merge_faces / volume / centroid / diagonalize_inertia and exported again",
                        "evaluations": n_eval, "distinct_nontrivial": len(shapes), "rule": "distinct = shapes; evaluations = files",
                        "samples": [{"shape": "voxel:U7", "format": "VTK"}], "failures": len(fails), "exhaustive": False})
