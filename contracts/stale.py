"""Read - mutate - read on one object: a property-specific observable, read once (so that any memoised value exists), must
after every public mutator equal the same observable of a freshly constructed shape with the object's current geometry.
Fresh shapes are what the property-specific bounded checks compare with exact oracles; this ties mutated objects to them."""
from __future__ import annotations

import numpy as np

from .bounded_c03 import fresh


def _close(a, b, size):
    if isinstance(a, str) or isinstance(b, str):
        return a == b
    if isinstance(a, dict):
        return isinstance(b, dict) and a.keys() == b.keys() and all(_close(a[k], b[k], size) for k in a)
    try:
        x, y = np.asarray(a), np.asarray(b)
        if x.dtype == object or y.dtype == object:
            return repr(a) == repr(b)
        if x.shape != y.shape:
            return False
        if x.dtype == bool or y.dtype == bool:
            return bool(np.array_equal(x, y))
        x, y = x.astype(complex), y.astype(complex)
        sc = max(1e-300, float(np.abs(y).max()) if y.size else 1.0)
        return bool(np.all(np.abs(x - y) <= 1e-7 * sc))
    except (TypeError, ValueError):
        return a == b


def standard_mutators(obj):
    """(label, callable) for the public ways of moving / resizing this object"""
    cls = type(obj)
    out = []
    if isinstance(getattr(cls, "centroid", None), property) and cls.centroid.fset is not None:
        out.append(("centroid+=(1,-2,3)", lambda o: setattr(o, "centroid", np.asarray(o.centroid, float) + np.array([1.0, -2.0, 3.0]))))
    elif hasattr(obj, "polygon") and isinstance(getattr(type(obj.polygon), "centroid", None), property):
        out.append(("polygon.centroid+=(1,-2,0)", lambda o: setattr(o.polygon, "centroid", np.asarray(o.polygon.centroid, float) + np.array([1.0, -2.0, 0.0]))))
    for nm in ("volume", "area", "surface_area", "perimeter"):
        p = getattr(cls, nm, None)
        if isinstance(p, property) and p.fset is not None:
            out.append((f"{nm}*=2.5", lambda o, nm=nm: setattr(o, nm, 2.5 * getattr(o, nm))))
            break
    p = getattr(cls, "radius", None)
    if isinstance(p, property) and p.fset is not None:
        out.append(("radius*=2", lambda o: setattr(o, "radius", 2.0 * o.radius if o.radius else 0.25)))
    if hasattr(cls, "diagonalize_inertia"):
        out.append(("diagonalize_inertia()", lambda o: o.diagonalize_inertia()))
    return out


def read_mutate_read(obj, observe, label, fails, mutators=None, tol_size=1.0):
    """observe(shape) -> dict name -> value (arrays / scalars / lists).  Appends (case, info) to fails."""
    n = 0
    try:
        observe(obj)                                   # first read: memoised values now exist
    except Exception as e:  # noqa: BLE001
        fails.append((f"{label}:first_read", {"raised": f"{type(e).__name__}: {e}"[:200]}))
        return n
    done = []
    for mname, mut in (mutators or standard_mutators(obj)):
        try:
            mut(obj)
        except (NotImplementedError, RuntimeError, ValueError, AttributeError):
            continue
        done.append(mname)
        n += 1
        try:
            a, b = observe(obj), observe(fresh(obj))
        except Exception as e:  # noqa: BLE001
            fails.append((f"{label}:after_{mname}", {"history": list(done), "raised": f"{type(e).__name__}: {e}"[:200]}))
            return n
        bad = [k for k in a if k not in b or not _close(a[k], b[k], tol_size)]
        if bad:
            k = bad[0]
            fails.append((f"{label}:after_{'_'.join(done)}:{k}".replace(" ", ""), {
                "class": type(obj).__name__, "history": ["read"] + list(done) + ["read"], "observable": k,
                "on_the_mutated_object": _brief(a[k]), "on_a_fresh_shape_with_the_same_vertices": _brief(b.get(k)),
                "vertices_now": np.asarray(getattr(obj, "vertices"), float).tolist()}))
            return n
    return n


def read_pairs(factory, getters, label, fails, size=1.0):
    """Queries must not influence each other.  getters: {name: callable(shape) -> value}; factory() builds a fresh shape.
    Baseline: every member read alone on its own fresh object.  Then, for every ordered pair (a, b) -- including (a, a) -- a
    fresh object is asked a and afterwards b, and b's answer must be the baseline.  Appends (case, info) to fails; returns
    the number of pairs."""
    base = {}
    for nm, g in getters.items():
        try:
            base[nm] = g(factory())
        except Exception as e:  # noqa: BLE001
            fails.append((f"{label}:{nm}:alone", {"raised": f"{type(e).__name__}: {e}"[:200]}))
            return 0
    n = 0
    for a, ga in getters.items():
        for b, gb in getters.items():
            n += 1
            o = factory()
            try:
                ga(o)
                got = gb(o)
            except Exception as e:  # noqa: BLE001
                fails.append((f"{label}:{a}_then_{b}", {"history": [a, b], "raised": f"{type(e).__name__}: {e}"[:200]}))
                return n
            if not _close(got, base[b], size):
                fails.append((f"{label}:{a}_then_{b}", {"class": type(o).__name__, "history": [f"read {a}", f"read {b}"], "observable": b,
                                                        "after_the_other_read": _brief(got), "read_alone_on_a_fresh_shape": _brief(base[b]),
                                                        "vertices": np.asarray(getattr(o, "vertices"), float).tolist()}))
                return n
    return n


def _brief(v):
    try:
        arr = np.asarray(v)
        if arr.dtype == object:
            return repr(v)[:300]
        return np.round(arr.astype(complex if np.iscomplexobj(arr) else float), 9).tolist() if arr.size <= 12 else \
            f"array{arr.shape} starting {np.round(arr.reshape(-1)[:6].astype(complex if np.iscomplexobj(arr) else float), 9).tolist()}"
    except Exception:  # noqa: BLE001
        return repr(v)[:300]
