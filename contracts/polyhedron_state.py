"""Symbolic abstract state of the general Polyhedron and the assumed contract of its surface triangulation.

Abstract data: vertices V (N,3), faces Fc (F ragged integer arrays of length LF >= 3, listed counter-clockwise seen
from outside, each face planar and convex -- the class's defining condition), and the oriented surface
triangulation Tr (T triangles, Tr(t, i, j) = coordinate j of vertex i) that `polytri.triangulate` yields face by
face (assumed contract: same vertices, same orientation, partition of every face).  The integral over the
enclosed solid is  M[h] = sum_t int_{tet(0; Tr_t)} h  (signed tetrahedra, exact).
"""
from __future__ import annotations

import numpy as np
import sympy as sp

from pyvc.sym import Sym, to_expr, wrap
from pyvc.symarr import Dim, SymArr, SymSeq, make, sum_over, fast_subs
from specs.moments import integrate_tet, X, Y, Z

N = Dim("Nv", minimum=4)
F = Dim("Fh", minimum=4)
LF = Dim("Lf", minimum=3)
T = Dim("Tt", minimum=4)
COORD = (X, Y, Z)

Vf = sp.Function("Vh", real=True)
Fcf = sp.Function("Fch", integer=True)
Trf = sp.Function("Tr", real=True)


def V_arr():
    return make("Vh", (N, 3))


def face_vertex(pos):
    """coordinates of the vertex at position `pos` (int or sympy expr) of the generic face"""
    return [Vf(Fcf(F.k, pos), sp.Integer(j)) for j in range(3)]


def tri_atoms():
    A = [Trf(T.k, sp.Integer(0), sp.Integer(j)) for j in range(3)]
    B = [Trf(T.k, sp.Integer(1), sp.Integer(j)) for j in range(3)]
    C = [Trf(T.k, sp.Integer(2), sp.Integer(j)) for j in range(3)]
    return A, B, C


def cross(u, v):
    return [u[1] * v[2] - u[2] * v[1], u[2] * v[0] - u[0] * v[2], u[0] * v[1] - u[1] * v[0]]


def dot(u, v):
    return sum(x * y for x, y in zip(u, v))


def tet_row(h, shift=None):
    A, B, C = tri_atoms()
    if shift is not None:
        A = [A[i] - shift[i] for i in range(3)]
        B = [B[i] - shift[i] for i in range(3)]
        C = [C[i] - shift[i] for i in range(3)]
    return integrate_tet(h, A, B, C)


def solid_moment(h, shift=None):
    return sum_over(T, tet_row(h, shift))


def face_normal_raw():
    P0, P1, P2 = face_vertex(0), face_vertex(1), face_vertex(2)
    return cross([P2[i] - P1[i] for i in range(3)], [P0[i] - P1[i] for i in range(3)]), P0


def radicand(v):
    return sp.factor_terms(sp.expand(dot(v, v)))


def triangulation_seq():
    """value of Polyhedron._surface_triangulation(): a sequence of T triangles (v0, v1, v2)"""
    A, B, C = tri_atoms()
    elem = tuple(np.array([wrap(x) for x in P], dtype=object) for P in (A, B, C))
    return SymSeq(T, elem)


def polyhedron(shapes):
    """symbolic Polyhedron satisfying Inv_Polyhedron by construction (equations from the faces)"""
    PH = shapes.Polyhedron
    o = object.__new__(PH)
    o._vertices = V_arr()
    Fc = make("Fch", (F, LF), integer=True)
    o._faces = SymSeq(F, SymArr((LF,), Fc.inner))
    o._faces_are_convex = True
    Nf, P0 = face_normal_raw()
    nrm = sp.sqrt(radicand(Nf))
    eq = np.empty((4,), dtype=object)
    for j in range(3):
        eq[j] = wrap(Nf[j] / nrm)
    eq[3] = wrap(-dot(Nf, P0) / nrm)
    o._equations = SymArr((F, 4), eq)
    o._surface_triangulation = triangulation_seq      # assumed contract of polytri (instance-level stub)
    return o


def facts():
    Nf, _ = face_normal_raw()
    return [sp.Gt(radicand(Nf), 0), sp.Gt(solid_moment(1), 0)] + F.facts() + N.facts() + T.facts() + LF.facts()
