"""C13: Polygon.minimal_bounding_circle / Polyhedron.minimal_bounding_sphere, every path of the retry loop.

The real getters are executed on a symbolic number of vertices.  External calls are replaced by their assumed contracts:

* miniball.get_bounding_ball(A): either raises numpy.linalg.LinAlgError or returns (m, r2) -- centre and squared radius of
  the smallest ball containing the rows of A.  Which of the two happens is a free decision of the path explorer at every
  call, so every sequence of failures is covered.  Nothing else about (m, r2) is assumed: in particular NOT that the ball
  contains the rows, because the code tests that itself (a ball that misses a row is a failed attempt) and the test is part
  of the verified text.
* numpy.random.uniform / rowan.random.rand: a fresh unconstrained angle / unit quaternion at every draw.
* rowan.rotate / rowan.conjugate: the quaternion algebra (rotation matrix of a unit quaternion).
* _align_points_by_normal(n, V) (callee contract, exercised in C04): (V R^T, R), R a proper rotation taking the polygon's
  normal to +z; with the class invariant "the vertices lie in a plane with normal n" the rotated vertices have a common z.

Contract, for every path that returns a ball B = (c, rho) after a successful attempt whose argument was A and result (m, r2):

  (1) A is, row by row, an affine image  A_k = L x_k + t  of the vertices' coordinates x_k (in-plane coordinates for the
      polygon) with L, t the same for all rows;
  (2) L is orthogonal, i.e. x -> L x + t is an isometry (of the polygon's plane onto R^2, of R^3 onto itself);
  (3) c is the preimage of m under that isometry (and lies in the polygon's plane);
  (4) rho^2 = r2;
  (5) |V_k - c|^2 = |A_k - m|^2 for the generic row (consequence of 1-3, checked directly on the code's values), hence
  (6) with the containment test that the path passed:  |V_k - c| <= rho (1 + 1e-9) for every vertex.

(1)-(4) say that B is the preimage of miniball's ball under an isometry that carries the vertices onto miniball's input:
B is the smallest ball containing the vertices iff miniball's contract holds.  Paths that raise: RuntimeError, and only
after ten failed attempts.  The loop has at most ten iterations and every iteration three outcomes (LinAlgError, a ball that
misses a point, success), so the 2047 decision sequences are enumerated completely; they are split by their first outcomes
over forked workers, and the obligations of a path are discharged once per distinct formula (the values after a retry depend
on the last draw only, so most paths share their formulas up to the names of the fresh symbols).
"""
from __future__ import annotations

import itertools
import re

import numpy as np
import sympy as sp

from pyvc import paths
from pyvc.sym import Sym, to_expr
from pyvc.symarr import DEFS, SymArr

from . import mutators as M
from . import polygon_state as PS
from . import polyhedron_state as H
from .common import ex

MAX_ATTEMPTS = 10
SPLIT = 4            # outcomes of the first SPLIT attempts select the worker


# ------------------------------------------------------------------------------------------------ quaternion algebra (rowan)
def q_matrix(q):
    """rotation matrix of the quaternion q = (w, x, y, z) (v -> q v q*), as rowan.rotate computes it"""
    w, x, y, z = q
    return [[w * w + x * x - y * y - z * z, 2 * (x * y - w * z), 2 * (x * z + w * y)],
            [2 * (x * y + w * z), w * w - x * x + y * y - z * z, 2 * (y * z - w * x)],
            [2 * (x * z - w * y), 2 * (y * z + w * x), w * w - x * x - y * y + z * z]]


def _qvec(q):
    return [to_expr(v) for v in np.asarray(q, dtype=object).reshape(-1)]


def rowan_rotate(q, v):
    from pyvc.symnp import np as snp
    qq = _qvec(q)
    if len(qq) != 4:
        raise paths.OutOfReach("rowan.rotate with a batch of quaternions")
    Mq = np.array([[Sym(sp.expand(e)) for e in row] for row in q_matrix(qq)], dtype=object)
    return snp.dot(v, Mq.T)


def rowan_conjugate(q):
    a = np.asarray(q, dtype=object)
    qq = [v if isinstance(v, Sym) else Sym(sp.nsimplify(v)) for v in a.reshape(-1)]
    out = np.array([qq[0], -qq[1], -qq[2], -qq[3]], dtype=object)
    return out.reshape(a.shape)


# ------------------------------------------------------------------------------------------------ outcome sequences
def outcome_prefix(seq):
    """decision prefix of a sequence of attempt outcomes: E LinAlgError, M ball misses a point, S success"""
    d = []
    for o in seq:
        d += {"E": [True], "M": [False, False], "S": [False, True]}[o]
    return d


def outcomes_of(decisions):
    out, i = [], 0
    while i < len(decisions):
        if decisions[i]:
            out.append("E")
            i += 1
        elif i + 1 < len(decisions):
            out.append("S" if decisions[i + 1] else "M")
            i += 2
        else:                      # code without the containment test: the decision structure is another one
            out.append("?")
            i += 1
    return "".join(out)


def tasks_for(split=SPLIT):
    """a partition of all outcome sequences into (label, prefixes, expand) tasks"""
    tasks = []
    for n in range(split):      # complete sequences of fewer than `split` failures followed by S, one task per length
        done = ["".join(fails) + "S" for fails in itertools.product("EM", repeat=n)]
        tasks.append(("success_at_attempt_%d" % (n + 1), [outcome_prefix(s) for s in done], False))
    for fails in itertools.product("EM", repeat=split):
        s = "".join(fails)
        tasks.append((s + "...", [outcome_prefix(s)], True))
    return tasks


def expected_path_count():
    return sum(2 ** n for n in range(MAX_ATTEMPTS)) + 2 ** MAX_ATTEMPTS


# ------------------------------------------------------------------------------------------------ algebra
_REL = {}


def relations(extra_syms):
    """Groebner basis of SO(3) (r_ij) together with  cs^2 + sn^2 = 1  and  |q|^2 = 1"""
    key = tuple(sorted(map(str, extra_syms)))
    if key not in _REL:
        G, syms = PS.so3_ideal()
        polys = list(G.exprs)
        gens = list(syms)
        names = {str(s): s for s in extra_syms}
        if "cs" in names:
            polys.append(names["cs"]**2 + names["sn"]**2 - 1)
            gens += [names["cs"], names["sn"]]
        if "q0" in names:
            polys.append(sum(names[f"q{j}"]**2 for j in range(4)) - 1)
            gens += [names[f"q{j}"] for j in range(4)]
        _REL[key] = (polys, gens)
    return _REL[key]


CS, SN = sp.symbols("cs sn", real=True)
QS = sp.symbols("q0 q1 q2 q3", real=True)


def canon(e):
    """rename the fresh symbols of the last draw / last attempt to fixed names, cos / sin of the angle to cs / sn"""
    e = sp.sympify(e)
    ren = {}
    for s in e.free_symbols:
        m = re.fullmatch(r"(theta|mbc|mbr2|qr)(\d+)(_\d+)?", s.name)
        if m:
            ren[s] = sp.Symbol(m.group(1) + (m.group(3) or ""), **{k: v for k, v in s.assumptions0.items() if k in ("real", "positive")})
    e = e.xreplace(ren)
    th = sp.Symbol("theta", real=True)
    e = e.xreplace({sp.cos(th): CS, sp.sin(th): SN})
    e = e.xreplace({sp.Symbol(f"qr_{j}", real=True): QS[j] for j in range(4)})
    return e


def zero_mod(e):
    """(is zero modulo the relations, remainder)"""
    e = sp.together(canon(e))
    num = sp.expand(sp.numer(e))
    if num == 0:
        return True, sp.Integer(0)
    polys, gens = relations(num.free_symbols & {CS, SN, *QS})
    use = [g for g in gens if num.has(g)]
    if not use:
        return False, num
    G = [p for p in polys if p.free_symbols <= set(use) | set(gens)]
    _, rem = sp.reduced(num, G, *gens, order="grevlex")
    rem = sp.expand(rem)
    return rem == 0, rem


def numeric_counterexample(e, tries=20):
    """a point of the variety (random rotation, angle, unit quaternion, reals elsewhere) where e != 0, or None"""
    import random
    rnd = random.Random(7)
    e = canon(e)
    rs = list(PS.RS)
    for _ in range(tries):
        th = rnd.uniform(0, 6.28)
        ax = np.array([rnd.gauss(0, 1) for _ in range(3)])
        ax /= np.linalg.norm(ax)
        K = np.array([[0, -ax[2], ax[1]], [ax[2], 0, -ax[0]], [-ax[1], ax[0], 0]])
        Rn = np.eye(3) + np.sin(th) * K + (1 - np.cos(th)) * K @ K
        q = np.array([rnd.gauss(0, 1) for _ in range(4)])
        q /= np.linalg.norm(q)
        phi = rnd.uniform(0, 6.28)
        val = {r: float(Rn[i // 3, i % 3]) for i, r in enumerate(rs)}
        val.update({CS: np.cos(phi), SN: np.sin(phi)})
        val.update({QS[j]: float(q[j]) for j in range(4)})
        sub = {}
        for s in e.free_symbols:
            sub[s] = val.get(s, rnd.uniform(0.5, 2.0))
        f = e.xreplace(sub)
        for fn in f.atoms(sp.Function):
            sub[fn] = rnd.uniform(-2.0, 2.0)
        f = e.xreplace({k: v for k, v in sub.items() if isinstance(k, sp.Function) or True})
        for fn in list(f.atoms(sp.core.function.AppliedUndef)):
            f = f.xreplace({fn: rnd.uniform(-2.0, 2.0)})
        try:
            v = complex(sp.N(f))
        except (TypeError, ValueError):
            continue
        if abs(v) > 1e-7:
            return {str(k): (float(v_) if not isinstance(v_, sp.Basic) else str(v_)) for k, v_ in sub.items()}
    return None


class Cache:
    """obligations are discharged once per distinct canonical formula; every path that shares it is counted"""

    def __init__(self):
        self.by_clause = {}

    def decide(self, clause, exprs):
        key = (clause, tuple(sp.srepr(canon(e)) for e in exprs))
        slot = self.by_clause.setdefault(clause, {})
        if key not in slot:
            status, detail, model = "proved", "", {}
            for e in exprs:
                ok, rem = zero_mod(e)
                if not ok:
                    model = numeric_counterexample(e)
                    status = "refuted" if model is not None else "unknown"
                    detail = f"remainder modulo the relations: {str(rem)[:200]}"
                    break
            slot[key] = {"status": status, "detail": detail, "model": model or {}, "paths": [], "exprs": exprs}
        return slot[key]


# ------------------------------------------------------------------------------------------------ the two getters
def _affine(A_cols, coords):
    """A_cols: expressions of one generic row; coords: the coordinate atoms x_k.  Returns (L, t, residual list)."""
    L, t, res = [], [], []
    for a in A_cols:
        a = sp.expand(a)
        try:
            P = sp.Poly(a, *coords)
        except sp.PolynomialError:
            return None, None, [a]
        if P.total_degree() > 1:
            return None, None, [a]
        row = [P.coeff_monomial(c) for c in coords]
        const = P.coeff_monomial(1)
        L.append(row)
        t.append(const)
        res.append(sp.expand(a - sum(r * c for r, c in zip(row, coords)) - const))
    return L, t, res


def _is_containment_test(g, d2, r2):
    """is the relation g  '|row - m| <= sqrt(r2) (1 + eps)'  with 0 <= eps <= 1e-9 (1 + 1e-6)?  Returns (bool, eps)."""
    if not isinstance(g, (sp.LessThan, sp.GreaterThan, sp.StrictLessThan, sp.StrictGreaterThan)):
        return False, None
    E = sp.expand(g.gts - g.lts)                     # g  <=>  E >= 0 (or > 0)
    roots = [a for a in E.atoms(sp.Pow) if a.exp == sp.Rational(1, 2)]
    rho, delta = sp.Symbol("rho_", positive=True), sp.Symbol("delta_", nonnegative=True)
    sub = {}
    for a in roots:
        if zero_mod(a.base - r2)[0]:
            sub[a] = rho
        elif zero_mod(a.base - d2)[0]:
            sub[a] = delta
        else:
            return False, None
    F = sp.expand(E.xreplace(sub))
    try:
        P = sp.Poly(F, rho, delta)
    except sp.PolynomialError:
        return False, None
    if P.total_degree() != 1 or P.coeff_monomial(1) != 0:
        return False, None
    al, be = P.coeff_monomial(rho), -P.coeff_monomial(delta)
    if not (al.is_Rational and be.is_Rational and al > 0 and be > 0):
        return False, None
    eps = al / be - 1
    return (True if 0 <= eps <= sp.Rational(1, 10**9) * (1 + sp.Rational(1, 10**6)) else "loose"), eps


class _OpaqueBall:
    """result of another ball getter of the same object: a ball about which nothing but its own contract is known"""

    def __init__(self, name):
        self.radius = Sym(sp.Symbol(f"{name}_r", positive=True))
        self.centroid = np.array([Sym(sp.Symbol(f"{name}_c{j}", real=True)) for j in range(3)], dtype=object)
        self.center = self.centroid


def _with_opaque_balls(o, member):
    """modular: the other ball getters are known here only as 'some ball' (their own contracts are proved elsewhere)"""
    others = {}
    for k in type(o).__mro__:
        for nm, v in k.__dict__.items():
            if isinstance(v, property) and nm != member and nm not in others and not nm.endswith("_radius") and \
                    any(t in nm for t in ("circumcircle", "incircle", "circumsphere", "insphere", "bounded_", "centered_bounding")):
                others[nm] = property(lambda self, nm=nm: _OpaqueBall(nm))
    o.__class__ = type(type(o).__name__, (type(o),), others)
    return o


def run_getter(chk, shapes, ld, which, label, prefixes, expand):
    from pyvc import externals as ext
    cls_name, member = ("Polygon", "minimal_bounding_circle") if which == "polygon" else ("Polyhedron", "minimal_bounding_sphere")
    klass = getattr(shapes, cls_name)
    owner = next(k for k in klass.__mro__ if member in k.__dict__)
    fkey = chk.function(owner.__module__, f"{owner.__name__}.{member}[get]")
    tag = f"{cls_name}.{member}"
    dim_of_ball = 2 if which == "polygon" else 3
    calls, draws = [], []

    def miniball_hook(v):
        k = len(calls)
        calls.append(v)
        if paths.branch(sp.Gt(sp.Symbol(f"miniball_raises{k}", real=True), 0)):
            raise np.linalg.LinAlgError("Singular matrix")
        if isinstance(v, SymArr) and sum(len(str(to_expr(x))) for x in v.inner.reshape(-1)) > 40000:
            raise paths.OutOfReach("the array handed to miniball grows with the number of attempts (formula of more than 40000 characters)")
        d = v.shape[-1]
        if to_expr(d) != dim_of_ball:
            raise paths.OutOfReach(f"miniball called with rows of length {d}")
        c = np.array([Sym(sp.Symbol(f"mbc{k}_{j}", real=True)) for j in range(dim_of_ball)], dtype=object)
        return c, Sym(sp.Symbol(f"mbr2{k}", positive=True))

    def uniform(lo, hi, size=None):
        if size is not None:
            raise paths.OutOfReach("numpy.random.uniform with a size")
        t = sp.Symbol(f"theta{len(draws)}", real=True)
        draws.append(t)
        return Sym(t)

    def rand(*shape):
        if shape not in ((1,), ()):
            raise paths.OutOfReach(f"rowan.random.rand{shape}")
        k = len(draws)
        q = [sp.Symbol(f"qr{k}_{j}", real=True) for j in range(4)]
        draws.append(q)
        paths.assume(sp.Eq(sum(x * x for x in q), 1))
        return np.array([Sym(x) for x in q], dtype=object)

    Rs = PS.RS
    hgt = sp.Symbol("h_plane", real=True)
    wx, wy = sp.Function("Wx", real=True), sp.Function("Wy", real=True)
    pm = ld.load("coxeter.shapes.polygon")

    def run():
        calls.clear()
        draws.clear()
        ext.HOOKS["miniball.get_bounding_ball"] = miniball_hook
        ext.HOOKS["numpy.random.uniform"] = uniform
        ext.HOOKS["rowan.random.rand"] = rand
        ext.HOOKS["rowan.rotate"] = rowan_rotate
        ext.HOOKS["rowan.conjugate"] = rowan_conjugate
        if which == "polygon":
            from pyvc.symnp import np as snp
            k = M.NV.k
            W = SymArr((M.NV, 3), np.array([Sym(wx(k)), Sym(wy(k)), Sym(hgt)], dtype=object))
            Rm = np.array([[Sym(Rs[i, j]) for j in range(3)] for i in range(3)], dtype=object)
            o = object.__new__(klass)
            o._vertices = snp.dot(W, Rm)              # V = W R  <=>  W = V R^T
            o._normal = np.array([Sym(Rs[2, j]) for j in range(3)], dtype=object)   # R n = e_z
            _with_opaque_balls(o, member)
            old = pm._align_points_by_normal
            pm._align_points_by_normal = lambda n, v: (W, Rm)
            try:
                ball = getattr(o, member)
            finally:
                pm._align_points_by_normal = old
            verts = o._vertices
        else:
            # only the vertex array is read (checked: any other field access raises AttributeError and the path is reported)
            o = object.__new__(klass)
            o._vertices = H.V_arr()
            _with_opaque_balls(o, member)
            verts = o._vertices
            ball = getattr(o, member)
        return type(ball).__name__, ball.radius, ball.centroid, list(calls), verts

    assumptions = M.NV.facts() if which == "polygon" else H.facts()
    dim = M.NV if which == "polygon" else H.N
    res = chk.explore(fkey, run, assumptions=assumptions, max_paths=5000, only=prefixes, expand=expand)
    cache = Cache()
    contain_memo = {}
    n_ret = n_raise = 0
    for p in res:
        seq = outcomes_of(p.decisions)
        if p.kind != "return":
            n_raise += 1
            ok = isinstance(p.exc, RuntimeError) and len(seq) == MAX_ATTEMPTS and "S" not in seq
            slot = cache.by_clause.setdefault("raises", {}).setdefault(("raises", ok), {
                "status": "proved" if ok else "refuted", "detail": "" if ok else f"{type(p.exc).__name__}: {p.exc} after outcomes {seq}",
                "model": {}, "paths": [], "exprs": []})
            slot["paths"].append(seq)
            continue
        n_ret += 1
        tname, rad, cen, got_calls, verts = p.value
        okseq = seq.endswith("S") and "S" not in seq[:-1] and len(seq) <= MAX_ATTEMPTS and len(got_calls) == len(seq)
        slot = cache.by_clause.setdefault("returns_after_success", {}).setdefault(("ret", okseq, tname), {
            "status": "proved" if okseq and tname == ("Circle" if which == "polygon" else "Sphere") else "refuted",
            "detail": f"{tname} after outcomes {seq}, {len(got_calls)} miniball calls", "model": {}, "paths": [], "exprs": []})
        slot["paths"].append(seq)
        if not okseq:
            continue
        kk = len(seq) - 1
        A = got_calls[-1]
        m = [sp.Symbol(f"mbc{kk}_{j}", real=True) for j in range(dim_of_ball)]
        r2 = sp.Symbol(f"mbr2{kk}", positive=True)
        if not isinstance(A, SymArr) or len(A.axes) != 2 or A.axes[0] is not dim:
            cache.by_clause.setdefault("input", {}).setdefault(("shape", str(getattr(A, "axes", type(A)))), {
                "status": "refuted", "detail": "miniball's argument is not one row per vertex", "model": {}, "paths": [], "exprs": []})["paths"].append(seq)
            continue
        Ak = [to_expr(x) for x in A.inner.reshape(-1)]
        Vk = [to_expr(x) for x in verts.inner.reshape(-1)]
        if which == "polygon":
            coords = [wx(dim.k), wy(dim.k)]
        else:
            coords = Vk
        c = [ex(cen[j]) for j in range(3)] if np.shape(cen) == (3,) else None
        if c is None:
            cache.by_clause.setdefault("centre", {}).setdefault(("shape", str(np.shape(cen))), {
                "status": "refuted", "detail": f"centre of shape {np.shape(cen)}", "model": {}, "paths": [], "exprs": []})["paths"].append(seq)
            continue
        L, t, resid = _affine(Ak, coords)
        if L is None:
            cache.decide("miniball_input_is_an_affine_image_of_the_vertices", resid)["paths"].append(seq)
            continue
        index_free = [e for row in L for e in row] + t
        bad = [e for e in index_free if e.has(dim.k)]
        cache.decide("miniball_input_is_an_affine_image_of_the_vertices", resid + bad)["paths"].append(seq)
        n = dim_of_ball
        gram = [sum(L[a][i] * L[a][j] for a in range(n)) - (1 if i == j else 0) for i in range(n) for j in range(i, n)]
        gram += [sum(L[i][a] * L[j][a] for a in range(n)) - (1 if i == j else 0) for i in range(n) for j in range(i, n)]
        cache.decide("that_map_is_an_isometry", gram)["paths"].append(seq)
        if which == "polygon":
            Rc = [sum(Rs[i, j] * c[j] for j in range(3)) for i in range(3)]       # the centre in the aligned frame
            pre = [sum(L[i][j] * Rc[j] for j in range(2)) + t[i] - m[i] for i in range(2)] + [Rc[2] - hgt]
        else:
            pre = [sum(L[i][j] * c[j] for j in range(3)) + t[i] - m[i] for i in range(3)]
        cache.decide("centre_is_the_preimage_of_miniballs_centre", pre)["paths"].append(seq)
        cache.decide("radius_is_sqrt_of_miniball_r2", [ex(rad)**2 - r2])["paths"].append(seq)
        d_code = sum((Vk[j] - c[j])**2 for j in range(3))
        d_mb = sum((Ak[j] - m[j])**2 for j in range(n))
        cache.decide("vertex_distance_to_centre_equals_row_distance_to_miniballs_centre", [d_code - d_mb])["paths"].append(seq)
        # (6) the containment test the path passed, instantiated at the generic row
        test = [DEFS[s] for s in (sp.sympify(x) for x in p.pc) if s in DEFS and DEFS[s].kind == "forall" and DEFS[s].dim is dim]
        want = sp.Le(sp.sqrt(d_mb), sp.sqrt(r2) * (1 + sp.Rational(1, 10**9)))
        got = [canon(d.at(dim.k)) for d in test]
        same, eps = False, None
        for g in got:
            ck = (g, canon(d_mb), canon(r2))
            if ck not in contain_memo:
                contain_memo[ck] = _is_containment_test(*ck)
            okg, e_ = contain_memo[ck]
            if okg is True:
                same, eps = True, e_
            elif okg == "loose" and not same:
                same, eps = "loose", e_
        key = ("contain", same, len(test))
        slot = cache.by_clause.setdefault("accepted_ball_contains_every_vertex_up_to_1e-9", {}).setdefault(key, {
            "status": "proved" if same is True else "refuted" if same == "loose" else "unknown",
            "detail": (f"the containment test admits a relative excess of {float(eps):.3e} > 1e-9: a vertex may lie outside the returned ball" if same == "loose" else
                       f"the path passed  forall k: |A_k - m| <= sqrt(r2) (1 + {float(eps):.3e})  and |V_k - c| = |A_k - m| (previous clause)" if same else
                       f"the successful path carries {len(test)} universally quantified tests, none of the expected form: {[str(g)[:120] for g in got]}"),
            "model": {}, "paths": [], "exprs": [want]})
        slot["paths"].append(seq)
    # ------------------------------------------------------------------------------------------------ record
    seqs = [outcomes_of(p.decisions) for p in res]
    if expand:
        rest = MAX_ATTEMPTS - SPLIT
        expected = sum(2 ** n for n in range(rest)) + 2 ** rest
    else:
        expected = len(prefixes)
    complete = len(set(seqs)) == len(seqs) == expected and all(re.fullmatch(r"[EM]{0,9}S|[EM]{10}", q) for q in seqs)
    chk.record(f"{tag}:all_outcome_sequences_enumerated[{label}]", fkey, "proved" if complete else "unknown", "path-enumeration",
               detail=f"{len(seqs)} paths, {len(set(seqs))} distinct outcome sequences, expected {expected}", model={})
    for clause, slots in cache.by_clause.items():
        for i, (key, s) in enumerate(slots.items()):
            name = f"{tag}:{clause}[{label}{'' if len(slots) == 1 else '/' + str(i)}]"
            chk.record(name, fkey, s["status"], "groebner-normal-form" if s["exprs"] else "path-enumeration",
                       detail=(s["detail"] + f" -- {len(s['paths'])} paths, e.g. outcomes {s['paths'][0] if s['paths'] else '-'}")[:400],
                       model=s["model"], replay=replay_retry(cls_name, member, s["paths"][0] if s["paths"] else "S"),
                       goal="; ".join(str(canon(e))[:160] + " == 0" for e in s["exprs"][:4]), abstracted=(s["status"] != "proved"))
    return n_ret, n_raise, len(res)


def replay_retry(cls_name, member, seq):
    """real code, with miniball failing as in `seq` (E: LinAlgError, M: a ball that misses a vertex), on placed shapes:
    the returned ball must be the smallest enclosing ball (brute force over support sets)"""
    def replay(model):
        import warnings
        from .bounded_c13 import _brute_min_ball
        from .common import real_coxeter
        cox = real_coxeter()
        mod = cox.shapes.polygon if cls_name == "Polygon" else cox.shapes.polyhedron
        real_mb = mod.miniball
        th = 0.7
        Rz = np.array([[np.cos(th), -np.sin(th), 0], [np.sin(th), np.cos(th), 0], [0, 0, 1.0]])
        Rx = np.array([[1.0, 0, 0], [0, np.cos(1.1), -np.sin(1.1)], [0, np.sin(1.1), np.cos(1.1)]])
        off = np.array([3.0, -2.0, 5.0])
        if cls_name == "Polygon":
            base = [np.array([[0.0, 0, 0], [4, 0, 0], [1, 0.5, 0]]), np.array([[0.0, 0, 0], [4, 0, 0], [3.5, 1, 0], [0.2, 0.8, 0]]),
                    np.array([[0.0, 0, 0], [2, 0, 0], [2, 1, 0], [0, 1, 0]])]
            build = [lambda P: cox.shapes.Polygon(P), lambda P: cox.shapes.ConvexPolygon(P)]
        else:
            base = [np.array([[0.0, 0, 0], [4, 0, 0], [1, 0.5, 0], [2, 0.2, 0.4]]), np.array([[0.0, 0, 0], [2, 0, 0], [2, 2, 0], [0, 2, 0], [0.5, 0.75, 3]]),
                    np.array([[x, y, z] for x in (0.0, 1) for y in (0.0, 2) for z in (0.0, 3)])]
            build = [lambda P: cox.shapes.ConvexPolyhedron(P)]
        plans = [list(seq), ["m"] + list(seq)]

        class Faulty:
            def __init__(self, plan):
                self.n, self.plan = 0, plan

            def get_bounding_ball(self, S, *a, **k):
                o = self.plan[self.n] if self.n < len(self.plan) else "S"
                self.n += 1
                if o == "E":
                    raise np.linalg.LinAlgError("Singular matrix (injected)")
                if o == "M":
                    S = np.asarray(S, float)
                    return S[0].copy(), 1e-6 * float(np.sum((S[1] - S[0])**2))
                if o == "m":          # the right centre, radius 0.2 % short: misses the support points
                    c_, r2_ = real_mb.get_bounding_ball(S, *a, **k)
                    return c_, r2_ * (1 - 2e-3)**2
                return real_mb.get_bounding_ball(S, *a, **k)
        for plan, P0 in itertools.product(plans, base):
            for place in (lambda X: X, lambda X: X @ (Rz @ Rx).T + off):
                P = place(P0)
                best = _brute_min_ball(P)
                for b in build:
                    fake = Faulty(plan)
                    mod.miniball = fake
                    try:
                        with warnings.catch_warnings():
                            warnings.simplefilter("ignore")
                            try:
                                ball = getattr(b(P), member)
                            except RuntimeError as e:
                                if "S" in plan:
                                    return True, {"points": P.tolist(), "member": member, "injected_outcomes": seq, "raised": f"RuntimeError: {e}"}
                                continue
                            except Exception as e:  # noqa: BLE001
                                return True, {"points": P.tolist(), "member": member, "injected_outcomes": seq, "raised": f"{type(e).__name__}: {e}"[:200]}
                    finally:
                        mod.miniball = real_mb
                    if "S" not in plan:
                        return True, {"points": P.tolist(), "member": member, "injected_outcomes": seq, "observed": "a ball was returned although every attempt failed"}
                    r, c = float(ball.radius), np.asarray(ball.centroid, float).reshape(-1)
                    far = float(np.linalg.norm(P - c, axis=1).max()) if c.shape == (3,) else float("inf")
                    if abs(r - best) > 1e-7 * best or far > r * (1 + 1e-8):
                        return True, {"points": P.tolist(), "member": member, "injected_outcomes": seq, "radius": r, "center": c.tolist(),
                                      "smallest_enclosing_radius": best, "farthest_vertex_distance": far}
        return False, {}
    return replay


def minimal_balls(chk, shapes, ld, which, label, prefixes, expand):
    n_ret, n_raise, n = run_getter(chk, shapes, ld, which, label, prefixes, expand)
    chk.notes.append(f"{which} {label}: {n} paths ({n_ret} return, {n_raise} raise)")
    return n
