"""Bounded stand-in for C15: exact classification of candidate vertex lists and run-time alias checks."""
from __future__ import annotations

import itertools
from fractions import Fraction as Fr

import numpy as np

from bounded import oracle, corpus
from .common import real_coxeter


def _orient(a, b, c):
    return (b[0] - a[0]) * (c[1] - a[1]) - (b[1] - a[1]) * (c[0] - a[0])


def classify_cycle(P):
    """'simple' / 'crossing' / 'degenerate' for a closed polyline with integer vertices (exact)"""
    n = len(P)
    for i in range(n):
        if _orient(P[i - 1], P[i], P[(i + 1) % n]) == 0:
            return "degenerate"
    crossing = False
    for i in range(n):
        a, b = P[i], P[(i + 1) % n]
        for j in range(i + 1, n):
            c, d = P[j], P[(j + 1) % n]
            adjacent = (j == i + 1) or (i == 0 and j == n - 1)
            o1, o2, o3, o4 = _orient(a, b, c), _orient(a, b, d), _orient(c, d, a), _orient(c, d, b)
            if adjacent:
                continue
            if 0 in (o1, o2, o3, o4):
                # touching or collinear contact: not margin-separated from the decision boundary
                if (min(a[0], b[0]) <= max(c[0], d[0]) and min(c[0], d[0]) <= max(a[0], b[0])
                        and min(a[1], b[1]) <= max(c[1], d[1]) and min(c[1], d[1]) <= max(a[1], b[1])):
                    touching = False
                    for p, (q, r) in ((c, (a, b)), (d, (a, b)), (a, (c, d)), (b, (c, d))):
                        if _orient(q, r, p) == 0 and min(q[0], r[0]) <= p[0] <= max(q[0], r[0]) and min(q[1], r[1]) <= p[1] <= max(q[1], r[1]):
                            touching = True
                    if touching:
                        return "degenerate"
                continue
            if (o1 > 0) != (o2 > 0) and (o3 > 0) != (o4 > 0):
                crossing = True
    return "crossing" if crossing else "simple"


def alias_check(cls):
    """construct with ndarray arguments; no field may share memory with them and they must stay unchanged"""
    sh = real_coxeter().shapes
    c = np.array([1.0, 2.0, 3.0])
    quad = np.array([[0.0, 0, 0], [3, 0, 0], [3, 1, 0], [0, 2, 0]]) + np.array([1.0, 1.0, 0.0])
    nrm = np.array([0.0, 0.0, 2.0])
    pts3 = np.array([[0.0, 0, 0], [3, 0, 0], [1, 2, 0], [0.5, 0.5, 1.5], [2, 1, -1]])
    faces = [np.array(f) for f in oracle.hull_facets(pts3.tolist())]
    builders = {
        "Circle": lambda: (sh.Circle(1.5, c), [c]), "Sphere": lambda: (sh.Sphere(1.5, c), [c]),
        "Ellipse": lambda: (sh.Ellipse(1.0, 2.0, c), [c]), "Ellipsoid": lambda: (sh.Ellipsoid(1.0, 2.0, 3.0, c), [c]),
        "Polygon": lambda: (sh.Polygon(quad, nrm), [quad, nrm]), "ConvexPolygon": lambda: (sh.ConvexPolygon(quad, nrm), [quad, nrm]),
        "ConvexSpheropolygon": lambda: (sh.ConvexSpheropolygon(quad, 0.5, nrm), [quad, nrm]),
        "Polyhedron": lambda: (sh.Polyhedron(pts3, faces), [pts3] + faces),
        "ConvexPolyhedron": lambda: (sh.ConvexPolyhedron(pts3), [pts3]),
        "ConvexSpheropolyhedron": lambda: (sh.ConvexSpheropolyhedron(pts3, 0.25), [pts3]),
    }
    snap = {id(a): a.copy() for a in (c, quad, nrm, pts3, *faces)}
    obj, args = builders[cls]()
    probs = []

    def fields(o, depth=0):
        for k, v in vars(o).items():
            if isinstance(v, np.ndarray):
                yield k, v
            elif isinstance(v, list):
                for i, x in enumerate(v):
                    if isinstance(x, np.ndarray):
                        yield f"{k}[{i}]", x
            elif hasattr(v, "__dict__") and type(v).__module__.startswith("coxeter") and depth < 2:
                for kk, vv in fields(v, depth + 1):
                    yield f"{k}.{kk}", vv
    for k, v in fields(obj):
        for a in args:
            if np.shares_memory(v, a):
                probs.append(f"field {k} shares memory with a constructor argument")
    for a in args:
        if not np.array_equal(a, snap[id(a)]):
            probs.append("a constructor argument was modified")
    # mutate the shape: arguments must still be untouched
    try:
        if hasattr(obj, "sort_faces"):
            obj.sort_faces()
        if hasattr(type(obj), "centroid") and type(obj).centroid.fset is not None:
            obj.centroid = (9.0, 9.0, 9.0)
    except Exception:  # noqa: BLE001
        pass
    for a in args:
        if not np.array_equal(a, snap[id(a)]):
            probs.append("a constructor argument changed when the shape was mutated afterwards")
    return sorted(set(probs))


def run_bounded(chk):
    sh = real_coxeter().shapes
    fkey = "constructors of the ten shape classes end-to-end (incl. extern.bentley_ottmann, Qhull)"
    chk.functions.setdefault(fkey, {"sha": "-", "paths": 0, "lines": 0, "bounded_only": True})
    fails = []
    n_eval = 0
    counts = {"simple": 0, "crossing": 0}
    grid = list(itertools.product(range(3), repeat=2))
    sizes = (4,) if chk.bounded_tier == "quick" else (4, 5)
    for n in sizes:
        for cyc in itertools.permutations(grid, n):
            if cyc[0] != min(cyc):          # up to cyclic rotation
                continue
            kind = classify_cycle(cyc)
            if kind == "degenerate":
                continue
            counts[kind] += 1
            n_eval += 1
            verts = [[float(x) + 2.0, float(y) - 1.0, 0.0] for x, y in cyc]
            try:
                sh.Polygon(verts)
                accepted = True
            except ValueError:
                accepted = False
            except Exception as e:  # noqa: BLE001  a constructor may only raise ValueError
                accepted = False
                fails.append((f"constructor_raised_{type(e).__name__}_instead_of_ValueError", {"vertices": verts, "exception": f"{type(e).__name__}: {e}"[:160]}))
            if accepted != (kind == "simple"):
                fails.append((f"Polygon:{kind}:{cyc}", {"vertices": verts, "exact_classification": kind, "accepted": accepted}))
    # the classification does not depend on where the polygon sits (fixed: simplicity test made translation invariant)
    far_cases = [("arrow", [(0, 0), (4, 1), (0, 2), (1, 1)], "simple"), ("L", [(0, 0), (3, 0), (3, 1), (1, 1), (1, 3), (0, 3)], "simple"),
                 ("bowtie", [(0, 0), (4, 0), (0, 2), (4, 2)], "crossing"), ("crossed_pentagon", [(0, 0), (4, 0), (1, 3), (2, -1), (4, 3)], "crossing")]
    for nm, cyc, kind in far_cases:
        for T in ((1.0e5 + 0.37, -2.0e5 + 0.11), (1.0e6 + 0.37, -2.0e6 + 0.11), (-3.0e7 + 0.5, 5.0e7 - 0.25)):
            for rev in (False, True):
                n_eval += 1
                cc = list(reversed(cyc)) if rev else cyc
                verts = [[float(x) + T[0], float(y) + T[1], 0.0] for x, y in cc]
                try:
                    sh.Polygon(verts)
                    accepted = True
                except ValueError:
                    accepted = False
                except Exception as e:  # noqa: BLE001  a constructor may only raise ValueError
                    accepted = False
                    fails.append((f"constructor_raised_{type(e).__name__}_instead_of_ValueError", {"vertices": verts, "exception": f"{type(e).__name__}: {e}"[:160]}))
                if accepted != (kind == "simple"):
                    fails.append((f"Polygon:{kind}:{nm}/offset={T[0]:.3g},{T[1]:.3g}{'/reversed' if rev else ''}",
                                  {"vertices": verts, "exact_classification": kind, "accepted": accepted}))
    # planarity, fewer than three, duplicates
    L = [[0.0, 0, 0], [3, 0, 0], [3, 1, 0], [1, 1, 0], [1, 3, 0], [0, 3, 0]]
    cases = [("planar L", L, True), ("lifted vertex (2% of size)", [p[:] for p in L[:-1]] + [[0.0, 3.0, 0.06]], False),
             ("two vertices", L[:2], False), ("duplicate vertex", L + [L[2]], False)]
    for R_name, R, t in corpus.placements():
        for nm, pts, ok in cases:
            n_eval += 1
            P = corpus.place(pts, R, t)
            try:
                sh.Polygon(P)
                acc = True
            except ValueError:
                acc = False
            if acc != ok:
                fails.append((f"Polygon:{nm}/{R_name}", {"vertices": P, "should_accept": ok, "accepted": acc}))
    # planarity must be judged relative to the polygon's size: a vertex lifted by 3% of the size is rejected at every scale,
    # the planar polygon is accepted at every scale (offsets up to ~3 sizes)
    quad = [[0.0, 0, 0], [3, 0.2, 0], [2.6, 1.9, 0], [0.3, 2.2, 0]]
    bent = [p[:] for p in quad]
    bent[2][2] = 0.1
    for sc in (1e-5, 1e-4, 1e-3, 1.0, 1e3):
        for R_name, R, t in corpus.placements()[2:]:
            for nm, pts, ok in (("planar quad", quad, True), ("vertex lifted by 3% of the size", bent, False)):
                for klass in ("Polygon", "ConvexPolygon"):
                    n_eval += 1
                    P = corpus.place([[c_ * sc for c_ in p] for p in pts], R, [x * sc / 4 for x in t])
                    try:
                        getattr(sh, klass)(P)
                        acc = True
                    except ValueError:
                        acc = False
                    if acc != ok:
                        fails.append((f"{klass}:{nm}/scale={sc:g}/{R_name}", {"vertices": P, "should_accept": ok, "accepted": acc}))
    # convex position, all vertex orders, counter-clockwise result
    convex_sets = [[(0, 0), (2, 0), (2, 1), (0, 2)], [(0, 0), (3, 0), (4, 2), (2, 4), (0, 3)], [(0, 0), (4, 0), (1, 3)]]
    for pts in convex_sets:
        for perm in itertools.permutations(range(len(pts))):
            n_eval += 1
            V = [[float(pts[i][0]) + 1, float(pts[i][1]) + 1, 0.0] for i in perm]
            try:
                cp = sh.ConvexPolygon(V, normal=[0, 0, 1])
            except ValueError as e:
                fails.append((f"ConvexPolygon:order{perm}", {"vertices": V, "raised": str(e)}))
                continue
            v = np.asarray(cp.vertices)[:, :2]
            A = sum(v[k][0] * v[(k + 1) % len(v)][1] - v[(k + 1) % len(v)][0] * v[k][1] for k in range(len(v)))
            same_set = sorted(map(tuple, np.round(v, 9))) == sorted((float(x) + 1, float(y) + 1) for x, y in pts)
            if A <= 0 or not same_set or classify_cycle([(int(round(x)), int(round(y))) for x, y in v]) != "simple":
                fails.append((f"ConvexPolygon:order{perm}", {"input": V, "stored_vertices": v.tolist(), "signed_area_about_normal": A / 2}))
        inner = [[float(x) + 1, float(y) + 1, 0.0] for x, y in pts] + [[1.9, 1.9, 0.0]]
        n_eval += 1
        for klass in (sh.ConvexPolygon, lambda v: sh.ConvexSpheropolygon(v, 0.3)):
            try:
                klass(inner)
                fails.append((f"convex-position:{pts}", {"vertices": inner, "accepted": True, "note": "contains an interior point"}))
            except ValueError:
                pass
    cube = [[float(x), float(y), float(z)] for x, y, z in itertools.product((0, 1), repeat=3)]
    for extra in ([0.5, 0.5, 0.5], [0.5, 0.5, 0.999], [0.3, 0.2, 0.1]):
        n_eval += 1
        for klass in (sh.ConvexPolyhedron, lambda v: sh.ConvexSpheropolyhedron(v, 0.2)):
            try:
                klass(cube + [extra])
                fails.append((f"ConvexPolyhedron:interior{extra}", {"vertices": cube + [extra], "accepted": True}))
            except ValueError:
                pass
    for perm in itertools.islice(itertools.permutations(range(8)), 0, 200, 7):
        n_eval += 1
        try:
            sh.ConvexPolyhedron([cube[i] for i in perm])
        except ValueError as e:
            fails.append((f"ConvexPolyhedron:order{perm}", {"raised": str(e)}))
    # run-time alias check
    for cls in ("Circle", "Ellipse", "Sphere", "Ellipsoid", "Polygon", "ConvexPolygon", "ConvexSpheropolygon", "Polyhedron",
                "ConvexPolyhedron", "ConvexSpheropolyhedron"):
        n_eval += 1
        probs = alias_check(cls)
        if probs:
            fails.append((f"alias:{cls}", {"class": cls, "problems": probs}))
    for name, info in fails[:6]:
        chk.record(f"bounded:constructors[{name}]", fkey, "bounded-fail", "exact-classification", detail=str(info)[:500], model={},
                   kind="bounded", replay=lambda m, info=info, name=name: (True, {"case": name, **info}))
    if not fails:
        chk.record("bounded:constructors", fkey, "bounded-pass", "exact-classification", kind="bounded", detail=f"{n_eval} candidates")
    chk.bounded.append({"clause": "Polygon accepts exactly the simple planar cycles; convex classes reject interior points and accept every "
                                  "vertex order (CCW result); constructors share no memory with and do not modify their array arguments",
                        "bound": f"all closed polylines with {sizes} distinct vertices on a 3x3 lattice up to rotation that are margin-separated "
                                 f"(exactly classified: {counts}); planarity / count / duplicate cases x 4 placements; all vertex orders of 3 convex "
                                 "lattice polygons; cube + interior points; 29 vertex orders of the cube; alias check of all ten classes",
                        "evaluations": n_eval, "distinct_nontrivial": n_eval, "rule": "distinct = candidate vertex lists",
                        "samples": [{"cycle": [[0, 0], [2, 2], [2, 0], [0, 2]], "class": "crossing"}],
                        "failures": len(fails), "exhaustive": chk.bounded_tier != "quick"})
