"""Bounded stand-in / replay source for C04: real Polygon / ConvexPolygon against the exact rational
in-plane oracle, for simple polygons placed by exact rational rotations in 3-space."""
from __future__ import annotations

import math
from fractions import Fraction as Fr

import numpy as np

from bounded import oracle, corpus
from .common import real_coxeter

TOL = 1e-9


def _place(pts2, R, t):
    return [[float(sum(float(R[i][j]) * (p + (0.0,))[j] for j in range(3)) + t[i]) for i in range(3)] for p in
            [tuple(float(c) for c in q) for q in pts2]]


def expected(pts2, R, t):
    """exact measures of the placed polygon (rotation R, translation t), from the in-plane exact oracle"""
    A, (cx, cy), ix, iy, ixy = oracle.polygon_measures_2d(pts2)
    s = 1 if A > 0 else -1
    Rf = [[float(x) for x in row] for row in R]
    n = Rf and [Rf[i][2] for i in range(3)]
    e1 = [Rf[i][0] for i in range(3)]
    e2 = [Rf[i][1] for i in range(3)]
    C = [float(cx) * e1[i] + float(cy) * e2[i] + t[i] for i in range(3)]
    area = float(abs(A))
    # polar moment about the centroidal normal axis
    jc = float(s * (ix + iy)) - area * float(cx * cx + cy * cy)
    c2 = sum(c * c for c in C)
    T = [[jc * n[i] * n[j] + area * ((c2 if i == j else 0.0) - C[i] * C[j]) for j in range(3)] for i in range(3)]
    per = math.fsum(math.dist(pts2[k], pts2[(k + 1) % len(pts2)]) for k in range(len(pts2)))
    return {"signed_area": float(A), "area": area, "centroid": C, "perimeter": per, "inertia_tensor": T,
            "Ix": float(s * ix), "Iy": float(s * iy), "Ixy": float(s * ixy), "normal": n, "jc": jc}


def compare(pts2, R, t, what=None, cls="Polygon", explicit_normal=True):
    cox = real_coxeter()
    P3 = _place(pts2, R, t)
    exp = expected(pts2, R, t)
    klass = getattr(cox.shapes, cls)
    poly = klass(P3, normal=exp["normal"]) if explicit_normal else klass(P3)
    bad = []
    size = max(1.0, max(abs(c) for p in P3 for c in p))
    flip = 1.0
    if not explicit_normal:
        # default normal follows the first three vertices: the signed area is then taken about that normal
        flip = 1.0 if float(np.dot(poly.normal, exp["normal"])) > 0 else -1.0

    def chk(name, obs, ex, scale=None):
        if what is not None and name.split("[")[0] not in what:
            return
        if not oracle.close(obs, ex, TOL, scale=scale):
            bad.append((name, float(obs), float(ex)))
    chk("signed_area", poly.signed_area, flip * exp["signed_area"])
    chk("area", poly.area, exp["area"])
    chk("perimeter", poly.perimeter, exp["perimeter"])
    for i in range(3):
        chk(f"centroid[{i}]", poly.centroid[i], exp["centroid"][i], scale=size)
    identity = all(abs(float(R[i][j]) - (1.0 if i == j else 0.0)) < 1e-15 for i in range(3) for j in range(3))
    if identity and flip > 0:
        ix, iy, ixy = poly.planar_moments_inertia
        # moments are about the axes through the origin of the aligned frame (t shifts the in-plane coordinates)
        if t == (0, 0, 0) or t == (0.0, 0.0, 0.0):
            sc = max(abs(exp["Ix"]), abs(exp["Iy"]))
            chk("Ix", ix, exp["Ix"], scale=sc)
            chk("Iy", iy, exp["Iy"], scale=sc)
            chk("Ixy", ixy, exp["Ixy"], scale=sc)
    if what is None or "inertia_tensor" in what or "polar" in what:
        it = poly.inertia_tensor
        sc = max(abs(x) for row in exp["inertia_tensor"] for x in row) or 1.0
        for i in range(3):
            for j in range(3):
                chk(f"inertia_tensor[{i}{j}]", it[i, j], exp["inertia_tensor"][i][j], scale=sc)
    if what is None or "alias" in what:
        held = poly.vertices
        snap = held.copy()
        poly.inertia_tensor
        if not np.array_equal(held, snap):
            bad.append(("alias: array returned by .vertices changed by reading inertia_tensor", float(np.abs(held - snap).max()), 0.0))
    return bad, P3


def cases(tier, seed):
    polys = dict(corpus.polygons_2d())
    n_star = 4 if tier == "quick" else 40
    for i in range(n_star):
        polys[f"star{i}"] = corpus.star_polygon(5 + (7 * i) % 30, 77 * seed + i)
    out = []
    # very small and very large copies of two polygons (absolute tolerances must not change the answers)
    for name in ("L", "pentagon_irregular"):
        for sc in (1e-6, 1e-4, 1e4):
            polys[f"{name}*{sc:g}"] = [(float(x) * sc, float(y) * sc) for x, y in polys[name]]
    for name, pts in polys.items():
        for orient in (1, -1):
            q = list(pts) if orient == 1 else list(reversed(pts))
            size = max(max(abs(float(c)) for c in p) for p in pts)
            for pname, R, t in corpus.placements():
                # offsets proportional to the polygon (|offset| / size <= ~10, as in the property)
                ts = tuple(float(x) * size / 4.0 for x in t)
                out.append((f"{name}/{'ccw' if orient == 1 else 'cw'}/{pname}", q, R, ts))
    return out


def run_bounded(chk):
    fkey = "coxeter.shapes.polygon::Polygon.__init__ (+ measures end-to-end)"
    chk.functions.setdefault(fkey, {"sha": "-", "paths": 0, "lines": 0, "bounded_only": True})
    cs = cases(chk.bounded_tier, chk.seed)
    n_bad = n_eval = 0
    for name, pts, R, t in cs:
        for explicit in (True, False):
            n_eval += 1
            try:
                bad, P3 = compare(pts, R, t, explicit_normal=explicit)
            except Exception as e:  # noqa: BLE001
                bad, P3 = [("exception", f"{type(e).__name__}: {e}", "")], None
            if bad:
                n_bad += 1
                if n_bad <= 5:
                    chk.record(f"bounded:polygon_measures[{name}/{'normal' if explicit else 'default-normal'}]", fkey,
                               "bounded-fail", "exact-oracle", detail=str(bad[:3]), model={},
                               replay=lambda m, P3=P3, bad=bad, name=name: (True, {"constructor": "Polygon", "case": name, "vertices": P3, "mismatches": bad[:6]}),
                               kind="bounded")
    # the same object: all measures read, then resized / moved through the public setters, then read again
    from . import stale
    cox = real_coxeter()
    hfails = []

    def measures(s):
        return {"signed_area": s.signed_area, "area": s.area, "perimeter": s.perimeter, "centroid": np.asarray(s.centroid, float),
                "planar_moments_inertia": np.asarray(s.planar_moments_inertia, float), "polar_moment_inertia": s.polar_moment_inertia,
                "inertia_tensor": np.asarray(s.inertia_tensor, float)}
    polys = corpus.polygons_2d()
    for nm, klass in (("L", "Polygon"), ("arrow", "Polygon"), ("pentagon_irregular", "ConvexPolygon")):
        P = [[float(x) + 2.0, float(y) - 3.0, 0.0] for x, y in polys[nm]]
        n_eval += stale.read_mutate_read(getattr(cox.shapes, klass)(P), measures, f"history:{klass}:{nm}", hfails)
    for nm, info in hfails[:3]:
        n_bad += 1
        chk.record(f"bounded:polygon_measures[{nm}]", fkey, "bounded-fail", "fresh-construction", detail=str(info)[:400], model={},
                   replay=lambda m, info=info, nm=nm: (True, {"case": nm, **info}), kind="bounded")
    if not n_bad:
        chk.record("bounded:polygon_measures", fkey, "bounded-pass", "exact-oracle", kind="bounded",
                   detail=f"{n_eval} polygons")
    chk.bounded.append({
        "clause": "Polygon(vertices[, normal]).{signed_area,area,perimeter,centroid,planar_moments_inertia,inertia_tensor} "
                  "== exact rational in-plane oracle; reading inertia_tensor leaves handed-out vertices unchanged",
        "bound": "11 fixed simple polygons (convex, L, arrow, comb, irregular, regular 5/7/12) + seeded star polygons "
                 "(5..34 vertices), both orientations, 4 placements (identity, offset ~10 sizes, 2 exact rational rotations), "
                 "explicit and default normal; 3 objects read, moved / resized through their public setters and re-read against a fresh construction",
        "evaluations": n_eval, "distinct_nontrivial": len(cs),
        "rule": "distinct = (polygon, orientation, placement); all have >= 3 non-collinear vertices",
        "samples": [{"case": c[0], "n_vertices": len(c[1])} for c in cs[:3]], "failures": n_bad, "exhaustive": False})


def replay_polygon(kind):
    what = {"signed_area": ("signed_area",), "area": ("area",), "perimeter": ("perimeter",), "centroid": ("centroid",),
            "Ix": ("Ix",), "Iy": ("Iy",), "Ixy": ("Ixy",), "polar": ("inertia_tensor",),
            "inertia_tensor": ("inertia_tensor",), "alias": ("alias",)}[kind]

    def replay(model):
        for name, pts, R, t in cases("quick", 0):
            try:
                bad, P3 = compare(pts, R, t, what=what)
            except Exception as e:  # noqa: BLE001
                bad, P3 = [("exception", f"{type(e).__name__}: {e}", "")], None
            if bad:
                return True, {"constructor": "Polygon(vertices, normal)", "case": name, "vertices": P3, "mismatches": bad[:6]}
        return False, {"searched": "bounded_c04.cases('quick')"}
    return replay
