"""Bounded stand-in for C10 (float64 behaviour, which the real-arithmetic proofs cannot see): every getter of Circle,
Ellipse, Sphere and Ellipsoid against closed forms evaluated in 50-digit arithmetic (mpmath; polynomial measures exactly
in rationals times pi), component by component, on a grid of semi-axes that includes needles, discs, ties and near-ties.

Planar moments of Circle / Ellipse are compared at centres on the origin only: their parallel-axis terms are a known
finding (see known_findings.json) that the deductive part pins exactly."""
from __future__ import annotations

import itertools
import math
from fractions import Fraction as Fr

import numpy as np

from .common import real_coxeter

AXES = [1e-3, 5e-3, 0.3, 1.0, 1.0 + 1e-9, 250.0, 1e3]


def _mp():
    import mpmath
    mpmath.mp.dps = 50
    return mpmath


def rel(got, want):
    got, want = float(got), float(want)
    if want == 0:
        return abs(got)
    return abs(got - want) / abs(want)


def ellipsoid_expected(a, b, c, ctr):
    mp = _mp()
    A, B, C = (mp.mpf(Fr(x).numerator) / Fr(x).denominator for x in (a, b, c))
    cx, cy, cz = (mp.mpf(Fr(x).numerator) / Fr(x).denominator for x in ctr)
    V = 4 * mp.pi * A * B * C / 3
    S = 4 * mp.pi * mp.elliprg((A * B)**2, (A * C)**2, (B * C)**2)
    I0 = [V / 5 * (B * B + C * C), V / 5 * (A * A + C * C), V / 5 * (A * A + B * B)]
    cc = [cx, cy, cz]
    n2 = cx * cx + cy * cy + cz * cz
    T = [[(I0[i] if i == j else 0) + V * ((n2 if i == j else 0) - cc[i] * cc[j]) for j in range(3)] for i in range(3)]
    iq = 36 * mp.pi * V**2 / S**3
    return V, S, T, min(iq, mp.mpf(1))


def ellipse_expected(a, b, ctr):
    mp = _mp()
    A, B = (mp.mpf(Fr(x).numerator) / Fr(x).denominator for x in (a, b))
    cx, cy = (mp.mpf(Fr(x).numerator) / Fr(x).denominator for x in ctr[:2])
    area = mp.pi * A * B
    big, small = max(A, B), min(A, B)
    m = 1 - (small / big)**2
    per = 4 * big * mp.ellipe(m)
    ecc = mp.sqrt(m)
    iq = min(4 * mp.pi * area / per**2, mp.mpf(1))
    polar = area * (A * A + B * B) / 4 + area * (cx * cx + cy * cy)
    ix0, iy0 = area * B * B / 4, area * A * A / 4
    return area, per, ecc, iq, polar, ix0, iy0


def run_bounded(chk):
    cox = real_coxeter()
    fkey = "Circle / Ellipse / Sphere / Ellipsoid getters end-to-end in float64"
    chk.functions.setdefault(fkey, {"sha": "-", "paths": 0, "lines": 0, "bounded_only": True})
    fails = []
    n_eval = n_cases = 0
    TOL_POLY, TOL_SPECIAL = 1e-11, 1e-7      # products of the axes; elliptic-integral based members

    def check(case, name, got, want, tol, info):
        nonlocal n_eval
        n_eval += 1
        e = rel(got, want)
        if not (e <= tol) or not math.isfinite(float(got)):
            fails.append((f"{case}:{name}", {**info, "member": name, "observed": float(got), "expected": float(want), "relative_error": e,
                                             "tolerance": tol}))

    axes = AXES if chk.bounded_tier == "quick" else AXES + [2e-3, 0.9999999, 40.0]
    centres3 = [(0.0, 0.0, 0.0), (1.5, -2.0, 0.25)]
    for a, b, c in itertools.product(axes, repeat=3):
        size = max(a, b, c)
        long_axis = [a, b, c].index(size)
        along = [0.0, 0.0, 0.0]
        along[long_axis] = 3.0 * size
        for ctr in centres3 + [tuple(along), (7.0 * size, -5.0 * size, 11.0 * size)]:
            n_cases += 1
            case = f"Ellipsoid({a!r},{b!r},{c!r})@{ctr}"
            info = {"class": "Ellipsoid", "axes": [a, b, c], "center": list(ctr)}
            try:
                o = cox.shapes.Ellipsoid(a, b, c, ctr)
                V, S, T, iq = ellipsoid_expected(a, b, c, ctr)
                check(case, "volume", o.volume, V, TOL_POLY, info)
                check(case, "surface_area", o.surface_area, S, TOL_SPECIAL, info)
                check(case, "iq", o.iq, iq, 3 * TOL_SPECIAL, info)
                got = np.asarray(o.inertia_tensor, float)
                scale = max(abs(float(T[i][i])) for i in range(3))
                for i in range(3):
                    for j in range(3):
                        want = float(T[i][j])
                        # components that are exactly zero by symmetry are compared on the scale of the tensor
                        if want == 0:
                            n_eval += 1
                            if abs(got[i, j]) > 1e-12 * scale:
                                fails.append((f"{case}:inertia_tensor[{i}{j}]", {**info, "observed": float(got[i, j]), "expected": 0.0}))
                        else:
                            check(case, f"inertia_tensor[{i}{j}]", got[i, j], want, 1e-10 if i != j else TOL_POLY, info)
            except Exception as e:  # noqa: BLE001
                fails.append((f"{case}:exception", {**info, "raised": f"{type(e).__name__}: {e}"[:200]}))
    for r in axes:
        for ctr in centres3 + [(7.0 * r, -5.0 * r, 11.0 * r)]:
            n_cases += 1
            case = f"Sphere({r!r})@{ctr}"
            info = {"class": "Sphere", "radius": r, "center": list(ctr)}
            try:
                o = cox.shapes.Sphere(r, ctr)
                V, S, T, iq = ellipsoid_expected(r, r, r, ctr)
                mp = _mp()
                R = mp.mpf(Fr(r).numerator) / Fr(r).denominator
                check(case, "volume", o.volume, V, TOL_POLY, info)
                check(case, "surface_area", o.surface_area, 4 * mp.pi * R * R, TOL_POLY, info)
                check(case, "iq", o.iq, 1.0, TOL_POLY, info)
                got = np.asarray(o.inertia_tensor, float)
                for i in range(3):
                    for j in range(3):
                        want = float(T[i][j])
                        if want != 0:
                            check(case, f"inertia_tensor[{i}{j}]", got[i, j], want, 1e-10 if i != j else TOL_POLY, info)
            except Exception as e:  # noqa: BLE001
                fails.append((f"{case}:exception", {**info, "raised": f"{type(e).__name__}: {e}"[:200]}))
    for a, b in itertools.product(axes, repeat=2):
        for ctr in ((0.0, 0.0, 0.0), (1.5, -2.0, 0.0), (7.0 * max(a, b), -5.0 * max(a, b), 0.0)):
            n_cases += 1
            for cls in (("Ellipse",) if a != b else ("Ellipse", "Circle")):
                case = f"{cls}({a!r}{'' if cls == 'Circle' else ',' + repr(b)})@{ctr}"
                info = {"class": cls, "axes": [a, b], "center": list(ctr)}
                try:
                    o = cox.shapes.Ellipse(a, b, ctr) if cls == "Ellipse" else cox.shapes.Circle(a, ctr)
                    area, per, ecc, iq, polar, ix0, iy0 = ellipse_expected(a, b, ctr)
                    check(case, "area", o.area, area, TOL_POLY, info)
                    check(case, "perimeter", o.perimeter, per, TOL_SPECIAL if cls == "Ellipse" else TOL_POLY, info)
                    if float(ecc) > 1e-3:          # sqrt(1 - min^2/max^2) is ill-conditioned for near-circles
                        check(case, "eccentricity", o.eccentricity, ecc, 1e-9, info)
                    else:
                        n_eval += 1
                        if abs(float(o.eccentricity) - float(ecc)) > 1e-7:
                            fails.append((f"{case}:eccentricity", {**info, "observed": float(o.eccentricity), "expected": float(ecc)}))
                    check(case, "iq", o.iq, iq, 3 * TOL_SPECIAL, info)
                    check(case, "polar_moment_inertia", o.polar_moment_inertia, polar, TOL_POLY, info)
                    if ctr[0] == 0 and ctr[1] == 0:
                        ix, iy, ixy = o.planar_moments_inertia
                        check(case, "planar_moments_inertia[Ix]", ix, ix0, TOL_POLY, info)
                        check(case, "planar_moments_inertia[Iy]", iy, iy0, TOL_POLY, info)
                        n_eval += 1
                        if abs(float(ixy)) > 1e-12 * float(max(ix0, iy0)):
                            fails.append((f"{case}:planar_moments_inertia[Ixy]", {**info, "observed": float(ixy), "expected": 0.0}))
                except Exception as e:  # noqa: BLE001
                    fails.append((f"{case}:exception", {**info, "raised": f"{type(e).__name__}: {e}"[:200]}))
    for name, info in fails[:6]:
        safe = name.replace(" ", "")
        chk.record(f"bounded:curved_measures[{safe}]", fkey, "bounded-fail", "50-digit-closed-forms", detail=str(info)[:400], model={},
                   kind="bounded", replay=lambda m, info=info, name=name: (True, {"case": name, **info}))
    if not fails:
        chk.record("bounded:curved_measures", fkey, "bounded-pass", "50-digit-closed-forms", kind="bounded", detail=f"{n_eval} values")
    chk.bounded.append({
        "clause": "area / volume, perimeter / surface area (Carlson R_G), eccentricity, iq, polar and (centred) planar moments, "
                  "inertia tensor about the origin, component by component",
        "bound": f"semi-axes from {axes} in every ordered pair / triple (ties, near-ties 1e-9, needles and discs up to 1e6:1); "
                 "centres: origin, generic, along the longest axis, 7..11 sizes away; relative tolerance 1e-11 for polynomial "
                 "measures, 1e-7 for elliptic-integral ones",
        "evaluations": n_eval, "distinct_nontrivial": n_cases, "rule": "distinct = (class, axes, centre)",
        "samples": [{"class": "Ellipsoid", "axes": [1e3, 1e-3, 5e-3], "center": [3e3, 0, 0]}], "failures": len(fails),
        "exhaustive": False})
