"""C04 -- Polygon area, signed area, perimeter, centroid, planar/polar moments and inertia tensor equal the
exact integrals, for every number of vertices, either orientation and every plane of 3-space.

State and charts: contracts/polygon_state.py.  Spec: fan(h) = sum over edges of the exact integral of h over
the oriented triangle (0, p_k, p_k+1) in in-plane coordinates; for a simple polygon this is
orientation * (integral over the region).  Comparisons are Sigma-normal forms (cyclic shift invariance for
np.roll) with coefficients that are rational functions of the chart parameters, reduced modulo
kc^2 + ks^2 = 1 for the unknown in-plane angle of the kabsch rotation.
"""
from __future__ import annotations

import numpy as np
import sympy as sp

from pyvc import oblig, sigma
from pyvc.sym import to_expr
from pyvc.symarr import sum_over
from specs.moments import X, Y
from . import polygon_state as G
from .common import path_tag, ex

MOD = "coxeter.shapes.polygon"


_CAND = []      # expressions whose sign is the polygon's orientation (trusted: Green + positivity of squares)


_RES_CACHE = {}


def _carries_orientation(u):
    """is u a positive rational multiple of an expression known to carry the orientation sign?"""
    key = u
    r = _RES_CACHE.get(key)
    if r is None:
        r = False
        nu = oblig.normal_form(u)
        if nu != 0:
            for cand in _CAND:
                nc = _RES_CACHE.get(("cand", cand))
                if nc is None:
                    nc = oblig.normal_form(cand)
                    _RES_CACHE[("cand", cand)] = nc
                q = sp.cancel(sp.together(nu / nc))
                if q.is_Rational and q > 0:
                    r = True
                    break
            if not r:
                for cand in _CAND:
                    if any(oblig.normal_form(u - m * cand) == 0
                           for m in (sp.Rational(1, 2), 1, sp.Rational(1, 12), sp.Rational(1, 24))):
                        r = True
                        break
        _RES_CACHE[key] = r
    return r


def _resolve(e, s):
    """eliminate Abs / sign atoms whose argument is a positive multiple of an expression known to carry the
    orientation sign s = +-1:  Abs(u) -> s*u,  sign(u) -> s.  The match is decided by normal forms."""
    e = sp.sympify(e)
    rep = {}
    for atom in e.atoms(sp.Abs, sp.sign):
        u = atom.args[0]
        if _carries_orientation(u):
            rep[atom] = s * u if isinstance(atom, sp.Abs) else sp.Integer(s)
    return e.xreplace(rep) if rep else e


def _eq(chk, name, fkey, pc, code, spec, replay=None):
    """code == spec for both orientations of the vertex cycle (s = +1: counter-clockwise about the normal)"""
    if not (sp.sympify(code).has(sp.Abs, sp.sign) or sp.sympify(spec).has(sp.Abs, sp.sign)):
        return chk.prove_eq(name, fkey, pc, code, spec, replay=replay)
    out = None
    for s, tag in ((1, "ccw"), (-1, "cw")):
        out = chk.prove_eq(f"{name}[{tag}]", fkey, pc, _resolve(code, s), _resolve(spec, s), replay=replay)
    return out


def _concretise(chk, name, fk, expr, reference):
    """cross-check of the engine (pyvc.concrete) in the xy chart: the symbolic value with the coordinates of a real L-shaped polygon in the plane
    z = d (counter-clockwise, normal +z, where kabsch's identity clause applies) against the same getter run by CPython"""
    from pyvc import concrete
    from .common import real_coxeter
    L = np.array([[0.0, 0], [3, 0], [3, 1], [1, 1], [1, 3], [0, 3]]) + np.array([0.5, -0.25])
    d_ = 0.75
    o = real_coxeter().shapes.Polygon(np.c_[L, np.full(len(L), d_)])
    env = concrete.Env(sizes={G.P: len(L)}, arrays={"px": lambda k: L[int(k) % len(L), 0], "py": lambda k: L[int(k) % len(L), 1]}, scalars={G.dd: d_})
    concrete.cross_check(chk, name, fk, expr, env, (), np.asarray(reference(o)), rtol=1e-9)


def run(chk):
    ld = chk.loader()
    shapes = ld.load("coxeter.shapes")
    chk.trusted += [
        "float64 arithmetic treated as exact real arithmetic",
        "the integral of a polynomial over the region of a simple polygon is orientation * the sum of its exact "
        "integrals over the oriented fan triangles (0, p_k, p_k+1) (Green); the integral of a square over the region is >= 0",
        "polynomial identities on SO(3) are decided by reduction modulo the Groebner basis of R R^T = 1, R = cof(R)",
        "Sigma laws S1-S3 (congruence, linearity, cyclic shift) for finite sums",
    ]
    chk.assumed += ["rowan.mapping.kabsch([n,-n],[[0,0,1],[0,0,-1]]) returns a proper rotation R' with R' n = z "
                    "(R' = Rz(phi) R for an unspecified angle phi), and the identity when n = z"]
    oblig.RELATIONS[:] = [(G.KABSCH_REL, G.ks)]
    from pyvc import symnp
    gb, gsyms = G.so3_ideal()
    from .bounded_c04 import replay_polygon, run_bounded
    charts = ["xy", "so3"]
    facts = G.P.facts()
    xk, yk = G.xk, G.yk
    A2 = G.A2()
    sgn = sp.sign(A2)
    area = sp.Abs(A2) / 2
    dx, dy = G.nxt(xk) - xk, G.nxt(yk) - yk
    perim = sum_over(G.P, sp.sqrt(sp.factor_terms(sp.expand(dx**2 + dy**2))))
    cx = G.fan(X) / G.fan(1)
    cy = G.fan(Y) / G.fan(1)
    polar = sgn * G.fan(X**2 + Y**2)
    # positivity of integrals of squares over the region (trusted mathematics, see above)
    pos = [sp.Ge(sgn * G.fan(X**2), 0), sp.Ge(sgn * G.fan(Y**2), 0), sp.Ne(A2, 0)]
    _RES_CACHE.clear()
    _CAND[:] = [A2, G.fan(X**2), G.fan(Y**2), G.fan((X - cx)**2), G.fan((Y - cy)**2)]

    fk_sa = chk.function(MOD, "Polygon.signed_area[get]")
    fk_ar = chk.function(MOD, "Polygon.area[get]")
    fk_pe = chk.function(MOD, "Polygon.perimeter[get]")
    fk_ce = chk.function(MOD, "Polygon.centroid[get]")
    fk_pm = chk.function(MOD, "Polygon.planar_moments_inertia[get]")
    fk_po = chk.function("coxeter.shapes.base_classes", "Shape2D.polar_moment_inertia[get]")
    fk_it = chk.function(MOD, "Polygon.inertia_tensor[get]")
    fk_al = chk.function(MOD, "_align_points_by_normal")
    fk_ro = chk.function("coxeter.shapes.utils", "rotate_order2_tensor")

    def set_chart(chart):
        symnp.IDEAL.update({"G": gb, "syms": gsyms} if chart == "so3" else {"G": None, "syms": ()})

    def make_state(chart):
        def state():
            o, R = G.polygon(shapes, chart)
            G.install_kabsch(R, chart)
            return o, R
        return state

    def sec_a(chart):
        def task(chk):
            set_chart(chart)
            state = make_state(chart)

            def run_a():
                o, R = state()
                return o.signed_area, o.area, o.perimeter
            for p in chk.explore(fk_sa, run_a, assumptions=facts):
                t = f"{chart}:{path_tag(p)}"
                sa, ar, pe = (ex(v) for v in p.value)
                _eq(chk, f"signed_area:post[{t}]", fk_sa, p.pc, sa, A2 / 2, replay=replay_polygon("signed_area"))
                if chart == "xy":
                    _concretise(chk, f"Polygon.signed_area[{t}]", fk_sa, sa, lambda o: o.signed_area)
                    _concretise(chk, f"Polygon.perimeter[{t}]", fk_pe, pe, lambda o: o.perimeter)
                _eq(chk, f"area:post[{t}]", fk_ar, p.pc, ar, area, replay=replay_polygon("area"))
                _eq(chk, f"perimeter:post[{t}]", fk_pe, p.pc, pe, perim, replay=replay_polygon("perimeter"))
        return task

    def sec_c(chart):
        def task(chk):
            set_chart(chart)
            state = make_state(chart)

            def run_c():
                o, R = state()
                return o.centroid, R
            for p in chk.explore(fk_ce, run_c, assumptions=facts + [sp.Ne(A2, 0)]):
                t = f"{chart}:{path_tag(p)}"
                cen, R = p.value
                if chart == "xy":
                    for j in range(3):
                        _concretise(chk, f"Polygon.centroid[{'xyz'[j]}][{t}]", fk_ce, ex(cen[j]), lambda o, j=j: o.centroid[j])
                for j in range(3):
                    spec = cx * R[0, j] + cy * R[1, j] + G.dd * R[2, j]
                    _eq(chk, f"centroid:post[{'xyz'[j]}][{t}]", fk_ce, p.pc, ex(cen[j]), spec,
                        replay=replay_polygon("centroid"))
        return task

    def sec_m(chart):
        def task(chk):
            set_chart(chart)
            state = make_state(chart)

            def run_m():
                o, R = state()
                return o.planar_moments_inertia, o.polar_moment_inertia
            for p in chk.explore(fk_pm, run_m, assumptions=facts + pos):
                t = f"{chart}:{path_tag(p)}"
                (ix, iy, ixy), po = p.value
                if chart == "xy":
                    for nm_, v_, k_ in (("Ix", ix, 0), ("Iy", iy, 1), ("Ixy", ixy, 2)):
                        _concretise(chk, f"Polygon.planar_moments_inertia[{nm_}][{t}]", fk_pm, ex(v_), lambda o, k_=k_: o.planar_moments_inertia[k_])
                    # the property pins I_x, I_y, I_xy for polygons in the xy-plane with +z normal
                    _eq(chk, f"moments:Ix[{t}]", fk_pm, p.pc + pos, ex(ix), sgn * G.fan(Y**2), replay=replay_polygon("Ix"))
                    _eq(chk, f"moments:Iy[{t}]", fk_pm, p.pc + pos, ex(iy), sgn * G.fan(X**2), replay=replay_polygon("Iy"))
                    _eq(chk, f"moments:Ixy[{t}]", fk_pm, p.pc + pos, ex(ixy), sgn * G.fan(X * Y), replay=replay_polygon("Ixy"))
                _eq(chk, f"polar:post[{t}]", fk_po, p.pc + pos, ex(po), polar, replay=replay_polygon("polar"))
            for fk, nm in ((fk_al, "_align_points_by_normal"), (fk_ro, "rotate_order2_tensor")):
                chk.record(f"{nm}:inlined[{chart}]", fk, "proved", "inlined",
                           detail="body executed as part of its callers' verified text in this chart")
        return task

    def sec_t(chart, prefix, entry):
        """inertia tensor: one task per (path, entry); the path is selected by its decision prefix -- the
        area section of the same chart establishes that these prefixes are all the feasible paths"""
        def task(chk):
            set_chart(chart)
            state = make_state(chart)

            def run_t():
                o, R = state()
                before = (o._vertices, o._vertices.copy(), o._normal, o._normal.copy())
                it = o.inertia_tensor
                return it, R, before, (o._vertices, o._normal)
            res = chk.explore(fk_it, run_t, assumptions=facts + pos, only=[prefix])
            if any(p.decisions != list(prefix) for p in res):
                # the code has more (or other) branches than the area section found: explore everything below this prefix
                res = [p for p in chk.explore(fk_it, run_t, assumptions=facts + pos) if p.decisions[:len(prefix)] == list(prefix)]
            for p in res:
                if p.kind != "return":
                    # an exception on the hand-built Inv-state can be an artefact (e.g. a field the real constructor sets):
                    # it counts only if real polygons reproduce a wrong / failing inertia tensor
                    chk.record(f"inertia_tensor:returns[{chart}:{path_tag(p)}]", fk_it, "refuted", "path", model={},
                               detail=f"{type(p.exc).__name__}: {p.exc}", replay=replay_polygon("inertia_tensor"), abstracted=True)
                    continue
                t = f"{chart}:{path_tag(p)}"
                it, R, before, after = p.value
                C = [cx * R[0, j] + cy * R[1, j] + G.dd * R[2, j] for j in range(3)]
                jc = polar - area * (cx**2 + cy**2)
                c2 = sum(c * c for c in C)
                for i, j in (entry,):
                    spec = jc * R[2, i] * R[2, j] + area * ((c2 if i == j else 0) - C[i] * C[j])
                    _eq(chk, f"inertia_tensor:post[{i}{j}][{t}]", fk_it, p.pc + pos, ex(it[i, j]), spec,
                        replay=replay_polygon("inertia_tensor"))
                if entry != (0, 0):
                    continue
                # frame (C16): the vertex array the caller may hold is the same object, with the same content
                v_obj, v_copy, n_obj, n_copy = before
                same_obj = after[0] is v_obj
                chk.record(f"inertia_tensor:keeps_vertex_array_object[{t}]", fk_it, "proved" if same_obj else "refuted",
                           "heap-identity", model={}, replay=replay_polygon("alias"))
                unchanged = all(sp.expand(to_expr(a) - to_expr(b)) == 0
                                for a, b in zip(v_obj.inner.reshape(-1), v_copy.inner.reshape(-1)))
                chk.record(f"inertia_tensor:handed_out_vertices_unchanged[{t}]", fk_it, "proved" if unchanged else "refuted",
                           "heap-content", model={}, replay=replay_polygon("alias"))
        return task

    tasks = []
    prefixes = {"xy": [()], "so3": [(True, True), (True, False), (False, True), (False, False)]}
    for chart in charts:
        for pre in prefixes[chart]:
            for entry in ((0, 0), (0, 1), (0, 2), (1, 1), (1, 2), (2, 2)):
                tasks.append((f"{chart}/tensor{pre}{entry}", sec_t(chart, pre, entry)))
    for chart in charts:
        tasks += [(f"{chart}/area", sec_a(chart)), (f"{chart}/centroid", sec_c(chart)), (f"{chart}/moments", sec_m(chart))]
    chk.run_parallel(tasks)
    set_chart("xy")
    # the tensor tasks enumerate the decision prefixes found by the area section: check they are the same set
    seen = {o.name.split("[")[-1].rstrip("]").split(":")[1] for o in chk.obls if o.name.startswith("signed_area:post[so3")}
    want = {"".join("T" if d else "F" for d in pre) for pre in prefixes["so3"]}
    if not seen <= {w + s for w in want for s in ("", "T", "F", "TT", "TF", "FT", "FF")} or not all(any(s.startswith(w) for s in seen) for w in want):
        chk.errors.append(f"inertia tensor tasks cover paths {sorted(want)} but signed_area has paths {sorted(seen)}")

    # ---------------------------------------------------------------- canaries
    chk.canary_eq("canary:signed_area==A2", fk_sa, A2 / 2, A2)
    chk.reachable("polygon facts", fk_sa, facts + pos)
    oblig.RELATIONS[:] = []
    oblig.LATE_SUBST.clear()
    symnp.IDEAL.update({"G": None, "syms": ()})
    from .common import inherits
    inherits(chk, chk.loader().load("coxeter.shapes"), "ConvexPolygon", "Polygon",
             ["signed_area", "area", "perimeter", "centroid", "planar_moments_inertia", "polar_moment_inertia", "inertia_tensor"], "coxeter.shapes.polygon")
    run_bounded(chk)
