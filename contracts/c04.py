"""C04 -- Polygon area, signed area, perimeter, centroid, planar/polar moments and inertia tensor equal the
exact integrals, for every number of vertices, either orientation and every plane of 3-space.

State and charts: contracts/polygon_state.py.  Spec: fan(h) = sum over edges of the exact integral of h over
the oriented triangle (0, p_k, p_k+1) in in-plane coordinates; for a simple polygon this is
orientation * (integral over the region).  Comparisons are Sigma-normal forms (cyclic shift invariance for
np.roll) with coefficients that are rational functions of the chart parameters, reduced modulo
kc^2 + ks^2 = 1 for the unknown in-plane angle of the kabsch rotation.
"""
from __future__ import annotations

import numpy as np
import sympy as sp

from pyvc import oblig, sigma
from pyvc.sym import to_expr
from pyvc.symarr import sum_over
from specs.moments import X, Y
from . import polygon_state as G
from .common import path_tag, ex

MOD = "coxeter.shapes.polygon"


_CAND = []      # expressions whose sign is the polygon's orientation (trusted: Green + positivity of squares)


def _resolve(e, s):
    """eliminate Abs / sign atoms whose argument is (a positive multiple of) an expression known to carry the
    orientation sign s = +-1:  Abs(u) -> s*u,  sign(u) -> s.  The match u == m*cand is decided by normal form."""
    e = sp.sympify(e)
    rep = {}
    for atom in e.atoms(sp.Abs, sp.sign):
        u = atom.args[0]
        done = False
        for cand in _CAND:
            for m in (1, sp.Rational(1, 2), sp.Rational(1, 12), sp.Rational(1, 24), sp.Rational(1, 6), 2):
                if oblig.normal_form(u - m * cand) == 0:
                    rep[atom] = s * u if isinstance(atom, sp.Abs) else sp.Integer(s)
                    done = True
                    break
            if done:
                break
    return e.xreplace(rep) if rep else e


def _eq(chk, name, fkey, pc, code, spec, replay=None):
    """code == spec for both orientations of the vertex cycle (s = +1: counter-clockwise about the normal)"""
    if not (sp.sympify(code).has(sp.Abs, sp.sign) or sp.sympify(spec).has(sp.Abs, sp.sign)):
        return chk.prove_eq(name, fkey, pc, code, spec, replay=replay)
    out = None
    for s, tag in ((1, "ccw"), (-1, "cw")):
        out = chk.prove_eq(f"{name}[{tag}]", fkey, pc, _resolve(code, s), _resolve(spec, s), replay=replay)
    return out


def run(chk):
    ld = chk.loader()
    shapes = ld.load("coxeter.shapes")
    chk.trusted += [
        "float64 arithmetic treated as exact real arithmetic",
        "the integral of a polynomial over the region of a simple polygon is orientation * the sum of its exact "
        "integrals over the oriented fan triangles (0, p_k, p_k+1) (Green); the integral of a square over the region is >= 0",
        "polynomial identities on SO(3) are decided by reduction modulo the Groebner basis of R R^T = 1, R = cof(R)",
        "Sigma laws S1-S3 (congruence, linearity, cyclic shift) for finite sums",
    ]
    chk.assumed += ["rowan.mapping.kabsch([n,-n],[[0,0,1],[0,0,-1]]) returns a proper rotation R' with R' n = z "
                    "(R' = Rz(phi) R for an unspecified angle phi), and the identity when n = z"]
    oblig.RELATIONS[:] = [(G.KABSCH_REL, G.ks)]
    from pyvc import symnp
    gb, gsyms = G.so3_ideal()
    from .bounded_c04 import replay_polygon, run_bounded
    charts = ["xy", "so3"]
    facts = G.P.facts()
    xk, yk = G.xk, G.yk
    A2 = G.A2()
    sgn = sp.sign(A2)
    area = sp.Abs(A2) / 2
    dx, dy = G.nxt(xk) - xk, G.nxt(yk) - yk
    perim = sum_over(G.P, sp.sqrt(sp.factor_terms(sp.expand(dx**2 + dy**2))))
    cx = G.fan(X) / G.fan(1)
    cy = G.fan(Y) / G.fan(1)
    polar = sgn * G.fan(X**2 + Y**2)
    # positivity of integrals of squares over the region (trusted mathematics, see above)
    pos = [sp.Ge(sgn * G.fan(X**2), 0), sp.Ge(sgn * G.fan(Y**2), 0), sp.Ne(A2, 0)]
    _CAND[:] = [A2, G.fan(X**2), G.fan(Y**2), G.fan((X - cx)**2), G.fan((Y - cy)**2)]

    fk_sa = chk.function(MOD, "Polygon.signed_area[get]")
    fk_ar = chk.function(MOD, "Polygon.area[get]")
    fk_pe = chk.function(MOD, "Polygon.perimeter[get]")
    fk_ce = chk.function(MOD, "Polygon.centroid[get]")
    fk_pm = chk.function(MOD, "Polygon.planar_moments_inertia[get]")
    fk_po = chk.function("coxeter.shapes.base_classes", "Shape2D.polar_moment_inertia[get]")
    fk_it = chk.function(MOD, "Polygon.inertia_tensor[get]")
    fk_al = chk.function(MOD, "_align_points_by_normal")
    fk_ro = chk.function("coxeter.shapes.utils", "rotate_order2_tensor")

    for chart in charts:
        symnp.IDEAL.update({"G": gb, "syms": gsyms} if chart == "so3" else {"G": None, "syms": ()})

        def state():
            o, R = G.polygon(shapes, chart)
            G.install_kabsch(R, chart)
            return o, R

        # ---------------------------------------------------------------- signed area / area / perimeter
        def run_a():
            o, R = state()
            return o.signed_area, o.area, o.perimeter
        for p in chk.explore(fk_sa, run_a, assumptions=facts):
            t = f"{chart}:{path_tag(p)}"
            sa, ar, pe = (ex(v) for v in p.value)
            _eq(chk, f"signed_area:post[{t}]", fk_sa, p.pc, sa, A2 / 2, replay=replay_polygon("signed_area"))
            _eq(chk, f"area:post[{t}]", fk_ar, p.pc, ar, area, replay=replay_polygon("area"))
            _eq(chk, f"perimeter:post[{t}]", fk_pe, p.pc, pe, perim, replay=replay_polygon("perimeter"))

        # ---------------------------------------------------------------- centroid
        def run_c():
            o, R = state()
            return o.centroid, R
        for p in chk.explore(fk_ce, run_c, assumptions=facts + [sp.Ne(A2, 0)]):
            t = f"{chart}:{path_tag(p)}"
            cen, R = p.value
            for j in range(3):
                spec = cx * R[0, j] + cy * R[1, j] + G.dd * R[2, j]
                _eq(chk, f"centroid:post[{'xyz'[j]}][{t}]", fk_ce, p.pc, ex(cen[j]), spec,
                    replay=replay_polygon("centroid"))

        # ---------------------------------------------------------------- planar / polar moments
        def run_m():
            o, R = state()
            return o.planar_moments_inertia, o.polar_moment_inertia
        for p in chk.explore(fk_pm, run_m, assumptions=facts + pos):
            t = f"{chart}:{path_tag(p)}"
            (ix, iy, ixy), po = p.value
            if chart == "xy":
                # the property pins I_x, I_y, I_xy for polygons in the xy-plane with +z normal
                _eq(chk, f"moments:Ix[{t}]", fk_pm, p.pc + pos, ex(ix), sgn * G.fan(Y**2), replay=replay_polygon("Ix"))
                _eq(chk, f"moments:Iy[{t}]", fk_pm, p.pc + pos, ex(iy), sgn * G.fan(X**2), replay=replay_polygon("Iy"))
                _eq(chk, f"moments:Ixy[{t}]", fk_pm, p.pc + pos, ex(ixy), sgn * G.fan(X * Y), replay=replay_polygon("Ixy"))
            _eq(chk, f"polar:post[{t}]", fk_po, p.pc + pos, ex(po), polar, replay=replay_polygon("polar"))

        # ---------------------------------------------------------------- inertia tensor about the origin
        def run_t():
            o, R = state()
            before = (o._vertices, o._vertices.copy(), o._normal, o._normal.copy())
            it = o.inertia_tensor
            return it, R, before, (o._vertices, o._normal)
        for p in chk.explore(fk_it, run_t, assumptions=facts + pos):
            t = f"{chart}:{path_tag(p)}"
            it, R, before, after = p.value
            C = [cx * R[0, j] + cy * R[1, j] + G.dd * R[2, j] for j in range(3)]
            jc = polar - area * (cx**2 + cy**2)
            c2 = sum(c * c for c in C)
            for i in range(3):
                for j in range(i, 3):
                    spec = jc * R[2, i] * R[2, j] + area * ((c2 if i == j else 0) - C[i] * C[j])
                    _eq(chk, f"inertia_tensor:post[{i}{j}][{t}]", fk_it, p.pc + pos, ex(it[i, j]), spec,
                        replay=replay_polygon("inertia_tensor"))
            # frame (C16): the vertex array the caller may hold is the same object, with the same content
            v_obj, v_copy, n_obj, n_copy = before
            same_obj = after[0] is v_obj
            chk.record(f"inertia_tensor:keeps_vertex_array_object[{t}]", fk_it, "proved" if same_obj else "refuted",
                       "heap-identity", model={}, replay=replay_polygon("alias"))
            unchanged = all(sp.expand(to_expr(a) - to_expr(b)) == 0 for a, b in zip(v_obj.inner.reshape(-1), v_copy.inner.reshape(-1)))
            chk.record(f"inertia_tensor:handed_out_vertices_unchanged[{t}]", fk_it, "proved" if unchanged else "refuted",
                       "heap-content", model={}, replay=replay_polygon("alias"))
        for fk, nm in ((fk_al, "_align_points_by_normal"), (fk_ro, "rotate_order2_tensor")):
            chk.record(f"{nm}:inlined[{chart}]", fk, "proved", "inlined",
                       detail="body executed as part of its callers' verified text in this chart")

    # ---------------------------------------------------------------- canaries
    chk.canary_eq("canary:signed_area==A2", fk_sa, A2 / 2, A2)
    chk.reachable("polygon facts", fk_sa, facts + pos)
    oblig.RELATIONS[:] = []
    oblig.LATE_SUBST.clear()
    symnp.IDEAL.update({"G": None, "syms": ()})
    run_bounded(chk)
