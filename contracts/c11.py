"""C11 -- rounded shapes obey the Steiner formulas; curvature descriptors match their definitions.

Relational proofs over the same abstract edge sequence: the real reduction loops of ConvexSpheropolyhedron.volume,
.surface_area and ConvexPolyhedron.mean_curvature are summarised over a symbolic number E of edges (i_e, j_e, edge_e)
with dihedral angle phi_e = get_dihedral(i_e, j_e) (callee contract) and compared with V + S r + 4 pi M r^2 + 4/3 pi r^3,
S + 8 pi M r + 4 pi r^2 and M + r, where V, S, M are the core's volume, surface_area, mean_curvature.
"""
from __future__ import annotations

import numpy as np
import sympy as sp

from pyvc import sigma
from pyvc.sym import Sym, to_expr, wrap
from pyvc.symarr import Dim, SymArr, SymSeq, make, sum_over
from . import mutators as M
from .common import path_tag, ex

E = Dim("Ed", minimum=6)
NV = M.NV
ei = sp.Function("edge_i", integer=True)(E.k)
ej = sp.Function("edge_j", integer=True)(E.k)
e0 = sp.Function("edge_a", integer=True)(E.k)
e1 = sp.Function("edge_b", integer=True)(E.k)
phi = sp.Function("dihedral", real=True)
V0, S0, M0, A0, P0 = sp.symbols("V0 S0 M0 A0 P0", real=True)
rr = sp.Symbol("rr", nonnegative=True)
Vm = sp.Function("Vm", real=True)


def edge_seq():
    return SymSeq(E, (Sym(ei), Sym(ej), (Sym(e0), Sym(e1))))


def edge_length():
    d = [Vm(e0, sp.Integer(j)) - Vm(e1, sp.Integer(j)) for j in range(3)]
    return sp.sqrt(sp.factor_terms(sp.expand(sum(x * x for x in d))))


V1, S1, M1 = sp.symbols("V1 S1 M1", real=True)
phi1 = sp.Function("dihedral1", real=True)
Vm1 = sp.Function("Vm1", real=True)
sc = sp.Symbol("sc", positive=True)


def core_with_contracts(shapes, volume=True):
    """ConvexPolyhedron whose measures are their contract values and whose edges are the abstract sequence.

    _rescale (contract proved in C08) moves the object to a second abstract core state (V1, S1, Vm1, dihedral1) with the
    same combinatorics: whatever the rescaled core is, the spheropolyhedron's getters must be Steiner's polynomial of it."""
    def _rescale(self, s):
        self._gen = 1
        self._vertices = make("Vm1", (NV, 3))
    ns = {"volume": property(lambda self: Sym(V1 if self._gen else V0)),
          "surface_area": property(lambda self: Sym(S1 if self._gen else S0)),
          "_get_face_intersections": lambda self: edge_seq(),
          "get_dihedral": lambda self, a, b: Sym((phi1 if self._gen else phi)(to_expr(a), to_expr(b))),
          "_rescale": _rescale}
    cls = type("ConvexPolyhedron_c11", (shapes.ConvexPolyhedron,), ns)
    o = object.__new__(cls)
    o._gen = 0
    o._vertices = make("Vm", (NV, 3))
    return o


def _replay_dihedral():
    """real get_dihedral on every pair of neighbouring faces of solids with ordinary, nearly flat (1e-3 .. 1e-5 rad from coplanar) and
    knife-sharp edges, against the angle computed with atan2 from exact rational face normals"""
    def replay(model):
        import math
        from bounded import oracle
        from .common import real_coxeter
        cox = real_coxeter()
        solids = {"cube": [[x, y, z] for x in (0.0, 1) for y in (0.0, 1) for z in (0.0, 1)]}
        for eps in (1e-2, 1e-3, 1e-4, 1e-5):
            solids[f"roofed_cube_{eps:g}"] = solids["cube"] + [[0.5, 0.5, 1 + eps]]
            solids[f"wedge_{eps:g}"] = [[0.0, 0, 0], [1, 0, 0], [0, 1, 0], [1, 1, 0], [0.0, 0, eps], [1.0, 0, eps]]
            solids[f"bipyramid12_{eps:g}"] = [[math.cos(2 * math.pi * k / 12), math.sin(2 * math.pi * k / 12), 0.0] for k in range(12)] + [[0, 0, eps], [0, 0, -eps]]
        for name, pts in solids.items():
            try:
                poly = cox.shapes.ConvexPolyhedron(np.array(pts, float))
            except Exception as e:  # noqa: BLE001
                return True, {"solid": name, "raised": f"{type(e).__name__}: {e}"[:200]}
            V = np.asarray(poly.vertices, float)
            nrm = []
            for f in poly.faces:
                a, b, c = V[f[0]], V[f[1]], V[f[2]]
                n = np.cross(b - a, c - a)
                nrm.append(n / np.linalg.norm(n))
            for i, nb in enumerate(poly.neighbors):
                for j in nb:
                    j = int(j)
                    cr = np.linalg.norm(np.cross(nrm[i], nrm[j]))
                    want = math.pi - math.atan2(cr, float(np.dot(nrm[i], nrm[j])))
                    try:
                        got = float(poly.get_dihedral(i, j))
                    except Exception as e:  # noqa: BLE001
                        return True, {"solid": name, "faces": [i, j], "raised": f"{type(e).__name__}: {e}"[:200]}
                    if not abs(got - want) <= 1e-7 * max(1e-3, abs(math.pi - want)) + 1e-9:
                        return True, {"solid": name, "vertices": V.tolist(), "faces": [i, j], "get_dihedral": got, "angle_between_the_faces": want}
        return False, {}
    return replay


def run(chk):
    ld = chk.loader()
    shapes = ld.load("coxeter.shapes")
    chk.trusted += [
        "float64 arithmetic treated as exact real arithmetic",
        "callee contracts: core volume / surface_area / signed_area / perimeter are exact (C01, C04); get_dihedral returns "
        "the angle phi between the two faces; _get_face_intersections enumerates each edge once (C07)",
        "Steiner's formula itself is not assumed: the property states the polynomial and the code is compared with it",
    ]
    MODS = "coxeter.shapes.convex_spheropolyhedron"
    MODC = "coxeter.shapes.convex_polyhedron"
    MODG = "coxeter.shapes.convex_spheropolygon"
    L = edge_length()
    edge_sum = sum_over(E, L * (sp.pi - phi(ei, ej)))       # sum_e L_e (pi - phi_e)
    Mcore = edge_sum / (8 * sp.pi)

    def sec_0():
        fk = chk.function(MODC, "ConvexPolyhedron.mean_curvature[get]")
        for p in chk.explore(fk, lambda: core_with_contracts(shapes).mean_curvature, assumptions=E.facts()):
            chk.prove_eq("mean_curvature:definition", fk, p.pc, ex(p.value), Mcore)
        for member, spec in (("tau", 4 * sp.pi * M0**2 / S0), ("asphericity", M0 * S0 / (3 * V0))):
            fk = chk.function(MODC, f"ConvexPolyhedron.{member}[get]")

            def run_m(member=member):
                o = core_with_contracts(shapes)
                o.__class__ = type("c", (o.__class__,), {"mean_curvature": property(lambda self: Sym(M0))})
                return getattr(o, member)
            for p in chk.explore(fk, run_m):
                chk.prove_eq(f"{member}:definition", fk, p.pc, ex(p.value), spec)
        fk = chk.function("coxeter.shapes.base_classes", "Shape3D.iq[get]")
        for p in chk.explore(fk, lambda: core_with_contracts(shapes).iq):
            chk.prove_eq("iq3d:definition", fk, p.pc, ex(p.value), 36 * sp.pi * V0**2 / S0**3)
        fk = chk.function("coxeter.shapes.polyhedron", "Polyhedron.get_dihedral")

        def run_d():
            o = object.__new__(shapes.Polyhedron)
            n = [[sp.Symbol(f"n{a}{j}", real=True) for j in range(3)] for a in range(2)]
            o._equations = np.array([[Sym(x) for x in n[0]] + [Sym(sp.Symbol("d0"))], [Sym(x) for x in n[1]] + [Sym(sp.Symbol("d1"))]], dtype=object)
            o._neighbors = [np.array([1]), np.array([0])]
            return o.get_dihedral(0, 1), n
        for p in chk.explore(fk, run_d):
            val, n = p.value
            chk.prove_eq("get_dihedral:post", fk, p.pc, ex(val), sp.acos(-sum(n[0][j] * n[1][j] for j in range(3))),
                         replay=_replay_dihedral())

        def run_d2():
            o = object.__new__(shapes.Polyhedron)
            o._equations = np.zeros((3, 4), dtype=object)
            o._neighbors = [np.array([1]), np.array([0]), np.array([], dtype=int)]
            try:
                o.get_dihedral(0, 2)
            except ValueError:
                return "ValueError"
            return "returned"
        for p in chk.explore(fk, run_d2):
            chk.record("get_dihedral:non_neighbours_raise_ValueError", fk, "proved" if p.value == "ValueError" else "refuted",
                       "concrete", model={})
    chk.section("convexpolyhedron_curvature_descriptors", "coxeter.shapes.convex_spheropolyhedron::ConvexSpheropolyhedron", sec_0)

    def sec_1():
        smod = ld.load(MODS)

        def sphero():
            # built by the real constructor, with the core replaced by its contract object
            old = smod.ConvexPolyhedron
            smod.ConvexPolyhedron = lambda v: core_with_contracts(shapes)
            try:
                return smod.ConvexSpheropolyhedron("VERTICES", Sym(rr))
            finally:
                smod.ConvexPolyhedron = old
        fk = chk.function(MODS, "ConvexSpheropolyhedron.volume[get]")
        for p in chk.explore(fk, lambda: sphero().volume, assumptions=E.facts()):
            spec = V0 + S0 * rr + 4 * sp.pi * Mcore * rr**2 + sp.Rational(4, 3) * sp.pi * rr**3
            chk.prove_eq("spheropolyhedron.volume:steiner", fk, p.pc, ex(p.value), spec)
            chk.prove_eq("spheropolyhedron.volume:r_zero", fk, p.pc, ex(p.value).subs(rr, 0), V0)
        fk = chk.function(MODS, "ConvexSpheropolyhedron.surface_area[get]")
        for p in chk.explore(fk, lambda: sphero().surface_area, assumptions=E.facts()):
            spec = S0 + 8 * sp.pi * Mcore * rr + 4 * sp.pi * rr**2
            chk.prove_eq("spheropolyhedron.surface_area:steiner", fk, p.pc, ex(p.value), spec)
            chk.prove_eq("spheropolyhedron.surface_area:r_zero", fk, p.pc, ex(p.value).subs(rr, 0), S0)
        fk = chk.function(MODS, "ConvexSpheropolyhedron.mean_curvature[get]")

        def run_mc():
            o = sphero()
            o._polyhedron.__class__ = type("c", (o._polyhedron.__class__,), {"mean_curvature": property(lambda self: Sym(M0))})
            return o.mean_curvature
        for p in chk.explore(fk, run_mc):
            chk.prove_eq("spheropolyhedron.mean_curvature:steiner", fk, p.pc, ex(p.value), M0 + rr)

        # no hidden state: after every getter has been read once and the shape has been resized by the real _rescale
        # (core._rescale by its C08 contract: a second abstract core state), the getters are Steiner's polynomial of the
        # *current* core and radius
        L1 = sp.sqrt(sp.factor_terms(sp.expand(sum((Vm1(e0, sp.Integer(j)) - Vm1(e1, sp.Integer(j)))**2 for j in range(3)))))
        Mcore1 = sum_over(E, L1 * (sp.pi - phi1(ei, ej))) / (8 * sp.pi)
        r1 = rr * sc
        specs = {"volume": V1 + S1 * r1 + 4 * sp.pi * Mcore1 * r1**2 + sp.Rational(4, 3) * sp.pi * r1**3,
                 "surface_area": S1 + 8 * sp.pi * Mcore1 * r1 + 4 * sp.pi * r1**2,
                 "mean_curvature": M1 + r1}
        for member, spec in specs.items():
            fk = chk.function(MODS, f"ConvexSpheropolyhedron.{member}[get]")

            def run_hist(member=member):
                o = sphero()
                core = o._polyhedron
                core.__class__ = type("c", (core.__class__,), {
                    "mean_curvature": property(lambda self: Sym(M1 if self._gen else M0))}) if member == "mean_curvature" else core.__class__
                before = (o.volume, o.surface_area) + ((o.mean_curvature,) if member == "mean_curvature" else ())
                o._rescale(Sym(sc))
                return getattr(o, member)
            for p in chk.explore(fk, run_hist, assumptions=E.facts()):
                chk.prove_eq(f"spheropolyhedron.{member}:steiner_after_read_and_rescale[{path_tag(p)}]", fk, p.pc, ex(p.value), spec,
                             replay=lambda m, member=member: replay_read_rescale(member))
    chk.section("convexspheropolyhedron", "coxeter.shapes.convex_spheropolyhedron::ConvexSpheropolyhedron", sec_1)

    def sec_2():

        gmod = ld.load(MODG)

        def spg():
            poly_cls = type("ConvexPolygon_c11", (shapes.ConvexPolygon,), {
                "signed_area": property(lambda self: Sym(A0)), "perimeter": property(lambda self: Sym(P0))})

            def make_poly(vertices, normal=None, *a, **k):
                poly = object.__new__(poly_cls)
                poly._vertices = make("Vm", (NV, 3))
                poly._normal = np.array([0, 0, 1], dtype=object)
                return poly
            old, old2 = gmod.ConvexPolygon, gmod._is_convex
            gmod.ConvexPolygon, gmod._is_convex = make_poly, (lambda v, n: True)
            try:
                return gmod.ConvexSpheropolygon("VERTICES", Sym(rr))
            finally:
                gmod.ConvexPolygon, gmod._is_convex = old, old2
        k = NV.k
        nxt = sp.Mod(k + 1, NV.n)
        d = [Vm(k, sp.Integer(j)) - Vm(nxt, sp.Integer(j)) for j in range(3)]
        per_sum = sum_over(NV, sp.sqrt(sp.factor_terms(sp.expand(sum(x * x for x in d)))))
        fk = chk.function(MODG, "ConvexSpheropolygon.signed_area[get]")
        for p in chk.explore(fk, lambda: (spg().signed_area, spg().area), assumptions=NV.facts()):
            sa, ar = (ex(v) for v in p.value)
            t = path_tag(p)
            steiner = per_sum * rr + sp.pi * rr**2
            chk.prove(f"spheropolygon.signed_area:steiner[{t}]", fk, p.pc + [sp.Ge(per_sum, 0)],
                      sp.And(sp.Eq(sp.Abs(sa), sp.Abs(A0) + steiner), sp.Implies(sp.Ne(A0, 0), sp.Eq(sp.sign(sa), sp.sign(A0)))))
            chk.prove(f"spheropolygon.area:steiner[{t}]", fk, p.pc + [sp.Ge(per_sum, 0)], sp.Eq(ar, sp.Abs(A0) + steiner))
            chk.prove_eq(f"spheropolygon.signed_area:r_zero[{t}]", fk, p.pc, sa.subs(rr, 0), A0)
        chk.record("spheropolygon.edge_sum_is_core_perimeter", fk,
                   "proved" if sigma.is_zero(per_sum - _polygon_perimeter_spec()) else "refuted", "sigma-normal-form", model={},
                   goal="sum_k |v_k - v_k+1| == sum_k |v_k+1 - v_k| (the core's perimeter, C04)")
        fk = chk.function(MODG, "ConvexSpheropolygon.perimeter[get]")
        for p in chk.explore(fk, lambda: spg().perimeter):
            chk.prove_eq("spheropolygon.perimeter:steiner", fk, p.pc, ex(p.value), P0 + 2 * sp.pi * rr)
        fk = chk.function("coxeter.shapes.base_classes", "Shape2D.iq[get]")

        def run_iq():
            o = spg()
            o.__class__ = type("c", (o.__class__,), {"area": property(lambda self: Sym(A0)), "perimeter": property(lambda self: Sym(P0))})
            return o.iq
        for p in chk.explore(fk, run_iq):
            chk.prove_eq("iq2d:definition", fk, p.pc, ex(p.value), 4 * sp.pi * A0 / P0**2)
    chk.section("convexspheropolygon", "coxeter.shapes.convex_spheropolyhedron::ConvexSpheropolyhedron", sec_2)

    chk.canary_eq("canary:steiner_with_wrong_coefficient", "coxeter.shapes.base_classes::Shape2D.iq[get]", V0 + S0 * rr, V0 + 2 * S0 * rr)
    from .bounded_c11 import run_bounded
    run_bounded(chk)


def replay_read_rescale(member):
    """box core a x b x c (closed-form V, S, M = (a+b+c)/4), radius r: read every getter, resize by the real _rescale, re-read"""
    import itertools
    import math
    from .common import real_coxeter
    cox = real_coxeter()
    a, b, c, r, s = 1.0, 2.0, 3.0, 0.5, 2.0
    verts = [[x, y, z] for x, y, z in itertools.product((0, a), (0, b), (0, c))]
    o = cox.shapes.ConvexSpheropolyhedron(verts, r)
    before = {m: float(getattr(o, m)) for m in ("volume", "surface_area", "mean_curvature")}
    o._rescale(s)
    a, b, c, r = a * s, b * s, c * s, r * s
    V, S, Mc = a * b * c, 2 * (a * b + b * c + c * a), (a + b + c) / 4
    want = {"volume": V + S * r + 4 * math.pi * Mc * r**2 + 4 / 3 * math.pi * r**3,
            "surface_area": S + 8 * math.pi * Mc * r + 4 * math.pi * r**2, "mean_curvature": Mc + r}[member]
    got = float(getattr(o, member))
    return abs(got - want) > 1e-9 * want, {"core": "box 1x2x3", "radius": 0.5, "history": ["read volume, surface_area, mean_curvature",
                                                                                          "_rescale(2.0)", f"read {member}"],
                                           "observed": got, "steiner_of_current_state": want, "before": before}


def _polygon_perimeter_spec():
    k = NV.k
    nxt = sp.Mod(k + 1, NV.n)
    d = [Vm(nxt, sp.Integer(j)) - Vm(k, sp.Integer(j)) for j in range(3)]
    return sum_over(NV, sp.sqrt(sp.factor_terms(sp.expand(sum(x * x for x in d)))))
