"""Exact (rational) oracles, written independently of coxeter.

All inputs are converted to Fractions (floats are exact rationals), so the oracle values are exact
for the very numbers coxeter receives.
"""
from __future__ import annotations

import itertools
import math
from fractions import Fraction as Fr


def fr(x):
    return x if isinstance(x, Fr) else Fr(x)


def frv(p):
    return tuple(fr(float(c)) if not isinstance(c, (int, Fr)) else Fr(c) for c in p)


def sub(a, b):
    return tuple(x - y for x, y in zip(a, b))


def add(a, b):
    return tuple(x + y for x, y in zip(a, b))


def dot(a, b):
    return sum(x * y for x, y in zip(a, b))


def cross(a, b):
    return (a[1] * b[2] - a[2] * b[1], a[2] * b[0] - a[0] * b[2], a[0] * b[1] - a[1] * b[0])


def det3(a, b, c):
    return dot(a, cross(b, c))


# ------------------------------------------------------------------------------- convex hull (exact, small n)
def hull_facets(points):
    """facets of conv(points) as lists of vertex indices, counter-clockwise seen from outside.
    Exact; O(n^4): use for n <= ~16.  Returns None if the points are coplanar."""
    P = [frv(p) for p in points]
    n = len(P)
    facets = {}
    for i, j, k in itertools.combinations(range(n), 3):
        nrm = cross(sub(P[j], P[i]), sub(P[k], P[i]))
        if nrm == (0, 0, 0):
            continue
        side = [dot(nrm, sub(P[m], P[i])) for m in range(n)]
        if all(s <= 0 for s in side):
            pass
        elif all(s >= 0 for s in side):
            nrm = tuple(-c for c in nrm)
        else:
            continue
        on = tuple(m for m in range(n) if side[m] == 0)
        if on not in facets:
            facets[on] = nrm
    if not facets:
        return None
    out = []
    for on, nrm in facets.items():
        out.append(order_ccw([P[m] for m in on], list(on), nrm))
    return out


def order_ccw(pts, idx, nrm):
    """vertices of the 2-D convex hull of coplanar points, counter-clockwise about nrm (exact)"""
    ax = max(range(3), key=lambda i: abs(nrm[i]))
    i1, i2 = (ax + 1) % 3, (ax + 2) % 3
    sgn = 1 if nrm[ax] > 0 else -1
    # projection dropping `ax`; (i1, i2) is right-handed about +ax
    q = sorted(((p[i1], p[i2]), m) for p, m in zip(pts, idx))

    def turn(o, a, b):
        return (a[0][0] - o[0][0]) * (b[0][1] - o[0][1]) - (a[0][1] - o[0][1]) * (b[0][0] - o[0][0])
    lower = []
    for p in q:
        while len(lower) >= 2 and turn(lower[-2], lower[-1], p) <= 0:
            lower.pop()
        lower.append(p)
    upper = []
    for p in reversed(q):
        while len(upper) >= 2 and turn(upper[-2], upper[-1], p) <= 0:
            upper.pop()
        upper.append(p)
    hull = [m for _, m in lower[:-1] + upper[:-1]]      # counter-clockwise in the (i1,i2) plane
    return hull if sgn > 0 else hull[::-1]


def fan_triangles(faces):
    tris = []
    for f in faces:
        for t in range(1, len(f) - 1):
            tris.append((f[0], f[t], f[t + 1]))
    return tris


# ------------------------------------------------------------------------------- exact solid measures
def mesh_measures(points, tris):
    """volume, centroid, inertia tensor about the origin (unit density) of the solid bounded by the
    closed oriented triangle mesh; exact rationals.  Independent formulas: signed tetrahedra from the
    origin with the standard second-moment formula of a tetrahedron."""
    P = [frv(p) for p in points]
    vol = Fr(0)
    first = [Fr(0)] * 3
    second = [[Fr(0)] * 3 for _ in range(3)]      # int x_i x_j
    for (i, j, k) in tris:
        a, b, c = P[i], P[j], P[k]
        d = det3(a, b, c)
        vol += d / 6
        s = add(add(a, b), c)
        for x in range(3):
            first[x] += d * s[x] / 24
        for x in range(3):
            for y in range(3):
                # int over tet(0,a,b,c) of x_i x_j = det/120 * (sum_p p_i p_j + s_i s_j)
                q = a[x] * a[y] + b[x] * b[y] + c[x] * c[y] + s[x] * s[y]
                second[x][y] += d * q / 120
    cen = tuple(f / vol for f in first) if vol != 0 else None
    tr = second[0][0] + second[1][1] + second[2][2]
    inertia = [[(tr if x == y else 0) - second[x][y] for y in range(3)] for x in range(3)]
    return vol, cen, inertia


def mesh_area(points, faces):
    """total and per-face area (floats from exact radicands)"""
    P = [frv(p) for p in points]
    per = []
    for f in faces:
        va = (Fr(0), Fr(0), Fr(0))
        for t in range(len(f)):
            va = add(va, cross(P[f[t]], P[f[(t + 1) % len(f)]]))
        per.append(math.sqrt(dot(va, va)) / 2 if True else 0)
    return math.fsum(per), per


def face_centroid(points, face):
    """exact centroid of a planar convex polygon face (area-weighted fan)"""
    P = [frv(p) for p in points]
    a = P[face[0]]
    wsum = Fr(0)
    acc = [Fr(0)] * 3
    # weights: signed area components along the face's vector area (exact, no sqrt needed)
    va = (Fr(0),) * 3
    for t in range(len(face)):
        va = add(va, cross(P[face[t]], P[face[(t + 1) % len(face)]]))
    for t in range(1, len(face) - 1):
        b, c = P[face[t]], P[face[t + 1]]
        w = dot(cross(sub(b, a), sub(c, a)), va)
        wsum += w
        g = tuple((a[i] + b[i] + c[i]) / 3 for i in range(3))
        for i in range(3):
            acc[i] += w * g[i]
    return tuple(x / wsum for x in acc)


# ------------------------------------------------------------------------------- planar polygons (exact)
def polygon_measures_2d(pts):
    """signed area, centroid, I_x=int y^2, I_y=int x^2, I_xy=int xy of a simple polygon in the plane"""
    P = [tuple(fr(float(c)) if not isinstance(c, (int, Fr)) else Fr(c) for c in p[:2]) for p in pts]
    n = len(P)
    A = cx = cy = ix = iy = ixy = Fr(0)
    for t in range(n):
        x0, y0 = P[t]
        x1, y1 = P[(t + 1) % n]
        w = x0 * y1 - x1 * y0
        A += w / 2
        cx += (x0 + x1) * w / 6
        cy += (y0 + y1) * w / 6
        ix += w * (y0 * y0 + y0 * y1 + y1 * y1) / 12
        iy += w * (x0 * x0 + x0 * x1 + x1 * x1) / 12
        ixy += w * (x0 * y1 + 2 * x0 * y0 + 2 * x1 * y1 + x1 * y0) / 24
    return A, (cx / A, cy / A), ix, iy, ixy


def point_in_polygon(pt, pts):
    """exact: +1 inside, 0 on the boundary, -1 outside (crossing number with rational arithmetic)"""
    x, y = fr(pt[0]), fr(pt[1])
    P = [(fr(p[0]), fr(p[1])) for p in pts]
    n = len(P)
    inside = False
    for t in range(n):
        (x0, y0), (x1, y1) = P[t], P[(t + 1) % n]
        # on the segment?
        crs = (x1 - x0) * (y - y0) - (y1 - y0) * (x - x0)
        if crs == 0 and min(x0, x1) <= x <= max(x0, x1) and min(y0, y1) <= y <= max(y0, y1):
            return 0
        if (y0 > y) != (y1 > y):
            xint = x0 + (y - y0) * (x1 - x0) / (y1 - y0)
            if xint > x:
                inside = not inside
    return 1 if inside else -1


def close(obs, exact, tol=1e-9, scale=None):
    obs, ex = float(obs), float(exact)
    s = max(abs(ex), scale or 0.0, 1e-300)
    return abs(obs - ex) <= tol * s
