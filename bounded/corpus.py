"""Enumerated input corpora for the bounded stand-ins (explicit bounds; seeded extras in the thorough tier)."""
from __future__ import annotations

import itertools
import math
import random
from fractions import Fraction as Fr

from . import oracle


def lattice_convex_sets(max_points=8, limit=None, seed=0):
    """subsets of {0,1,2}^3 in convex position that span 3-space; deterministic order.
    quick: a fixed stride sample; exhaustive enumeration is far too large, so the bound is stated."""
    pts = list(itertools.product(range(3), repeat=3))
    rnd = random.Random(1234 + seed)
    out = []
    seen = set()
    tries = 0
    while len(out) < (limit or 40) and tries < 5000:
        tries += 1
        k = rnd.randint(4, max_points)
        sub = tuple(sorted(rnd.sample(pts, k)))
        if sub in seen:
            continue
        seen.add(sub)
        if not any(oracle.det3(oracle.sub(b, a), oracle.sub(c, a), oracle.sub(d, a)) != 0
                   for a, b, c, d in itertools.combinations(sub, 4)):
            continue      # coplanar points: not a solid (the plane enumeration of hull_facets would return the plane itself)
        fac = oracle.hull_facets(sub)
        if not fac:
            continue
        used = set(i for f in fac for i in f)
        if len(used) != len(sub):
            continue      # not in convex position (some point interior / on an edge or face)
        out.append([list(map(float, p)) for p in sub])
    return out


def named_convex():
    cube = [list(map(float, p)) for p in itertools.product((0, 1), repeat=3)]
    box = [[x * 3.0, y * 1.0, z * 0.5] for x, y, z in itertools.product((0, 1), repeat=3)]
    tet = [[0.0, 0, 0], [1, 0, 0], [0, 1, 0], [0, 0, 1]]
    skew_tet = [[0.0, 0, 0], [2, 0.5, 0], [0.5, 3, 0.25], [1, 1, 2]]
    octa = [[1.0, 0, 0], [-1, 0, 0], [0, 1, 0], [0, -1, 0], [0, 0, 1], [0, 0, -1]]
    pyramid = [[0.0, 0, 0], [2, 0, 0], [2, 2, 0], [0, 2, 0], [0.5, 0.75, 3]]
    chiral = [[0.0, 0, 0], [3, 0, 0], [1, 2, 0], [0.5, 0.5, 1.5], [2, 1, -1]]
    # faces with >= 4 vertices whose vertex mean is not their area centroid (trapezoids, irregular n-gons)
    frustum = [[-1.0, -1, 0], [1, -1, 0], [1, 1, 0], [-1, 1, 0], [-0.5, -0.5, 1.5], [0.5, -0.5, 1.5], [0.5, 0.5, 1.5], [-0.5, 0.5, 1.5]]
    skew_frustum = [[0.0, 0, 0], [4, 0, 0], [4, 2, 0], [0, 2, 0], [0.5, 0.25, 1], [1.5, 0.25, 1], [1.5, 0.75, 1], [0.5, 0.75, 1]]
    pent = [(0.0, 0.0), (2.0, -1.0), (4.0, 1.0), (3.0, 3.0), (0.5, 2.5)]
    irregular_prism5 = [[x, y, 0.0] for x, y in pent] + [[x, y, 1.25] for x, y in pent]
    out = {"cube": cube, "box": box, "tet": tet, "skew_tet": skew_tet, "octahedron": octa, "pyramid": pyramid,
           "chiral5": chiral, "frustum": frustum, "skew_frustum": skew_frustum, "irregular_prism5": irregular_prism5}
    for n in (3, 5, 6, 8):
        prism, anti = [], []
        for k in range(n):
            th = 2 * math.pi * k / n
            prism += [[math.cos(th), math.sin(th), -0.7], [math.cos(th), math.sin(th), 0.7]]
            anti += [[math.cos(th), math.sin(th), -0.5], [math.cos(th + math.pi / n), math.sin(th + math.pi / n), 0.5]]
        out[f"prism{n}"] = prism
        out[f"antiprism{n}"] = anti
    # flat and needle-like solids (faces made of several hull simplices, ill-conditioned far from the origin)
    for n, r, h, tag in ((5, 1.0, 0.01, "flat"), (6, 1.0, 0.02, "flat"), (6, 0.01, 1.0, "needle"), (8, 0.02, 1.0, "needle")):
        pts = []
        for k in range(n):
            th = 2 * math.pi * k / n
            pts += [[r * math.cos(th), r * math.sin(th), -h / 2], [r * math.cos(th), r * math.sin(th), h / 2]]
        out[f"{tag}_prism{n}"] = pts
    return out


def ellipsoid_points(n, seed, axes=(1.0, 0.6, 0.3)):
    rnd = random.Random(seed)
    pts = []
    while len(pts) < n:
        v = [rnd.gauss(0, 1) for _ in range(3)]
        r = math.sqrt(sum(x * x for x in v))
        if r < 1e-3:
            continue
        pts.append([axes[i] * v[i] / r for i in range(3)])
    return pts


def placements(seed=0):
    """rigid placements: identity, pure offsets up to 10 diameters, a rotation (exact rational Cayley) + offset"""
    def cayley(a, b, c):
        # rotation matrix from the Cayley transform of a skew matrix: exactly orthogonal over the rationals
        a, b, c = Fr(a), Fr(b), Fr(c)
        k = 1 + a * a + b * b + c * c
        return [[(1 + a * a - b * b - c * c) / k, 2 * (a * b - c) / k, 2 * (a * c + b) / k],
                [2 * (a * b + c) / k, (1 - a * a + b * b - c * c) / k, 2 * (b * c - a) / k],
                [2 * (a * c - b) / k, 2 * (b * c + a) / k, (1 - a * a - b * b + c * c) / k]]
    eye = [[1, 0, 0], [0, 1, 0], [0, 0, 1]]
    return [("identity", eye, (0, 0, 0)), ("offset", eye, (10.0, -7.5, 3.25)),
            ("rot", cayley(Fr(1, 2), Fr(1, 3), Fr(-1, 5)), (0, 0, 0)),
            ("rot+offset", cayley(Fr(-1, 3), Fr(2, 5), Fr(1, 7)), (-4.0, 12.5, 6.0))]


def far_placements():
    """rotations combined with offsets of 5..9 diameters of a unit-size shape"""
    def cayley(a, b, c):
        a, b, c = Fr(a), Fr(b), Fr(c)
        k = 1 + a * a + b * b + c * c
        return [[(1 + a * a - b * b - c * c) / k, 2 * (a * b - c) / k, 2 * (a * c + b) / k],
                [2 * (a * b + c) / k, (1 - a * a + b * b - c * c) / k, 2 * (b * c - a) / k],
                [2 * (a * c - b) / k, 2 * (b * c + a) / k, (1 - a * a - b * b + c * c) / k]]
    return [("far1", cayley(Fr(1, 3), Fr(-1, 4), Fr(2, 5)), (11.3, 6.4, -15.2)),
            ("far2", cayley(Fr(-2, 7), Fr(3, 5), Fr(1, 9)), (-9.7, 13.1, 8.8)),
            ("far3", cayley(Fr(5, 6), Fr(1, 8), Fr(-3, 7)), (14.9, -3.3, -10.6))]


def place(points, R, t):
    return [[float(sum(float(R[i][j]) * p[j] for j in range(3)) + t[i]) for i in range(3)] for p in points]


def polygons_2d():
    """simple polygons in the plane (counter-clockwise), lattice and non-lattice, convex and not"""
    out = {
        "triangle": [(0, 0), (4, 0), (1, 3)],
        "unit_square": [(0, 0), (1, 0), (1, 1), (0, 1)],
        "rect": [(1, 2), (5, 2), (5, 3), (1, 3)],
        "L": [(0, 0), (3, 0), (3, 1), (1, 1), (1, 3), (0, 3)],
        "arrow": [(0, 0), (4, 1), (0, 2), (1, 1)],
        "comb": [(0, 0), (7, 0), (7, 3), (6, 3), (6, 1), (5, 1), (5, 3), (4, 3), (4, 1), (3, 1), (3, 3), (2, 3), (2, 1), (1, 1), (1, 3), (0, 3)],
        "quad_irregular": [(0, 0), (3, 0), (3, 1), (0, 2)],
        "pentagon_irregular": [(0, 0), (2, -1), (4, 1), (3, 3), (0.5, 2.5)],
    }
    for n in (5, 7, 12):
        out[f"regular{n}"] = [(math.cos(2 * math.pi * k / n), math.sin(2 * math.pi * k / n)) for k in range(n)]
    return out


def star_polygon(n, seed):
    """star-shaped (hence simple) polygon: jittered equally spaced directions, one radius per vertex;
    consecutive directions differ by less than pi"""
    rnd = random.Random(seed)
    angs = [2 * math.pi * (k + 0.8 * rnd.random()) / n for k in range(n)]
    out = []
    for a in angs:
        r = 0.4 + rnd.random()
        out.append((r * math.cos(a), r * math.sin(a)))
    return out
